package props

import (
	"fmt"
	"regexp"
	"strings"

	"github.com/freeconf/yang/meta"
	"github.com/freeconf/yang/parser"

	"yvh/core"
	"yvh/emit"
	"yvh/gen"
)

func init() { Registry["C06"] = C06 }

// ---- (L) lexical fidelity: how a text is written ------------------------------------------------

type c6piece struct {
	kind byte // 's' space, 'b' block comment, 'l' line comment
	b    byte
	body string
}

type c6junk []c6piece

func (j c6junk) src() string {
	var sb strings.Builder
	for _, p := range j {
		switch p.kind {
		case 's':
			sb.WriteByte(p.b)
		case 'b':
			sb.WriteString("/*" + p.body + "*/")
		case 'l':
			sb.WriteString("//" + p.body + "\n")
		}
	}
	return sb.String()
}

func (j c6junk) term() string {
	items := make([]string, len(j))
	for i, p := range j {
		switch p.kind {
		case 's':
			items[i] = fmt.Sprintf("(JSp x%02x)", p.b)
		case 'b':
			items[i] = emit.App("JBlock", emit.Str(p.body))
		case 'l':
			items[i] = emit.App("JLine", emit.Str(p.body))
		}
	}
	return emit.List(items)
}

func (j c6junk) hasComment() bool {
	for _, p := range j {
		if p.kind != 's' {
			return true
		}
	}
	return false
}

type c6item struct {
	esc bool
	b   byte
}

type c6part struct {
	style byte // 'd', 's', 'u'
	items []c6item
	body  string
}

func (p c6part) text() string {
	if p.style == 'd' {
		b := make([]byte, len(p.items))
		for i, it := range p.items {
			b[i] = it.b
		}
		return string(b)
	}
	return p.body
}

var c6escLetter = map[byte]byte{'\n': 'n', '\t': 't', '"': '"', '\\': '\\'}

func (p c6part) src() string {
	switch p.style {
	case 'd':
		var sb strings.Builder
		sb.WriteByte('"')
		for _, it := range p.items {
			if it.esc {
				sb.WriteByte('\\')
				sb.WriteByte(c6escLetter[it.b])
			} else {
				sb.WriteByte(it.b)
			}
		}
		sb.WriteByte('"')
		return sb.String()
	case 's':
		return "'" + p.body + "'"
	}
	return p.body
}

func (p c6part) term() string {
	switch p.style {
	case 'd':
		items := make([]string, len(p.items))
		for i, it := range p.items {
			if it.esc {
				items[i] = fmt.Sprintf("DEsc x%02x", it.b)
			} else {
				items[i] = fmt.Sprintf("DLit x%02x", it.b)
			}
		}
		return emit.App("PDq", emit.List(items))
	case 's':
		return emit.App("PSq", emit.Str(p.body))
	}
	return emit.App("PUq", emit.Str(p.body))
}

type c6more struct {
	j1, j2 c6junk
	p      c6part
}

type c6arg struct {
	first c6part
	more  []c6more
}

func (a c6arg) src() string {
	var sb strings.Builder
	sb.WriteString(a.first.src())
	for _, m := range a.more {
		sb.WriteString(m.j1.src() + "+" + m.j2.src() + m.p.src())
	}
	return sb.String()
}

func (a c6arg) text() string {
	s := a.first.text()
	for _, m := range a.more {
		s += m.p.text()
	}
	return s
}

func (a c6arg) term() string {
	more := make([]string, len(a.more))
	for i, m := range a.more {
		more[i] = "(" + m.j1.term() + ", " + m.j2.term() + ", " + m.p.term() + ")"
	}
	return emit.App("mkArg", a.first.term(), emit.List(more))
}

func (a c6arg) styles() string {
	s := string(a.first.style)
	for _, m := range a.more {
		s += string(m.p.style)
	}
	return s
}

// text alphabets. No NUL (not a YANG character).
var c6Alphabet = []string{"a", "b", "Z", "0", "7", " ", " ", "\"", "'", "\\", "+", ";", "{", "}", "/", "*", "\n", "\t", "\r",
	"\\n", "\\\\", "//", "/*", "*/", "é", "\u00a0", "\u2028", "日", "\xff", "\x80", "-", ":", ".", "_", "=", "\x0b"}

var c6UqAlphabet = []string{"a", "b", "Z", "0", "7", "\\", "+", "/", "*", "é", "日", "-", ":", ".", "_", "=", "x", "y", "\xff", "(", ")", "[", "]", "@", "#"}

func c6randText(r *gen.Rng, alpha []string, maxLen int) string {
	n := r.Intn(maxLen + 1)
	var sb strings.Builder
	for i := 0; i < n; i++ {
		sb.WriteString(gen.Pick(r, alpha))
	}
	return sb.String()
}

func c6junkGen(r *gen.Rng, allowEmpty bool, rich bool) c6junk {
	n := r.Intn(3)
	if !allowEmpty && n == 0 {
		n = 1
	}
	if !rich && n > 1 {
		n = 1
	}
	var j c6junk
	for i := 0; i < n; i++ {
		k := r.Intn(10)
		switch {
		case k < 6 || !rich:
			j = append(j, c6piece{kind: 's', b: gen.Pick(r, []byte{' ', ' ', '\t', '\n', '\r'})})
		case k < 8:
			body := c6randText(r, []string{"a", " ", "*", "/", "\"", "'", "+", ";", "{", "\n", "é", "x", "\\"}, 6)
			for strings.Contains(body, "*/") {
				body = strings.Replace(body, "*/", "* /", 1)
			}
			j = append(j, c6piece{kind: 'b', body: body})
		default:
			body := c6randText(r, []string{"a", " ", "*", "/", "\"", "'", "+", ";", "{", "é", "x", "\\"}, 6)
			j = append(j, c6piece{kind: 'l', body: body})
		}
	}
	return j
}

func c6uqOK(s string) bool {
	if s == "" {
		return false
	}
	for i := 0; i < len(s); i++ {
		switch s[i] {
		case ' ', '\t', '\r', '\n', '"', '\'', ';', '{', '}', 0:
			return false
		}
	}
	return !strings.Contains(s, "//") && !strings.Contains(s, "/*") && !strings.Contains(s, "*/")
}

// dqPart writes text as a double-quoted string; literalNL allows a line break or tab to be written
// literally (may enter the indentation-stripping region when next to a blank)
func c6dqPart(r *gen.Rng, text string, literalWS bool) c6part {
	p := c6part{style: 'd'}
	for i := 0; i < len(text); i++ {
		b := text[i]
		it := c6item{b: b}
		switch b {
		case '"', '\\':
			it.esc = true
		case '\n', '\t':
			it.esc = !(literalWS && r.Chance(1, 2))
		}
		p.items = append(p.items, it)
	}
	return p
}

func c6strips(p c6part) bool {
	if p.style != 'd' {
		return false
	}
	blank := func(it c6item) bool { return !it.esc && (it.b == ' ' || it.b == '\t') }
	nl := func(it c6item) bool { return !it.esc && it.b == '\n' }
	for i := 0; i+1 < len(p.items); i++ {
		a, b := p.items[i], p.items[i+1]
		if (blank(a) && nl(b)) || (nl(a) && blank(b)) {
			return true
		}
	}
	return false
}

// c6argGen writes text in a random legal way. region: "" (inside the theorem's domain as far as
// possible), "strip" (may produce literal line breaks next to blanks)
func c6argGen(r *gen.Rng, text string, allowUq bool, literalWS bool, maxParts int) c6arg {
	if allowUq && c6uqOK(text) && r.Chance(1, 2) {
		return c6arg{first: c6part{style: 'u', body: text}}
	}
	// split into parts
	nparts := 1
	if maxParts > 1 && r.Chance(1, 2) {
		nparts = 1 + r.Intn(maxParts)
	}
	cuts := []int{0}
	for i := 1; i < nparts; i++ {
		cuts = append(cuts, r.Intn(len(text)+1))
	}
	cuts = append(cuts, len(text))
	for i := 1; i < len(cuts); i++ { // insertion sort
		for k := i; k > 0 && cuts[k] < cuts[k-1]; k-- {
			cuts[k], cuts[k-1] = cuts[k-1], cuts[k]
		}
	}
	mk := func(piece string) c6part {
		if !strings.ContainsAny(piece, "'\x00") && r.Chance(2, 5) {
			return c6part{style: 's', body: piece}
		}
		return c6dqPart(r, piece, literalWS)
	}
	a := c6arg{first: mk(text[cuts[0]:cuts[1]])}
	for i := 1; i+1 < len(cuts); i++ {
		a.more = append(a.more, c6more{j1: c6junkGen(r, true, true), j2: c6junkGen(r, true, true), p: mk(text[cuts[i]:cuts[i+1]])})
	}
	return a
}

type c6place struct {
	name  string
	kw    string // statement keyword (or extension name)
	mode  int
	term  byte
	free  bool                                // accepts any text
	texts []string                            // otherwise: candidate texts
	wrap  func(stmt string) string            // module text around the statement
	read  func(m *meta.Module) (string, bool) // accessor
}

const c6head = "module m { yang-version 1.1; namespace \"urn:m\"; prefix m;\n"

func c6firstContainer(m *meta.Module) *meta.Container {
	return m.DataDefinitions()[0].(*meta.Container)
}

func c6places() []c6place {
	inMod := func(stmt string) string { return c6head + " " + stmt + "\n}" }
	inCont := func(stmt string) string { return c6head + " container c { " + stmt + " leaf x { type string; } }\n}" }
	inLeaf := func(stmt string) string {
		return c6head + " container c { leaf l { type string; " + stmt + " } }\n}"
	}
	leaf := func(m *meta.Module) *meta.Leaf { return c6firstContainer(m).DataDefinitions()[0].(*meta.Leaf) }
	list := func(m *meta.Module) *meta.List { return c6firstContainer(m).DataDefinitions()[0].(*meta.List) }
	inList := func(pre, post string) func(string) string {
		return func(stmt string) string {
			return c6head + " container c { list li { " + pre + stmt + post +
				" leaf k1 { type string; } leaf k2 { type string; } leaf u1 { type int32; } } }\n}"
		}
	}
	return []c6place{
		{name: "description", kw: "description", free: true, wrap: inMod, read: func(m *meta.Module) (string, bool) { return m.Description(), true }},
		{name: "reference", kw: "reference", free: true, wrap: inMod, read: func(m *meta.Module) (string, bool) { return m.Reference(), true }},
		{name: "contact", kw: "contact", free: true, wrap: inMod, read: func(m *meta.Module) (string, bool) { return m.Contact(), true }},
		{name: "organization", kw: "organization", free: true, wrap: inMod, read: func(m *meta.Module) (string, bool) { return m.Organization(), true }},
		{name: "namespace", kw: "namespace", free: true,
			wrap: func(stmt string) string { return "module m { yang-version 1.1; " + stmt + " prefix m;\n}" },
			read: func(m *meta.Module) (string, bool) { return m.Namespace(), true }},
		{name: "prefix", kw: "prefix", free: true,
			wrap: func(stmt string) string { return "module m { yang-version 1.1; namespace \"urn:m\"; " + stmt + "\n}" },
			read: func(m *meta.Module) (string, bool) { return m.Prefix(), true }},
		{name: "revision-description", kw: "description", free: true,
			wrap: func(stmt string) string { return c6head + " revision 2020-01-01 { " + stmt + " }\n}" },
			read: func(m *meta.Module) (string, bool) {
				if m.Revision() == nil {
					return "", false
				}
				return m.Revision().Description(), true
			}},
		{name: "presence", kw: "presence", free: true, wrap: inCont, read: func(m *meta.Module) (string, bool) { return c6firstContainer(m).Presence(), true }},
		{name: "when", kw: "when", free: true, wrap: inCont, read: func(m *meta.Module) (string, bool) {
			if w := c6firstContainer(m).When(); w != nil {
				return w.Expression(), true
			}
			return "", false
		}},
		{name: "must", kw: "must", free: true, wrap: inCont, read: func(m *meta.Module) (string, bool) {
			if ms := c6firstContainer(m).Musts(); len(ms) == 1 {
				return ms[0].Expression(), true
			}
			return "", false
		}},
		{name: "must{", kw: "must", free: true, term: '{',
			wrap: func(stmt string) string {
				return c6head + " container c { " + stmt + " error-app-tag t; } leaf x { type string; } }\n}"
			},
			read: func(m *meta.Module) (string, bool) {
				if ms := c6firstContainer(m).Musts(); len(ms) == 1 {
					return ms[0].Expression(), true
				}
				return "", false
			}},
		{name: "error-message", kw: "error-message", free: true,
			wrap: func(stmt string) string { return inCont("must \"x\" { " + stmt + " }") },
			read: func(m *meta.Module) (string, bool) {
				if ms := c6firstContainer(m).Musts(); len(ms) == 1 {
					return ms[0].ErrorMessage(), true
				}
				return "", false
			}},
		{name: "error-app-tag", kw: "error-app-tag", free: true,
			wrap: func(stmt string) string { return inCont("must \"x\" { " + stmt + " }") },
			read: func(m *meta.Module) (string, bool) {
				if ms := c6firstContainer(m).Musts(); len(ms) == 1 {
					return ms[0].ErrorAppTag(), true
				}
				return "", false
			}},
		{name: "units", kw: "units", free: true, wrap: inLeaf, read: func(m *meta.Module) (string, bool) { return leaf(m).Units(), true }},
		{name: "default", kw: "default", free: true, wrap: inLeaf, read: func(m *meta.Module) (string, bool) {
			if !leaf(m).HasDefault() {
				return "", false
			}
			return leaf(m).Default(), true
		}},
		{name: "pattern", kw: "pattern", free: true,
			wrap: func(stmt string) string {
				return c6head + " container c { leaf l { type string { " + stmt + " } } }\n}"
			},
			read: func(m *meta.Module) (string, bool) {
				if ps := leaf(m).Type().Patterns(); len(ps) == 1 {
					return ps[0].Pattern, true
				}
				return "", false
			}},
		{name: "key", kw: "key", texts: []string{"k1", "k2", "k1 k2", "k2 k1"}, wrap: inList("", ""),
			read: func(m *meta.Module) (string, bool) {
				var ks []string
				for _, k := range list(m).KeyMeta() {
					ks = append(ks, k.Ident())
				}
				return strings.Join(ks, " "), true
			}},
		{name: "unique", kw: "unique", free: true, wrap: inList("key k1; ", ""),
			read: func(m *meta.Module) (string, bool) {
				u := list(m).Unique()
				if len(u) != 1 {
					return "", false
				}
				return strings.Join(u[0], " "), true
			}},
		{name: "enum", kw: "enum", free: true,
			wrap: func(stmt string) string {
				return c6head + " container c { leaf l { type enumeration { " + stmt + " } } }\n}"
			},
			read: func(m *meta.Module) (string, bool) {
				if es := leaf(m).Type().Enums(); len(es) == 1 {
					return es[0].Ident(), true
				}
				return "", false
			}},
		{name: "extension-arg", kw: "m:e", mode: 2, free: true,
			wrap: func(stmt string) string { return c6head + " extension e { argument a; }\n " + stmt + "\n}" },
			read: func(m *meta.Module) (string, bool) {
				if es := m.Extensions(); len(es) == 1 {
					return es[0].Argument(), true
				}
				return "", false
			}},
		{name: "extension-arg-in-leaf", kw: "m:e", mode: 2, free: true,
			wrap: func(stmt string) string {
				return c6head + " extension e { argument a; }\n container c { leaf l { type string; " + stmt + " } }\n}"
			},
			read: func(m *meta.Module) (string, bool) {
				if es := leaf(m).Extensions(); len(es) == 1 {
					return es[0].Argument(), true
				}
				return "", false
			}},
		// rules that still take the raw token (known finding 2)
		{name: "yang-version(raw)", kw: "yang-version", mode: 1, texts: []string{"1", "1.1"},
			wrap: func(stmt string) string { return "module m { " + stmt + " namespace \"urn:m\"; prefix m;\n}" },
			read: func(m *meta.Module) (string, bool) { return m.Version(), true }},
		{name: "revision(raw)", kw: "revision", mode: 1, texts: []string{"2020-01-01", "1999-12-31"},
			wrap: inMod,
			read: func(m *meta.Module) (string, bool) {
				if m.Revision() == nil {
					return "", false
				}
				return m.Revision().Ident(), true
			}},
		{name: "argument(raw)", kw: "argument", mode: 1, texts: []string{"a", "name", "x-y"},
			wrap: func(stmt string) string { return c6head + " extension e { " + stmt + " }\n}" },
			read: func(m *meta.Module) (string, bool) {
				if d := m.ExtensionDefs()["e"]; d != nil && d.Argument() != nil {
					return d.Argument().Ident(), true
				}
				return "", false
			}},
	}
}

type c6obs struct {
	text string
	err  string // "" ok; otherwise "error" / "panic" / "missing"
}

func c6load(y string) (m *meta.Module, err error) {
	defer func() {
		if r := recover(); r != nil {
			m, err = nil, fmt.Errorf("panic: %v", r)
		}
	}()
	return parser.LoadModuleFromString(nil, y)
}

func c6observe(pl c6place, module string) (o c6obs) {
	m, err := c6load(module)
	if err != nil {
		if strings.HasPrefix(err.Error(), "panic:") {
			return c6obs{err: "panic"}
		}
		return c6obs{err: "error"}
	}
	defer func() {
		if r := recover(); r != nil {
			o = c6obs{err: "panic"}
		}
	}()
	t, ok := pl.read(m)
	if !ok {
		return c6obs{err: "missing"}
	}
	return c6obs{text: t}
}

func c6addArg(ctx *core.Ctx, pl c6place, j0 c6junk, a c6arg, j1 c6junk, tag string) {
	term := pl.term
	if term == 0 {
		term = ';'
	}
	stmt := pl.kw + j0.src() + a.src() + j1.src() + string(term)
	module := pl.wrap(stmt)
	o := c6observe(pl, module)
	obs := "OErr"
	if o.err == "" {
		obs = emit.App("OText", emit.Str(o.text))
	}
	t := emit.App("CArg", emit.Str(pl.kw), emit.Nat(pl.mode), j0.term(), a.term(), j1.term(),
		fmt.Sprintf("x%02x", term), emit.Str(stmt), obs)
	text := a.text()
	special := strings.ContainsAny(text, "\"'\\+;{}/*\n\t") || len(a.more) > 0 || j0.hasComment() || j1.hasComment()
	ctx.Add(t, map[string]interface{}{"kind": "arg", "stream": tag, "placement": pl.name, "statement": stmt, "written_text": text,
		"styles": a.styles(), "observed_text": o.text, "observed_error": o.err, "module": module}, special)
	ctx.Count("L:place:" + pl.name)
	ctx.Count("L:styles:" + c6styleClass(a))
	ctx.Count(fmt.Sprintf("L:parts:%d", c6bucket(1+len(a.more))))
	if o.err != "" {
		ctx.Count("L:observed:" + o.err)
	}
}

func c6placeByName(ps []c6place, name string) c6place {
	for _, p := range ps {
		if p.name == name {
			return p
		}
	}
	panic("no placement " + name)
}

func c6bucket(n int) int {
	switch {
	case n <= 4:
		return n
	case n <= 8:
		return 8
	case n <= 31:
		return 31
	}
	return 32
}

func c6styleClass(a c6arg) string {
	s := a.styles()
	if len(s) == 1 {
		return s
	}
	has := func(c string) bool { return strings.Contains(s, c) }
	switch {
	case has("d") && has("s"):
		return "mixed+"
	case has("d"):
		return "d+"
	}
	return "s+"
}

func c6textFor(r *gen.Rng, pl c6place) string {
	if !pl.free {
		return gen.Pick(r, pl.texts)
	}
	for tries := 0; ; tries++ {
		var t string
		switch r.Intn(4) {
		case 0:
			t = c6randText(r, c6UqAlphabet, 8)
		default:
			t = c6randText(r, c6Alphabet, 14)
		}
		if pl.name == "pattern" {
			if _, err := regexp.Compile(t); err != nil {
				if tries > 20 {
					return "a+b"
				}
				continue
			}
		}
		return t
	}
}

func c06Lexical(ctx *core.Ctx, r *gen.Rng) {
	places := c6places()
	n := ctx.Scale(26, 120)
	if ctx.Tier == "search" {
		n = 600
	}
	for pi, pl := range places {
		pr := r.Fork(uint64(100 + pi))
		for i := 0; i < n; i++ {
			text := c6textFor(pr, pl)
			allowUq := true
			if pl.mode == 2 && text != "" && strings.ContainsRune("0123456789+-", rune(text[0])) {
				allowUq = pr.Chance(1, 8) // known finding 7: read as a number token followed by a string
			}
			a := c6argGen(pr, text, allowUq, pr.Chance(1, 10), 4)
			j0 := c6junkGen(pr, false, true)
			j1 := c6junkGen(pr, true, true)
			if a.first.style == 'u' && len(j1) > 0 && j1[0].kind != 's' {
				j1 = append(c6junk{{kind: 's', b: ' '}}, j1...)
			}
			c6addArg(ctx, pl, j0, a, j1, "random")
		}
	}
	// directed: many parts (ring boundary 31/32), every escape, literal line breaks with indentation
	dr := r.Fork(7)
	desc := places[0]
	for _, np := range []int{2, 8, 16, 30, 31, 32, 33, 40, 64, 65} {
		a := c6arg{first: c6dqPart(dr, "p0", false)}
		for i := 1; i < np; i++ {
			a.more = append(a.more, c6more{j1: c6junkGen(dr, true, false), j2: c6junkGen(dr, true, false), p: c6dqPart(dr, fmt.Sprintf("%d", i%10), false)})
		}
		c6addArg(ctx, desc, c6junk{{kind: 's', b: ' '}}, a, nil, "many-parts")
	}
	for _, t := range []string{"say \"hi\"\n", "tab\there", "back\\slash", "\\n is not a line break", "a\n   b", "a  \nb", "line1\n\tline2", "\"", "\\", "\\\\\"", ""} {
		for _, pl := range []c6place{places[0], c6placeByName(places, "units")} {
			c6addArg(ctx, pl, c6junk{{kind: 's', b: ' '}}, c6arg{first: c6dqPart(dr, t, false)}, nil, "escapes")
			c6addArg(ctx, pl, c6junk{{kind: 's', b: ' '}}, c6arg{first: c6dqPart(dr, t, true)}, nil, "literal-ws")
		}
	}
	for _, t := range []string{"2nd", "-x", "+1a", "42", "1.5"} { // known finding 7 (the last two are read back correctly)
		c6addArg(ctx, c6placeByName(places, "extension-arg"), c6junk{{kind: 's', b: ' '}}, c6arg{first: c6part{style: 'u', body: t}}, nil, "extension-numeric")
	}
	for _, t := range []string{"a\u00a0b", "a\x0bb", "x\u2028", "é", "日本"} {
		c6addArg(ctx, desc, c6junk{{kind: 's', b: ' '}}, c6arg{first: c6part{style: 'u', body: t}}, nil, "unquoted-unicode")
	}
}

// C06 drives the loader with generated module texts and reads the schema back.
func C06(ctx *core.Ctx) error {
	ctx.Imports = "YLex.Keywords YLex.Model YLex.Spec Meta.Slices Check.C06Check"
	ctx.Rule = "L cases: one statement argument written under a random quoting style / '+' split / comment and white-space placement, loaded inside a module and read back through the public accessor; non-trivial when the text contains a character special to the lexer, has more than one part or a comment next to it. S cases: one node of a generated statement tree, all its written properties against the accessors; non-trivial when at least 3 properties were written. every pattern statement is one node read back with all the sub-statements a pattern can carry, written or not. D cases: 3 loads of one text compared by canonical dump; after the next text was loaded, the schema compiled from the previous text is read again and the previous text is loaded again, both compared with its first dump."
	r := gen.New(ctx.Seed)
	ctx.ShardMax = 120000
	c06Lexical(ctx, r.Fork(1))
	c06Statements(ctx, r.Fork(2))
	c06Groupings(ctx, r.Fork(3))
	return nil
}
