package props

// C05, second family: the types whose membership is established while the written value is
// converted (node/value.go NewValue) - enumeration, bits, identityref - on a leaf or a leaf-list.
//
// The enumeration / bits statement sits on the innermost level of a typedef chain of depth 0-3; the
// levels between it and the leaf may restrict it ("type color { enum red; }", RFC 7950 9.6.4 /
// 9.7.4), each level keeping a subset of the level below. An identityref names one base among 3-7
// generated identities whose "base" statements form a DAG (an identity has 0-2 bases, declared
// anywhere in the module text). Candidate values: every declared name and value, names a level
// restricted away, undeclared ones, the base identity itself, identities of other bases; for a
// leaf-list, lists of 0-3 of them. Every value is written through the converting write paths, through
// Selection.Set with a hand-built typed value, and through Selection.SetValue with that same typed
// value (val.Enum, val.EnumList, val.Bits, val.BitsList, val.IdentRef, val.IdentRefList).
// Coq (Check/C05Check.v, case CMember) runs the model Restrict/Member.v and the spec on it.

import (
	"fmt"
	"math/big"
	"strings"

	"github.com/freeconf/yang/meta"
	"github.com/freeconf/yang/node"
	"github.com/freeconf/yang/nodeutil"
	"github.com/freeconf/yang/val"

	"yvh/core"
	"yvh/emit"
	"yvh/gen"
)

type c5ident struct {
	name  string
	bases []string
}

type c5mtype struct {
	kind   string // enumeration, bits, identityref
	isList bool
	depth  int        // typedef levels between the leaf and the innermost type statement
	enums  []c5enum   // declared by the innermost enumeration
	bits   []string   // declared by the innermost bits type (position = index)
	keep   [][]string // level 0 (leaf) .. depth-1: the names a restricting level lists, nil = none
	idents []c5ident  // every identity after its bases
	order  []int      // order of the identity statements in the module text
	base   string     // the identityref's base
}

// ---- module text ------------------------------------------------------------------------------

func (t *c5mtype) yang() string {
	var b strings.Builder
	b.WriteString("module m { prefix \"\"; namespace \"\"; revision 0;\n")
	for _, i := range t.order {
		id := t.idents[i]
		if len(id.bases) == 0 {
			fmt.Fprintf(&b, "  identity %s;\n", id.name)
			continue
		}
		fmt.Fprintf(&b, "  identity %s {", id.name)
		for _, bs := range id.bases {
			fmt.Fprintf(&b, " base %s;", bs)
		}
		b.WriteString(" }\n")
	}
	typeStmt := func(i int) string {
		name := t.kind
		if i < t.depth {
			name = fmt.Sprintf("t%d", i+1)
		}
		var sub []string
		if i == t.depth {
			switch t.kind {
			case "enumeration":
				for _, e := range t.enums {
					sub = append(sub, fmt.Sprintf("enum %s { value %d; }", e.name, e.v))
				}
			case "bits":
				for _, bn := range t.bits {
					sub = append(sub, fmt.Sprintf("bit %s;", bn))
				}
			case "identityref":
				sub = append(sub, fmt.Sprintf("base %s;", t.base))
			}
		} else if t.keep[i] != nil {
			kw := "enum"
			if t.kind == "bits" {
				kw = "bit"
			}
			for _, n := range t.keep[i] {
				sub = append(sub, fmt.Sprintf("%s %s;", kw, n))
			}
		}
		if len(sub) == 0 {
			return "type " + name + ";"
		}
		return "type " + name + " { " + strings.Join(sub, " ") + " }"
	}
	for i := t.depth; i >= 1; i-- {
		fmt.Fprintf(&b, "  typedef t%d { %s }\n", i, typeStmt(i))
	}
	kw := "leaf"
	if t.isList {
		kw = "leaf-list"
	}
	fmt.Fprintf(&b, "  %s l { %s }\n}\n", kw, typeStmt(0))
	return b.String()
}

// ---- Coq terms --------------------------------------------------------------------------------

func c5strList(xs []string) string {
	items := make([]string, len(xs))
	for i, x := range xs {
		items[i] = emit.Str(x)
	}
	return emit.List(items)
}

func (t *c5mtype) restrTerm() string {
	var items []string
	for _, k := range t.keep {
		if k != nil {
			items = append(items, c5strList(k))
		}
	}
	return emit.List(items)
}

func (t *c5mtype) term() string {
	switch t.kind {
	case "enumeration":
		items := make([]string, len(t.enums))
		for i, e := range t.enums {
			items[i] = emit.Pair(emit.Str(e.name), emit.Z(e.v))
		}
		return emit.App("MEnum", emit.List(items), t.restrTerm())
	case "bits":
		return emit.App("MBits", c5strList(t.bits), t.restrTerm())
	}
	items := make([]string, len(t.idents))
	for i, id := range t.idents {
		items[i] = emit.Pair(emit.Str(id.name), c5strList(id.bases))
	}
	return emit.App("MIdent", emit.List(items), c5strList([]string{t.base}))
}

func c5mscalarTerm(s c5scalar) string {
	switch s.kind {
	case "eval":
		return emit.App("MNum", emit.ZBig(s.z))
	case "bits":
		return emit.App("MBitNames", c5strList(s.names))
	}
	return emit.App("MName", emit.Str(s.s))
}

func c5mvalueTerm(v c5value) string {
	if !v.list {
		return emit.App("MOne", c5mscalarTerm(v.items[0]))
	}
	items := make([]string, len(v.items))
	for i, s := range v.items {
		items[i] = c5mscalarTerm(s)
	}
	return emit.App("MMany", emit.List(items))
}

// ---- what the harness itself knows about the type (used only to build Go values and to name the
// stored value; the verdict is Coq's) -----------------------------------------------------------

// the names of the outermost restricting level, or of the innermost declaration
func (t *c5mtype) effective() map[string]bool {
	out := map[string]bool{}
	for _, k := range t.keep {
		if k != nil {
			for _, n := range k {
				out[n] = true
			}
			return out
		}
	}
	for _, e := range t.enums {
		out[e.name] = true
	}
	for _, b := range t.bits {
		out[b] = true
	}
	return out
}

func (t *c5mtype) derivedFrom(x, base string) bool {
	for _, id := range t.idents {
		if id.name != x {
			continue
		}
		for _, b := range id.bases {
			if b == base || t.derivedFrom(b, base) {
				return true
			}
		}
	}
	return false
}

// the typed value of one item: canonical (what an accepted converting write stores; ok=false when the
// item is no member) and hand-built (what a caller holding a val.Value of that format could hand
// over: taken from a leaf of the unrestricted base type, of another base, or made up)
func (t *c5mtype) item(s c5scalar) (canon val.Value, ok bool, typed val.Value) {
	eff := t.effective()
	switch t.kind {
	case "enumeration":
		for _, e := range t.enums {
			if (s.kind == "ename" && e.name == s.s) || (s.kind == "eval" && s.z.IsInt64() && e.v == s.z.Int64()) {
				w := val.Enum{Id: int(e.v), Label: e.name}
				return w, eff[e.name], w
			}
		}
		if s.kind == "ename" {
			return nil, false, val.Enum{Id: 99, Label: s.s}
		}
		return nil, false, val.Enum{Id: int(s.z.Int64()), Label: "undeclared"}
	case "bits":
		var mask, tmask uint64
		member := true
		for _, n := range s.names {
			found := false
			for i, b := range t.bits {
				if b == n {
					tmask |= 1 << uint(i)
					found = true
					if eff[n] {
						mask |= 1 << uint(i)
					} else {
						member = false
					}
				}
			}
			if !found && n != "" {
				member = false
				tmask |= 1 << 40
			}
		}
		return val.Bits{Positions: mask}, member, val.Bits{Positions: tmask, Labels: s.names}
	}
	w := val.IdentRef{Label: s.s}
	return w, t.derivedFrom(s.s, t.base), w
}

// canonical text of a stored value, whatever Go type the map-backed node holds it in
func c5canon(x interface{}) string {
	switch w := x.(type) {
	case nil:
		return "absent"
	case val.Enum:
		return fmt.Sprintf("E%d:%s", w.Id, w.Label)
	case val.EnumList:
		parts := make([]string, len(w))
		for i, e := range w {
			parts[i] = c5canon(e)
		}
		return "L[" + strings.Join(parts, ",") + "]"
	case uint64:
		return fmt.Sprintf("B%x", w)
	case val.Bits:
		return fmt.Sprintf("B%x", w.Positions)
	case []uint64:
		parts := make([]string, len(w))
		for i, e := range w {
			parts[i] = c5canon(e)
		}
		return "L[" + strings.Join(parts, ",") + "]"
	case val.BitsList:
		parts := make([]string, len(w))
		for i, e := range w {
			parts[i] = c5canon(e)
		}
		return "L[" + strings.Join(parts, ",") + "]"
	case val.IdentRef:
		return "I" + w.Label
	case val.IdentRefList:
		parts := make([]string, len(w))
		for i, e := range w {
			parts[i] = c5canon(e)
		}
		return "L[" + strings.Join(parts, ",") + "]"
	case val.Value:
		return c5canon(w.Value())
	}
	return fmt.Sprintf("%T:%v", x, x)
}

// want: canonical text of what an accepted converting write of v stores ("" when v is no member);
// typed: the hand-built typed value for Set / SetValue, and its canonical text
func (t *c5mtype) values(v c5value) (want string, typed val.Value, typedCanon string) {
	member := true
	var canons, typeds []val.Value
	for _, s := range v.items {
		c, ok, ty := t.item(s)
		member = member && ok
		canons = append(canons, c)
		typeds = append(typeds, ty)
	}
	one := func(xs []val.Value) string {
		if !v.list {
			return c5canon(xs[0])
		}
		parts := make([]string, len(xs))
		for i, x := range xs {
			parts[i] = c5canon(x)
		}
		return "L[" + strings.Join(parts, ",") + "]"
	}
	if member {
		want = one(canons)
	}
	typedCanon = one(typeds)
	if !v.list {
		return want, typeds[0], typedCanon
	}
	switch t.kind {
	case "enumeration":
		l := make(val.EnumList, len(typeds))
		for i, x := range typeds {
			l[i] = x.(val.Enum)
		}
		typed = l
	case "bits":
		l := make(val.BitsList, len(typeds))
		for i, x := range typeds {
			l[i] = x.(val.Bits)
		}
		typed = l
	default:
		l := make(val.IdentRefList, len(typeds))
		for i, x := range typeds {
			l[i] = x.(val.IdentRef)
		}
		typed = l
	}
	return want, typed, typedCanon
}

// ---- write paths (numbered as c5pathNames) -----------------------------------------------------

var c5dummy = &c5type{base: "string"}

// the write paths of this family: those of c5pathNames, then a leaf-list written with a single value
var c5mpathNames = append(append([]string{}, c5pathNames...), "SetValue(single value onto leaf-list)", "UpsertFrom(JSON single value onto leaf-list)")

func (t *c5mtype) write(path int, b *node.Browser, v c5value) (applicable bool, err error) {
	switch path {
	case 0, 5, 6:
		n, e := nodeutil.ReadJSON(`{"l":` + v.json(false) + `}`)
		if e != nil {
			return false, nil
		}
		switch path {
		case 0:
			return true, b.Root().UpsertFrom(n)
		case 5:
			return true, b.Root().UpdateFrom(n)
		}
		return true, b.Root().InsertFrom(n)
	case 1, 2, 7:
		sel, e := b.Root().Find("l")
		if e != nil || sel == nil {
			return false, nil
		}
		switch path {
		case 1:
			return true, sel.SetValue(v.native(c5dummy))
		case 2:
			_, typed, _ := t.values(v)
			return true, sel.Set(typed)
		}
		_, typed, _ := t.values(v)
		return true, sel.SetValue(typed)
	case 3:
		x, ok := v.xml("l")
		if !ok {
			return false, nil
		}
		n, e := nodeutil.ReadXMLDoc(strings.NewReader(x))
		if e != nil {
			return false, nil
		}
		return true, b.Root().UpsertFrom(n)
	case 4:
		src := map[string]interface{}{"l": v.native(c5dummy)}
		return true, b.Root().UpsertFrom(nodeutil.ReflectChild(src))
	case 8, 9:
		// the list of one written as its single value
		if !v.list || len(v.items) != 1 {
			return false, nil
		}
		if path == 8 {
			sel, e := b.Root().Find("l")
			if e != nil || sel == nil {
				return false, nil
			}
			return true, sel.SetValue(v.items[0].native(c5dummy))
		}
		n, e := nodeutil.ReadJSON(`{"l":` + v.items[0].json(false) + `}`)
		if e != nil {
			return false, nil
		}
		return true, b.Root().UpsertFrom(n)
	}
	return false, nil
}

func (t *c5mtype) observe(path int, m *meta.Module, pre *c5value, v c5value) (o c5obs, applicable bool) {
	data := map[string]interface{}{}
	b := node.NewBrowser(m, nodeutil.ReflectChild(data))
	preCanon := "absent"
	if pre != nil {
		func() {
			defer func() { recover() }()
			t.write(0, b, *pre)
		}()
		preCanon, _, _ = t.values(*pre)
		if preCanon == "" || c5canon(data["l"]) != preCanon {
			return o, false // the pre-state could not be established
		}
	}
	o.path = path
	func() {
		defer func() {
			if r := recover(); r != nil {
				o.outcome = 2
				o.errText = fmt.Sprint(r)
				applicable = true
			}
		}()
		ok, err := t.write(path, b, v)
		applicable = ok
		if err != nil {
			o.outcome = 1
			o.errText = err.Error()
		}
	}()
	if !applicable {
		return o, false
	}
	want, _, typedCanon := t.values(v)
	if path == 2 || path == 7 {
		want = typedCanon
	}
	got := "absent"
	if raw, present := data["l"]; present {
		got = c5canon(raw)
	}
	switch {
	case want != "" && got == want:
		o.store = 1
	case got == preCanon:
		o.store = 0
	default:
		o.store = 2
		o.errText += " [holds " + got + "]"
	}
	if len(o.errText) > 120 {
		o.errText = o.errText[:120]
	}
	return o, true
}

// ---- generator ---------------------------------------------------------------------------------

// a non-empty subset, in the order of xs
func c5subset(r *gen.Rng, xs []string) []string {
	var out []string
	for _, x := range xs {
		if r.Chance(3, 5) {
			out = append(out, x)
		}
	}
	if len(out) == 0 {
		out = []string{xs[r.Intn(len(xs))]}
	}
	return out
}

func c5genMember(r *gen.Rng) *c5mtype {
	t := &c5mtype{depth: r.Intn(4), isList: r.Chance(2, 5)}
	switch r.Intn(5) {
	case 0, 1:
		t.kind = "enumeration"
	case 2:
		t.kind = "bits"
	default:
		t.kind = "identityref"
	}
	t.keep = make([][]string, t.depth)
	var all []string
	switch t.kind {
	case "enumeration":
		names := []string{"a", "b", "up", "down", "x-y", "Z", "red"}
		n := 2 + r.Intn(4)
		// strictly increasing explicit values (see c5genType)
		v := int64(r.Intn(3))
		for i := 0; i < n; i++ {
			t.enums = append(t.enums, c5enum{names[i], v})
			all = append(all, names[i])
			v += 1 + int64(r.Intn(4))
		}
	case "bits":
		t.bits = []string{"a", "b", "cc", "d-e", "up"}[:2+r.Intn(4)]
		all = t.bits
	default:
		names := []string{"animal", "dog", "plant", "fern", "puppy", "thing", "moss"}
		n := 3 + r.Intn(5)
		for i := 0; i < n; i++ {
			id := c5ident{name: names[i]}
			if i > 0 && r.Chance(4, 5) {
				id.bases = append(id.bases, names[r.Intn(i)])
				if i > 1 && r.Chance(1, 4) {
					if b2 := names[r.Intn(i)]; b2 != id.bases[0] {
						id.bases = append(id.bases, b2)
					}
				}
			}
			t.idents = append(t.idents, id)
		}
		// the base: mostly one that has derived identities
		var withDerived []string
		for _, id := range t.idents {
			withDerived = append(withDerived, id.bases...)
		}
		if len(withDerived) > 0 && r.Chance(9, 10) {
			t.base = gen.Pick(r, withDerived)
		} else {
			t.base = t.idents[r.Intn(n)].name
		}
		t.order = make([]int, n)
		for i := range t.order {
			t.order[i] = i
		}
		if r.Chance(2, 3) {
			for i := n - 1; i > 0; i-- {
				j := r.Intn(i + 1)
				t.order[i], t.order[j] = t.order[j], t.order[i]
			}
		}
		return t
	}
	// restricting levels, from the one next to the innermost type outwards
	cur := all
	for i := t.depth - 1; i >= 0; i-- {
		if r.Chance(1, 2) {
			t.keep[i] = c5subset(r, cur)
			cur = t.keep[i]
		}
	}
	return t
}

func c5fixedMembers() []*c5mtype {
	ids := []c5ident{{"animal", nil}, {"dog", []string{"animal"}}, {"plant", nil}, {"fern", []string{"plant"}}, {"puppy", []string{"dog"}}, {"moss", []string{"plant", "animal"}}}
	ord := []int{0, 1, 2, 3, 4, 5}
	color := []c5enum{{"red", 0}, {"green", 5}, {"blue", 6}}
	return []*c5mtype{
		{kind: "enumeration", depth: 1, enums: color, keep: [][]string{nil}},
		{kind: "enumeration", depth: 2, enums: color, keep: [][]string{nil, {"red"}}},
		{kind: "enumeration", depth: 2, enums: color, keep: [][]string{{"green"}, {"red", "green"}}, isList: true},
		{kind: "enumeration", depth: 0, enums: color, keep: [][]string{}, isList: true},
		{kind: "identityref", depth: 0, keep: [][]string{}, idents: ids, order: ord, base: "animal"},
		{kind: "identityref", depth: 1, keep: [][]string{nil}, idents: ids, order: []int{5, 4, 3, 2, 1, 0}, base: "animal", isList: true},
		{kind: "bits", depth: 0, keep: [][]string{}, bits: []string{"up", "down"}},
		{kind: "bits", depth: 2, keep: [][]string{{"down"}, nil}, bits: []string{"up", "down", "left"}},
		{kind: "bits", depth: 1, keep: [][]string{{"up", "left"}}, bits: []string{"up", "down", "left"}, isList: true},
	}
}

func (t *c5mtype) scalars(r *gen.Rng) []c5scalar {
	var out []c5scalar
	seen := map[string]bool{}
	add := func(s c5scalar) {
		k := s.kind + ":" + s.text()
		if !seen[k] {
			seen[k] = true
			out = append(out, s)
		}
	}
	switch t.kind {
	case "enumeration":
		for _, e := range t.enums {
			add(c5scalar{kind: "ename", s: e.name})
			add(c5scalar{kind: "eval", z: big.NewInt(e.v)})
		}
		last := t.enums[len(t.enums)-1].v
		add(c5scalar{kind: "eval", z: big.NewInt(last + 1)})
		add(c5scalar{kind: "ename", s: "zz"})
		add(c5scalar{kind: "ename", s: "A"})
		add(c5scalar{kind: "eval", z: big.NewInt(77)})
		add(c5scalar{kind: "eval", z: big.NewInt(-9)})
	case "bits":
		pool := append(append([]string{}, t.bits...), "zz", "A")
		for _, b := range t.bits {
			add(c5scalar{kind: "bits", names: []string{b}})
		}
		add(c5scalar{kind: "bits", names: []string{"zz"}})
		add(c5scalar{kind: "bits", names: []string{t.bits[0], "zz"}})
		add(c5scalar{kind: "bits", names: []string{t.bits[1], "", t.bits[0]}})
		add(c5scalar{kind: "bits", names: append([]string{}, t.bits...)})
		for i := 0; i < 5; i++ {
			n := 1 + r.Intn(3)
			var names []string
			for j := 0; j < n; j++ {
				names = append(names, gen.Pick(r, pool))
			}
			add(c5scalar{kind: "bits", names: names})
		}
	default:
		for _, id := range t.idents {
			add(c5scalar{kind: "ident", s: id.name})
		}
		add(c5scalar{kind: "ident", s: "zz"})
		add(c5scalar{kind: "ident", s: "nothing"})
	}
	return out
}

func (t *c5mtype) candidates(r *gen.Rng, max int) []c5value {
	sc := t.scalars(r)
	for i := len(sc) - 1; i > 0; i-- {
		j := r.Intn(i + 1)
		sc[i], sc[j] = sc[j], sc[i]
	}
	var out []c5value
	if !t.isList {
		for _, s := range sc {
			if len(out) < max {
				out = append(out, c5value{items: []c5scalar{s}})
			}
		}
		return out
	}
	var members, others []c5scalar
	for _, s := range sc {
		if _, ok, _ := t.item(s); ok {
			members = append(members, s)
		} else {
			others = append(others, s)
		}
	}
	seen := map[string]bool{}
	add := func(v c5value) {
		if !seen[v.key()] && len(out) < max {
			seen[v.key()] = true
			out = append(out, v)
		}
	}
	add(c5value{list: true})
	// lists of one: a member, a non-member
	if len(members) > 0 {
		add(c5value{list: true, items: []c5scalar{members[0]}})
	}
	if len(others) > 0 {
		add(c5value{list: true, items: []c5scalar{others[0]}})
	}
	for tries := 0; len(out) < max && tries < 60; tries++ {
		n := 1 + r.Intn(3)
		v := c5value{list: true}
		onlyMembers := len(members) > 0 && r.Chance(1, 2)
		for j := 0; j < n; j++ {
			if onlyMembers {
				v.items = append(v.items, gen.Pick(r, members))
			} else {
				v.items = append(v.items, gen.Pick(r, sc))
			}
		}
		add(v)
	}
	return out
}

// ---- one case per generated type ---------------------------------------------------------------

func c5runMember(ctx *core.Ctx, r *gen.Rng, t *c5mtype) {
	const maxVals = 14
	y := t.yang()
	m, loadErr := c5load(y)
	loaded := loadErr == nil && m != nil
	ctx.Count("member:" + t.kind)
	ctx.Count(fmt.Sprintf("member-depth:%d", t.depth))
	ctx.Count(fmt.Sprintf("member-leaf-list:%v", t.isList))
	restricted := 0
	for _, k := range t.keep {
		if k != nil {
			restricted++
		}
	}
	ctx.Count(fmt.Sprintf("member-restricting-levels:%d", restricted))
	type rowT struct {
		pre  *c5value
		v    c5value
		obs  []c5obs
		term string
	}
	var rows []rowT
	if loaded {
		vals := t.candidates(r, maxVals)
		var accepted []c5value
		for _, v := range vals {
			if o, ok := t.observe(0, m, nil, v); ok && o.outcome == 0 && o.store == 1 {
				accepted = append(accepted, v)
			}
		}
		for vi, v := range vals {
			var pre *c5value
			if len(accepted) > 0 && vi%2 == 1 {
				wantV, _, _ := t.values(v)
				for k := 0; k < len(accepted); k++ {
					c := accepted[(vi+k)%len(accepted)]
					// another value, also as stored (an enum written by name and by value is one value)
					if wc, _, _ := t.values(c); c.key() != v.key() && wc != wantV {
						pre = &c
						break
					}
				}
			}
			row := rowT{pre: pre, v: v}
			for p := range c5mpathNames {
				if o, ok := t.observe(p, m, pre, v); ok {
					row.obs = append(row.obs, o)
					ctx.Count(fmt.Sprintf("member-path%d:outcome%d", p, o.outcome))
				}
			}
			if len(row.obs) == 0 {
				continue
			}
			var obsT, tobsT, sobsT, oobsT []string
			for _, o := range row.obs {
				p := emit.Pair(emit.Z(int64(o.outcome)), emit.Z(int64(o.store)))
				switch o.path {
				case 2:
					tobsT = append(tobsT, p)
				case 7:
					sobsT = append(sobsT, p)
				case 8, 9:
					oobsT = append(oobsT, p)
				default:
					obsT = append(obsT, p)
				}
			}
			preT := "None"
			if pre != nil {
				preT = emit.Some(c5mvalueTerm(*pre))
			}
			row.term = emit.App("MRow", preT, c5mvalueTerm(v), emit.List(obsT), emit.List(tobsT), emit.List(sobsT), emit.List(oobsT))
			rows = append(rows, row)
		}
	}
	head := []string{t.term(), emit.Bool(t.isList), emit.Bool(loaded)}
	rowDesc := func(row rowT) map[string]interface{} {
		var obs []string
		for _, o := range row.obs {
			obs = append(obs, fmt.Sprintf("%s: outcome=%d store=%d %s", c5mpathNames[o.path], o.outcome, o.store, o.errText))
		}
		_, typed, _ := t.values(row.v)
		d := map[string]interface{}{"value": row.v.desc(), "typed_value": fmt.Sprintf("%#v", typed), "observations": obs,
			"codes": "outcome 0 accepted / 1 rejected / 2 panic; store 0 unchanged / 1 holds the written value / 2 other"}
		if row.pre != nil {
			d["stored_before"] = row.pre.desc()
		}
		return d
	}
	idx := ctx.N()
	if ctx.Explode == idx && len(rows) > 0 {
		for _, row := range rows {
			ctx.Add(emit.App("CMember", append(append([]string{}, head...), emit.List([]string{row.term}))...),
				map[string]interface{}{"kind": "row", "module": y, "leaf": "l", "write": rowDesc(row)}, true)
		}
		return
	}
	terms := make([]string, len(rows))
	for i, row := range rows {
		terms[i] = row.term
	}
	desc := map[string]interface{}{"kind": "table", "module": y, "leaf": "l", "loaded": loaded, "values": len(rows)}
	if loadErr != nil {
		desc["load_error"] = loadErr.Error()
	}
	if len(rows) > 0 {
		desc["first_row"] = rowDesc(rows[0])
	}
	ctx.Add(emit.App("CMember", append(append([]string{}, head...), emit.List(terms))...), desc, len(rows) > 0)
	ctx.Hist["rows"] += len(rows)
	for _, row := range rows {
		ctx.Hist["writes"] += len(row.obs)
	}
}

func c5members(ctx *core.Ctx, r *gen.Rng) {
	n := ctx.Scale(14, 200)
	if ctx.Tier == "search" {
		n = 320
	}
	fixed := c5fixedMembers()
	for i := 0; i < n+len(fixed); i++ {
		mr := r.Fork(uint64(i) + 1)
		var t *c5mtype
		if i < len(fixed) {
			t = fixed[i]
			ctx.Count("fixed-edge-types")
		} else {
			t = c5genMember(mr)
		}
		c5runMember(ctx, mr, t)
	}
}
