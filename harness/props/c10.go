package props

// C10 - value conversion is exact or fails. Drives the real val.Conv / val.ConvOneOf with a source
// value of every Go kind against every modelled target format (a "row"), reads the result back
// through Value() by reflection into arbitrary-precision numbers and emits (source, observations);
// Coq (Check/C10Check.v) compares with the model Conv/Model.v and with the spec Conv/Spec.v.

import (
	"fmt"
	"math"
	"math/big"
	"reflect"
	"sort"
	"strings"

	"github.com/freeconf/yang/meta"
	"github.com/freeconf/yang/node"
	"github.com/freeconf/yang/parser"
	"github.com/freeconf/yang/val"

	"yvh/core"
	"yvh/emit"
	"yvh/gen"
)

func init() { Registry["C10"] = C10 }

// defined types: the type switches of val/conv.go do not match them, only the reflect fall-backs do
type (
	c10nI8  int8
	c10nI16 int16
	c10nI32 int32
	c10nI64 int64
	c10nInt int
	c10nU8  uint8
	c10nU16 uint16
	c10nU32 uint32
	c10nU64 uint64
	c10nUnt uint
	c10nF64 float64
	c10nStr string
	c10Strc struct{ A int }
)

type c10Scalar struct {
	goVal     interface{}
	term      string
	desc      string
	kind      string // histogram key
	strOracle bool   // fmt %v of it is not modelled (float32, nil, composite)
	isString  bool   // unnamed string: ParseFloat may be oracle territory
}

type c10Src struct {
	goVal   interface{}
	term    string
	desc    string
	kind    string
	elems   []c10Scalar
	isSlice bool
}

var c10Kinds = []string{"I8", "I16", "I32", "I64", "IInt", "U8", "U16", "U32", "U64", "UInt"}

func c10KindRange(k string) (*big.Int, *big.Int) {
	one := big.NewInt(1)
	w := map[string]uint{"I8": 8, "I16": 16, "I32": 32, "I64": 64, "IInt": 64, "U8": 8, "U16": 16, "U32": 32, "U64": 64, "UInt": 64}[k]
	if k[0] == 'I' {
		hi := new(big.Int).Lsh(one, w-1)
		return new(big.Int).Neg(hi), new(big.Int).Sub(hi, one)
	}
	return big.NewInt(0), new(big.Int).Sub(new(big.Int).Lsh(one, w), one)
}

// c10GoInt builds the Go value of kind k (named or not) holding z (z must be in range)
func c10GoInt(k string, named bool, z *big.Int) interface{} {
	i, u := z.Int64(), z.Uint64()
	if named {
		switch k {
		case "I8":
			return c10nI8(i)
		case "I16":
			return c10nI16(i)
		case "I32":
			return c10nI32(i)
		case "I64":
			return c10nI64(i)
		case "IInt":
			return c10nInt(i)
		case "U8":
			return c10nU8(u)
		case "U16":
			return c10nU16(u)
		case "U32":
			return c10nU32(u)
		case "U64":
			return c10nU64(u)
		case "UInt":
			return c10nUnt(u)
		}
	}
	switch k {
	case "I8":
		return int8(i)
	case "I16":
		return int16(i)
	case "I32":
		return int32(i)
	case "I64":
		return int64(i)
	case "IInt":
		return int(i)
	case "U8":
		return uint8(u)
	case "U16":
		return uint16(u)
	case "U32":
		return uint32(u)
	case "U64":
		return uint64(u)
	case "UInt":
		return uint(u)
	}
	panic("bad kind " + k)
}

func c10Int(k string, named bool, z *big.Int) c10Scalar {
	g := c10GoInt(k, named, z)
	return c10Scalar{goVal: g, term: emit.App("XInt", emit.Bool(named), k, emit.ZBig(z)),
		desc: fmt.Sprintf("%T(%s)", g, z.String()), kind: "int:" + k + map[bool]string{true: ":named", false: ""}[named]}
}

// exact decomposition of a float64 into the model's fl
func c10Fl(f float64) string {
	switch {
	case math.IsNaN(f):
		return "FNaN"
	case math.IsInf(f, 1):
		return "(FInf false)"
	case math.IsInf(f, -1):
		return "(FInf true)"
	case f == 0:
		if math.Signbit(f) {
			return "FNegZero"
		}
		return "(FFin 0 0)"
	}
	fr, exp := math.Frexp(f)
	m := int64(fr * (1 << 53))
	e := int64(exp - 53)
	for m%2 == 0 { // keep terms short
		m /= 2
		e++
	}
	return emit.App("FFin", emit.Z(m), emit.Z(e))
}

func c10F64(named bool, f float64) c10Scalar {
	var g interface{} = f
	if named {
		g = c10nF64(f)
	}
	return c10Scalar{goVal: g, term: emit.App("XF64", emit.Bool(named), c10Fl(f)), desc: fmt.Sprintf("%T(%v)", g, f), kind: "float64"}
}

func c10F32(f float32) c10Scalar {
	return c10Scalar{goVal: f, term: emit.App("XF32", c10Fl(float64(f))), desc: fmt.Sprintf("float32(%v)", f), kind: "float32", strOracle: true}
}

func c10Str(named bool, s string) c10Scalar {
	var g interface{} = s
	if named {
		g = c10nStr(s)
	}
	return c10Scalar{goVal: g, term: emit.App("XStr", emit.Bool(named), emit.Str(s)), desc: fmt.Sprintf("%T(%q)", g, s), kind: "string", isString: !named}
}

func c10Bool(b bool) c10Scalar {
	return c10Scalar{goVal: b, term: emit.App("XBool", emit.Bool(b)), desc: fmt.Sprintf("bool(%v)", b), kind: "bool"}
}

func c10Nil() c10Scalar {
	return c10Scalar{goVal: nil, term: "XNil", desc: "nil", kind: "nil", strOracle: true}
}

func c10Other(g interface{}) c10Scalar {
	return c10Scalar{goVal: g, term: "XOther", desc: fmt.Sprintf("%T(%v)", g, g), kind: "other", strOracle: true}
}

func c10ScalarSrc(x c10Scalar) c10Src {
	return c10Src{goVal: x.goVal, term: emit.App("SScalar", x.term), desc: x.desc, kind: x.kind, elems: []c10Scalar{x}}
}

// c10Slice builds a real Go slice. elemType nil: []interface{}.
func c10Slice(elemType reflect.Type, xs []c10Scalar) c10Src {
	var g interface{}
	ek := "EIface"
	if elemType == nil {
		l := make([]interface{}, len(xs))
		for i, x := range xs {
			l[i] = x.goVal
		}
		g = l
	} else {
		sl := reflect.MakeSlice(reflect.SliceOf(elemType), len(xs), len(xs))
		for i, x := range xs {
			sl.Index(i).Set(reflect.ValueOf(x.goVal))
		}
		g = sl.Interface()
		ek = "EOtherElem"
		if elemType.PkgPath() == "" {
			switch elemType.Kind() {
			case reflect.Int8:
				ek = "(EInt I8)"
			case reflect.Int16:
				ek = "(EInt I16)"
			case reflect.Int32:
				ek = "(EInt I32)"
			case reflect.Int64:
				ek = "(EInt I64)"
			case reflect.Int:
				ek = "(EInt IInt)"
			case reflect.Uint8:
				ek = "(EInt U8)"
			case reflect.Uint16:
				ek = "(EInt U16)"
			case reflect.Uint32:
				ek = "(EInt U32)"
			case reflect.Uint64:
				ek = "(EInt U64)"
			case reflect.Uint:
				ek = "(EInt UInt)"
			case reflect.Float64:
				ek = "EF64"
			case reflect.String:
				ek = "EStr"
			case reflect.Bool:
				ek = "EBool"
			}
		}
	}
	terms := make([]string, len(xs))
	descs := make([]string, len(xs))
	for i, x := range xs {
		terms[i] = x.term
		descs[i] = x.desc
	}
	return c10Src{goVal: g, term: emit.App("SSlice", ek, emit.List(terms)), desc: fmt.Sprintf("%T{%s}", g, strings.Join(descs, ", ")),
		kind: "slice:" + ek, elems: xs, isSlice: true}
}

// ---- targets ----------------------------------------------------------------------------------

type c10Target struct {
	f      val.Format
	name   string // Coq fmt constructor of the element format
	isList bool
}

func (t c10Target) term() string {
	if t.isList {
		return emit.App("TList", t.name)
	}
	return emit.App("TScalar", t.name)
}

var c10RowFmts = []struct {
	name   string
	scalar val.Format
	list   val.Format
}{
	{"FInt8", val.FmtInt8, val.FmtInt8List}, {"FInt16", val.FmtInt16, val.FmtInt16List},
	{"FInt32", val.FmtInt32, val.FmtInt32List}, {"FInt64", val.FmtInt64, val.FmtInt64List},
	{"FUInt8", val.FmtUInt8, val.FmtUInt8List}, {"FUInt16", val.FmtUInt16, val.FmtUInt16List},
	{"FUInt32", val.FmtUInt32, val.FmtUInt32List}, {"FUInt64", val.FmtUInt64, val.FmtUInt64List},
	{"FDecimal64", val.FmtDecimal64, val.FmtDecimal64List}, {"FBool", val.FmtBool, val.FmtBoolList},
	{"FString", val.FmtString, val.FmtStringList},
}

func c10RowTargets() []c10Target {
	var ts []c10Target
	for _, f := range c10RowFmts {
		ts = append(ts, c10Target{f.scalar, f.name, false})
	}
	for _, f := range c10RowFmts {
		ts = append(ts, c10Target{f.list, f.name, true})
	}
	return ts
}

func c10FmtName(f val.Format) (string, bool, bool) {
	for _, r := range c10RowFmts {
		if r.scalar == f {
			return r.name, false, true
		}
		if r.list == f {
			return r.name, true, true
		}
	}
	return "FBinary", false, false
}

// ---- observation ------------------------------------------------------------------------------

const c10Garbage = "(OV (RList FBinary []) None)" // never typed, never equal to a model answer

func c10Cval(name string, rv reflect.Value) (string, bool) {
	switch rv.Kind() {
	case reflect.Int, reflect.Int8, reflect.Int16, reflect.Int32, reflect.Int64:
		return emit.App("CInt", name, emit.Z(rv.Int())), true
	case reflect.Uint, reflect.Uint8, reflect.Uint16, reflect.Uint32, reflect.Uint64:
		return emit.App("CInt", name, emit.ZU(rv.Uint())), true
	case reflect.Float64, reflect.Float32:
		return emit.App("CDec", c10Fl(rv.Float())), true
	case reflect.String:
		return emit.App("CStr", emit.Str(rv.String())), true
	case reflect.Bool:
		return emit.App("CBool", emit.Bool(rv.Bool())), true
	case reflect.Interface:
		if !rv.IsNil() {
			return c10Cval(name, rv.Elem())
		}
	}
	return "", false
}

// c10Observe projects (value, error) to an `obs` term and a short human description
func c10Observe(v val.Value, err error, panicked bool) (string, string) {
	if panicked {
		return c10Garbage, "PANIC"
	}
	if err != nil {
		return "OErr", "error"
	}
	if v == nil {
		return "ONil", "nil,nil"
	}
	if e, isEnum := v.(val.Enum); isEnum {
		return emit.App("OEnum", emit.Z(int64(e.Id)), emit.Str(e.Label)), fmt.Sprintf("Enum{%d,%q}", e.Id, e.Label)
	}
	name, isList, ok := c10FmtName(v.Format())
	if !ok {
		return c10Garbage, fmt.Sprintf("value of unexpected format %v", v.Format())
	}
	rv := reflect.ValueOf(v.Value())
	if isList {
		if rv.Kind() != reflect.Slice {
			return c10Garbage, "list format without a slice value"
		}
		items := make([]string, rv.Len())
		for i := 0; i < rv.Len(); i++ {
			t, ok := c10Cval(name, rv.Index(i))
			if !ok {
				return c10Garbage, "unreadable list element"
			}
			items[i] = t
		}
		return emit.App("OV", emit.App("RList", name, emit.List(items)), "None"), fmt.Sprintf("%T %v", v.Value(), v.Value())
	}
	t, ok := c10Cval(name, rv)
	if !ok {
		return c10Garbage, "unreadable value"
	}
	str := "None"
	if name != "FDecimal64" {
		str = emit.Some(emit.Str(v.String()))
	}
	return emit.App("OV", emit.App("RScalar", t), str), fmt.Sprintf("%T %v String()=%q", v.Value(), v.Value(), v.String())
}

func c10Conv(f val.Format, x interface{}) (v val.Value, err error, panicked bool) {
	defer func() {
		if r := recover(); r != nil {
			panicked = true
		}
	}()
	v, err = val.Conv(f, x)
	return
}

// may this cell lie in un-modelled (oracle) territory?  Must be a superset of the model's
// Unmodelled region; Coq flags an Unmodelled answer outside it.
func c10May(t c10Target, s c10Src) bool {
	switch t.name {
	case "FDecimal64":
		for _, x := range s.elems {
			if x.isString {
				return true
			}
		}
	case "FString":
		if s.isSlice && !t.isList {
			return true
		}
		for _, x := range s.elems {
			if x.strOracle {
				return true
			}
		}
	}
	return false
}

func c10Cell(t c10Target, s c10Src) (string, string) {
	v, err, p := c10Conv(t.f, s.goVal)
	o, d := c10Observe(v, err, p)
	if c10May(t, s) {
		o = emit.App("OMay", o)
	}
	return o, d
}

func c10MayKey(b bool) string {
	if b {
		return "cell:oracle-permitted"
	}
	return "cell:modelled"
}

func c10Row(ctx *core.Ctx, s c10Src, idx int) {
	ts := c10RowTargets()
	if ctx.Explode >= 0 {
		if ctx.Explode != idx {
			return
		}
		for _, t := range ts {
			o, d := c10Cell(t, s)
			ctx.Add(emit.App("COne", t.term(), s.term, o),
				map[string]interface{}{"kind": "conv", "call": fmt.Sprintf("val.Conv(%v, %s)", t.f, s.desc), "observed": d}, true)
		}
		return
	}
	obs := make([]string, len(ts))
	oks := 0
	for i, t := range ts {
		o, d := c10Cell(t, s)
		obs[i] = o
		ctx.Count(c10MayKey(c10May(t, s)))
		cls := "err"
		if d != "error" {
			cls = "ok"
			oks++
		}
		ctx.Hist["cell:"+t.name+map[bool]string{true: "-list", false: ""}[t.isList]+":"+cls]++
	}
	ctx.Count("source:" + s.kind)
	ctx.Add(emit.App("CRow", s.term, emit.List(obs)),
		map[string]interface{}{"kind": "table", "source": s.desc, "targets": len(ts), "converted": oks}, s.kind != "nil" && s.kind != "other")
}

// ---- generators -------------------------------------------------------------------------------

func c10BoundaryInts(r *gen.Rng, extra int) []*big.Int {
	set := map[string]*big.Int{}
	add := func(z *big.Int) { set[z.String()] = z }
	for _, x := range []int64{-3, -2, -1, 0, 1, 2, 3, 9, 10, 99, 100} {
		add(big.NewInt(x))
	}
	one := big.NewInt(1)
	for _, p := range []uint{7, 8, 15, 16, 31, 32, 53, 63, 64} {
		pw := new(big.Int).Lsh(one, p)
		for _, d := range []int64{-2, -1, 0, 1, 2} {
			add(new(big.Int).Add(pw, big.NewInt(d)))
			add(new(big.Int).Add(new(big.Int).Neg(pw), big.NewInt(d)))
		}
	}
	for i := 0; i < extra; i++ {
		z := new(big.Int).SetUint64(r.U64())
		z.Rsh(z, uint(r.Intn(64)))
		if r.Bool() {
			z.Neg(z)
		}
		add(z)
	}
	var out []*big.Int
	for _, z := range set {
		out = append(out, z)
	}
	sort.Slice(out, func(i, j int) bool { return out[i].Cmp(out[j]) < 0 })
	return out
}

func c10Floats(r *gen.Rng, extra int) []float64 {
	fs := []float64{0, math.Copysign(0, -1), 0.5, -0.5, 1, -1, 1.5, -1.5, 2.5, 3.5, 3.7, -3.7, 0.1, 0.25, -0.75, 1e-300, 5e-324,
		99, 1e15, 1e15 + 0.5, 1e21, 1e22, 1e23, 1e30, -1e30, math.MaxFloat64, -math.MaxFloat64, math.NaN(), math.Inf(1), math.Inf(-1),
		math.Nextafter(1, 2), 4503599627370497.5}
	for _, p := range []uint{7, 8, 15, 16, 31, 32, 53, 63, 64} {
		b := math.Ldexp(1, int(p))
		for _, d := range []float64{-1, -0.5, 0, 0.5, 1} {
			fs = append(fs, b+d, -b+d)
		}
		fs = append(fs, math.Nextafter(b, 0), math.Nextafter(b, math.Inf(1)), math.Nextafter(-b, 0), math.Nextafter(-b, math.Inf(-1)))
	}
	for i := 0; i < extra; i++ {
		switch r.Intn(3) {
		case 0:
			fs = append(fs, math.Float64frombits(r.U64()))
		case 1: // integral, any magnitude up to 2^70
			fs = append(fs, math.Trunc(math.Ldexp(float64(r.U64()>>11)/(1<<53), r.Intn(70)))*float64(1-2*r.Intn(2)))
		default: // k/2^j near an integer boundary
			fs = append(fs, float64(int64(r.U64()>>uint(20+r.Intn(40))))/float64(int64(1)<<uint(r.Intn(4)))*float64(1-2*r.Intn(2)))
		}
	}
	seen := map[uint64]bool{}
	var out []float64
	for _, f := range fs {
		b := math.Float64bits(f)
		if math.IsNaN(f) {
			b = 0x7ff8000000000001
		}
		if !seen[b] {
			seen[b] = true
			out = append(out, f)
		}
	}
	return out
}

func c10Strings(ints []*big.Int, r *gen.Rng, extra int) []string {
	ss := []string{"", " ", "-", "+", ".", "+.", "-.", "--1", "+-1", "1-", "+5", "-5", " 5", "5 ", "\t5", "5\n", "007", "-007", "+007", "-0", "+0", "00",
		"0x10", "0X10", "0b1", "0o7", "1_0", "1_000", "1e3", "1E3", "1e-2", "0x1p-2", "1.0", "1.5", "-1.5", ".5", "5.", "-.5", "+.5", "0.25", "-1.25", "3.75",
		"0.1", "0.3", "123.456", "1.0000000000000001", "9007199254740993", "9007199254740993.0", "1.2.3", "1..2", "1.5.", "127.0", "128.0", "255.5",
		"18446744073709551615.0", "NaN", "nan", "Inf", "+Inf", "-Inf", "inf", "infinity", "Infinity", "-infinity",
		"true", "false", "1", "0", "yes", "no", "np", "TRUE", "True", "False", "y", "n", "on", "off", "abc", "a", "١٢", "1\x00", "\x001", "१", "5€", "1,5", "1 000",
		"000000000000000000000000000000127", "-000000000000000000000128", "99999999999999999999999999", "-99999999999999999999999999",
		"0.500", "2.50", "-0.0", "0.0", "-0.000", "0.125", "4294967296.5", "0.0000000000000000000000000000000000001", "1e400", "-1e400"}
	for _, z := range ints {
		ss = append(ss, z.String())
		if z.Sign() >= 0 && r.Chance(1, 4) {
			ss = append(ss, "+"+z.String())
		}
		if r.Chance(1, 6) {
			ss = append(ss, z.String()+".0")
		}
		if r.Chance(1, 8) {
			ss = append(ss, z.String()+".5")
		}
	}
	alphabet := []string{"0", "1", "2", "5", "9", "-", "+", ".", " ", "e", "x", "_", "a", "7", "8", "3"}
	for i := 0; i < extra; i++ {
		ss = append(ss, randText(r, alphabet, 8))
	}
	seen := map[string]bool{}
	var out []string
	for _, s := range ss {
		if !seen[s] {
			seen[s] = true
			out = append(out, s)
		}
	}
	return out
}

func c10InRange(k string, z *big.Int) bool {
	lo, hi := c10KindRange(k)
	return z.Cmp(lo) >= 0 && z.Cmp(hi) <= 0
}

// C10 is the harness entry point
func C10(ctx *core.Ctx) error {
	ctx.Imports = "Val.Model Conv.Model Conv.Spec Conv.Front Check.C10Check"
	ctx.ShardMax = 150000 // more, smaller shards: they are classified in parallel
	ctx.Rule = "row = one Go source value converted by the real val.Conv to each of the 22 modelled targets (8 integer widths, decimal64, boolean, string and their list forms); sources: every integer kind (10 kinds, plain and defined types) at the boundary set {type min/max, +-2 around 0, 2^7, 2^8, 2^15, 2^16, 2^31, 2^32, 2^53, 2^63, 2^64 and +-1, +-2} cut to the kind's range plus random values, float64/float32 incl. -0, +-0.5 around each boundary, NaN, +-Inf, the decimal/hex/underscore/sign/space spellings of every boundary integer, booleans, nil, a struct; slices: every typed slice, []interface{} mixes, empty slices; oneof = val.ConvOneOf over random format lists. Observation = error | nil | Value() read back by reflection (exact) + String(). non-trivial = source is not nil/struct; distinct by SHA-256 of the term"
	r := gen.New(ctx.Seed)
	extra := ctx.Scale(12, 300)
	if ctx.Tier == "search" {
		extra = 60
	}
	idx := 0
	var pool []c10Src // for slices of mixed content and ConvOneOf
	row := func(s c10Src) {
		c10Row(ctx, s, idx)
		idx++
		pool = append(pool, s)
	}
	ints := c10BoundaryInts(r.Fork(1), extra)
	// integers of every kind
	var scalars []c10Scalar
	for _, k := range c10Kinds {
		for _, z := range ints {
			if c10InRange(k, z) {
				scalars = append(scalars, c10Int(k, false, z))
			}
		}
		lo, hi := c10KindRange(k)
		for _, z := range []*big.Int{lo, hi, big.NewInt(0), big.NewInt(1), big.NewInt(100), big.NewInt(-1), big.NewInt(-100), big.NewInt(200), big.NewInt(300)} {
			if c10InRange(k, z) {
				scalars = append(scalars, c10Int(k, true, z))
			}
		}
	}
	for _, f := range c10Floats(r.Fork(2), extra) {
		scalars = append(scalars, c10F64(false, f))
	}
	for _, f := range []float64{0, 3, 3.5, -1, 300, math.NaN()} {
		scalars = append(scalars, c10F64(true, f))
	}
	for _, f := range []float32{0, float32(math.Copysign(0, -1)), 0.5, 1.5, 3, -3, 3.7, 127, 128, 255, 256, 16777216, 2147483648, 4294967296,
		9223372036854775808, 18446744073709551616, -9223372036854775808, 1e30, float32(math.NaN()), float32(math.Inf(1)), float32(math.Inf(-1))} {
		scalars = append(scalars, c10F32(f))
	}
	strs := c10Strings(ints, r.Fork(3), extra)
	for _, s := range strs {
		scalars = append(scalars, c10Str(false, s))
	}
	scalars = append(scalars, c10Str(true, "5"), c10Str(true, "true"), c10Str(true, ""), c10Bool(true), c10Bool(false), c10Nil(),
		c10Other(c10Strc{1}), c10Other(map[string]int{"a": 1}), c10Other(&c10Strc{2}))
	for _, x := range scalars {
		row(c10ScalarSrc(x))
	}
	ctx.Extra["scalar_sources"] = len(scalars)

	// slices
	sr := r.Fork(4)
	byKind := map[string][]c10Scalar{}
	for _, x := range scalars {
		byKind[x.kind] = append(byKind[x.kind], x)
	}
	pickN := func(xs []c10Scalar, n int) []c10Scalar {
		out := make([]c10Scalar, n)
		for i := range out {
			out[i] = gen.Pick(sr, xs)
		}
		return out
	}
	typed := []struct {
		kind string
		t    reflect.Type
	}{
		{"int:I8", reflect.TypeOf(int8(0))}, {"int:I16", reflect.TypeOf(int16(0))}, {"int:I32", reflect.TypeOf(int32(0))},
		{"int:I64", reflect.TypeOf(int64(0))}, {"int:IInt", reflect.TypeOf(int(0))}, {"int:U8", reflect.TypeOf(uint8(0))},
		{"int:U16", reflect.TypeOf(uint16(0))}, {"int:U32", reflect.TypeOf(uint32(0))}, {"int:U64", reflect.TypeOf(uint64(0))},
		{"int:UInt", reflect.TypeOf(uint(0))}, {"float32", reflect.TypeOf(float32(0))}, {"bool", reflect.TypeOf(true)},
		{"int:I16:named", reflect.TypeOf(c10nI16(0))}, {"int:U32:named", reflect.TypeOf(c10nU32(0))},
	}
	reps := ctx.Scale(3, 40)
	for _, ty := range typed {
		xs := byKind[ty.kind]
		row(c10Slice(ty.t, nil))
		row(c10Slice(ty.t, []c10Scalar{xs[0], xs[len(xs)-1]})) // min and max of the kind (sorted boundary set) or first/last
		for i := 0; i < reps; i++ {
			row(c10Slice(ty.t, pickN(xs, 1+sr.Intn(4))))
		}
	}
	// []float64 and []string need the unnamed members only
	var f64s, sts, ifs []c10Scalar
	for _, x := range scalars {
		if x.kind == "float64" {
			if _, ok := x.goVal.(float64); ok {
				f64s = append(f64s, x)
			}
		}
		if x.isString {
			sts = append(sts, x)
		}
		ifs = append(ifs, x)
	}
	row(c10Slice(reflect.TypeOf(float64(0)), nil))
	row(c10Slice(reflect.TypeOf(""), nil))
	row(c10Slice(nil, nil))
	for i := 0; i < ctx.Scale(25, 800); i++ {
		row(c10Slice(reflect.TypeOf(float64(0)), pickN(f64s, 1+sr.Intn(4))))
		row(c10Slice(reflect.TypeOf(""), pickN(sts, 1+sr.Intn(4))))
	}
	// well-formed numeric string lists (so that list conversions succeed often)
	var numStrs []c10Scalar
	for _, x := range sts {
		s := x.goVal.(string)
		if _, ok := new(big.Int).SetString(s, 10); ok && len(s) > 0 && len(s) < 6 && s[0] != '+' {
			numStrs = append(numStrs, x)
		}
	}
	var smallInts []c10Scalar
	for _, x := range scalars {
		if strings.HasPrefix(x.kind, "int:") {
			if rv := reflect.ValueOf(x.goVal); (rv.CanInt() && rv.Int() >= 0 && rv.Int() < 128) || (rv.CanUint() && rv.Uint() < 128) {
				smallInts = append(smallInts, x)
			}
		}
	}
	for i := 0; i < ctx.Scale(18, 600); i++ {
		row(c10Slice(reflect.TypeOf(""), pickN(numStrs, 1+sr.Intn(4))))
		row(c10Slice(nil, pickN(smallInts, 1+sr.Intn(4))))
		mix := pickN(smallInts, 1+sr.Intn(3))
		mix = append(mix, gen.Pick(sr, ifs))
		sr2 := sr.Intn(len(mix))
		mix[sr2], mix[len(mix)-1] = mix[len(mix)-1], mix[sr2]
		row(c10Slice(nil, mix))
		row(c10Slice(nil, pickN(ifs, 1+sr.Intn(4))))
	}
	row(c10Slice(reflect.TypeOf([]int{}), []c10Scalar{c10Other([]int{1, 2})}))
	ctx.Extra["rows"] = idx
	ctx.Extra["cells"] = idx * 22

	// ConvOneOf
	if ctx.Explode < 0 {
		or := r.Fork(5)
		ts := c10RowTargets()
		n := ctx.Scale(200, 6000)
		for i := 0; i < n; i++ {
			k := 1 + or.Intn(4)
			perm := make([]int, len(ts))
			for j := range perm {
				perm[j] = j
			}
			var sel []c10Target
			for j := 0; j < k; j++ {
				p := j + or.Intn(len(perm)-j)
				perm[j], perm[p] = perm[p], perm[j]
				sel = append(sel, ts[perm[j]])
			}
			s := gen.Pick(or, pool)
			fs := make([]val.Format, k)
			terms := make([]string, k)
			names := make([]string, k)
			may := false
			for j, t := range sel {
				fs[j], terms[j], names[j] = t.f, t.term(), t.f.String()
				may = may || c10May(t, s)
			}
			var v val.Value
			var f val.Format
			var err error
			panicked := false
			func() {
				defer func() {
					if recover() != nil {
						panicked = true
					}
				}()
				v, f, err = val.ConvOneOf(fs, s.goVal)
			}()
			o, d := c10Observe(v, err, panicked)
			if may {
				o = emit.App("OMay", o)
			}
			picked := -1
			if err == nil && !panicked {
				for j := range fs {
					if fs[j] == f {
						picked = j
						break
					}
				}
			}
			first := -1
			for j := range fs {
				if _, e, p := c10Conv(fs[j], s.goVal); e == nil && !p {
					first = j
					break
				}
			}
			ctx.Add(emit.App("COneOf", emit.List(terms), s.term, o, emit.Z(int64(picked)), emit.Z(int64(first))),
				map[string]interface{}{"kind": "oneof", "call": fmt.Sprintf("val.ConvOneOf([%s], %s)", strings.Join(names, " "), s.desc), "observed": d, "picked": picked, "first_format_val.Conv_accepts": first}, true)
			ctx.Count(fmt.Sprintf("oneof:picked%d", picked))
		}
	}
	if ctx.Explode < 0 {
		if err := c10Front(ctx, r.Fork(6), pool, strs); err != nil {
			return err
		}
	}
	return nil
}

// ---- node.NewValue / NewValuesByString ---------------------------------------------------------

const c10Yang = `module c10 { namespace "urn:c10"; prefix "c"; revision 0;
 leaf i8 { type int8; } leaf i16 { type int16; } leaf i32 { type int32; } leaf i64 { type int64; }
 leaf u8 { type uint8; } leaf u16 { type uint16; } leaf u32 { type uint32; } leaf u64 { type uint64; }
 leaf dec { type decimal64 { fraction-digits 2; } } leaf b { type boolean; } leaf s { type string; }
 leaf-list li8 { type int8; } leaf-list li16 { type int16; } leaf-list li32 { type int32; } leaf-list li64 { type int64; }
 leaf-list lu8 { type uint8; } leaf-list lu16 { type uint16; } leaf-list lu32 { type uint32; } leaf-list lu64 { type uint64; }
 leaf-list ldec { type decimal64 { fraction-digits 2; } } leaf-list lb { type boolean; } leaf-list ls { type string; }
 leaf e { type enumeration { enum a; enum b { value 5; } enum "7"; enum neg { value 3; } enum "4"; enum "1099511627776"; enum big { value 2147483647; } } }
 leaf u1 { type union { type int8; type string; } }
 leaf u2 { type union { type uint8; type int32; type boolean; } }
 leaf u3 { type union { type boolean; type decimal64 { fraction-digits 1; } type string; } }
 leaf u4 { type union { type uint64; type int64; } }
 leaf u5 { type union { type int16; type uint16; } }
 leaf r16 { type leafref { path "../i16"; } }
 leaf ru2 { type leafref { path "../u2"; } }
 leaf rr { type leafref { path "../r16"; } }
}`

type c10Leaf struct {
	name    string
	leaf    meta.Leafable
	term    string      // ntype
	targets []c10Target // the plain targets involved (for the oracle permission)
	isEnum  bool
}

func c10TypeTerm(t *meta.Type, depth int) (string, []c10Target, bool, error) {
	if depth > 5 {
		return "", nil, false, fmt.Errorf("leafref chain too deep")
	}
	switch t.Format() {
	case val.FmtLeafRef, val.FmtLeafRefList:
		inner, ts, e, err := c10TypeTerm(t.Resolve(), depth+1)
		return emit.App("NLeafRef", inner), ts, e, err
	case val.FmtUnion:
		var terms []string
		var ts []c10Target
		for _, f := range t.UnionFormats() {
			name, isList, ok := c10FmtName(f)
			if !ok {
				return "", nil, false, fmt.Errorf("union member %v is not modelled", f)
			}
			tg := c10Target{f, name, isList}
			terms = append(terms, tg.term())
			ts = append(ts, tg)
		}
		return emit.App("NUnion", emit.List(terms)), ts, false, nil
	case val.FmtEnum:
		var es []string
		for _, e := range t.Enum() {
			es = append(es, emit.Pair(emit.Z(int64(e.Id)), emit.Str(e.Label)))
		}
		return emit.App("NEnum", emit.List(es)), nil, true, nil
	}
	name, isList, ok := c10FmtName(t.Format())
	if !ok {
		return "", nil, false, fmt.Errorf("format %v is not modelled", t.Format())
	}
	tg := c10Target{t.Format(), name, isList}
	return emit.App("NPlain", tg.term()), []c10Target{tg}, false, nil
}

func c10LeafMay(l c10Leaf, s c10Src) bool {
	if l.isEnum {
		if s.isSlice {
			return true
		}
		for _, x := range s.elems {
			if x.strOracle {
				return true
			}
		}
		return false
	}
	for _, t := range l.targets {
		if c10May(t, s) {
			return true
		}
	}
	return false
}

func c10NewValue(t *meta.Type, x interface{}) (v val.Value, err error, panicked bool) {
	defer func() {
		if r := recover(); r != nil {
			panicked = true
		}
	}()
	v, err = node.NewValue(t, x)
	return
}

func c10Front(ctx *core.Ctx, r *gen.Rng, pool []c10Src, strs []string) error {
	m, err := parser.LoadModuleFromString(nil, c10Yang)
	if err != nil {
		return fmt.Errorf("c10 yang: %v", err)
	}
	var leaves, plain []c10Leaf
	var enumLeaf c10Leaf
	for _, d := range m.DataDefinitions() {
		lf, ok := d.(meta.Leafable)
		if !ok {
			continue
		}
		term, ts, isEnum, err := c10TypeTerm(lf.Type(), 0)
		if err != nil {
			return fmt.Errorf("leaf %s: %v", d.Ident(), err)
		}
		l := c10Leaf{d.Ident(), lf, term, ts, isEnum}
		leaves = append(leaves, l)
		if isEnum {
			enumLeaf = l
		} else if !strings.HasPrefix(term, "(NUnion") {
			plain = append(plain, l)
		}
	}
	if enumLeaf.leaf == nil || len(leaves) < 30 {
		return fmt.Errorf("c10 yang: expected leaves missing (%d)", len(leaves))
	}
	one := func(l c10Leaf, s c10Src) {
		v, err, p := c10NewValue(l.leaf.Type(), s.goVal)
		o, d := c10Observe(v, err, p)
		if c10LeafMay(l, s) {
			o = emit.App("OMay", o)
		}
		ctx.Add(emit.App("CNew", l.term, s.term, o),
			map[string]interface{}{"kind": "newvalue", "call": fmt.Sprintf("node.NewValue(type of leaf %s, %s)", l.name, s.desc), "observed": d}, true)
		ctx.Count("newvalue:" + l.name)
	}
	// the enumeration against ids, labels, numerals, fractions
	big40 := new(big.Int).Lsh(big.NewInt(1), 40)
	enumSrc := []c10Scalar{c10Int("IInt", false, big.NewInt(0)), c10Int("IInt", false, big.NewInt(5)), c10Int("I8", false, big.NewInt(6)),
		c10Int("I64", false, big.NewInt(-3)), c10Int("U8", false, big.NewInt(7)), c10Int("IInt", false, big.NewInt(2147483647)),
		c10Int("IInt", false, big.NewInt(1)), c10Int("I64", false, big.NewInt(2147483648)), c10Int("U64", false, big.NewInt(4294967296)),
		c10Int("I64", false, big40), c10Int("I64", false, big.NewInt(-2147483649)), c10Int("U32", true, big.NewInt(5)),
		c10Str(false, "a"), c10Str(false, "b"), c10Str(false, "7"), c10Str(false, "4"), c10Str(false, "neg"), c10Str(false, "big"), c10Str(false, "5"),
		c10Str(false, "-3"), c10Str(false, "zz"), c10Str(false, ""), c10Str(false, "A"), c10Str(false, "1099511627776"), c10Str(false, "6"), c10Str(false, "+5"),
		c10Str(false, "05"), c10Str(false, " a"), c10Str(true, "a"), c10Str(true, "5"),
		c10F64(false, 5), c10F64(false, 4.3), c10F64(false, 3.7), c10F64(false, -3), c10F64(false, 0.2), c10F64(false, 6.5), c10F64(false, 1099511627776),
		c10F64(false, math.NaN()), c10F32(5), c10Bool(true), c10Nil(), c10Other(c10Strc{1})}
	for _, x := range enumSrc {
		one(enumLeaf, c10ScalarSrc(x))
	}
	n := ctx.Scale(400, 12000)
	if ctx.Tier == "search" {
		n = 3000
	}
	for i := 0; i < n; i++ {
		one(gen.Pick(r, leaves), gen.Pick(r, pool))
	}
	// NewValuesByString over plain (and leafref) leaves
	goodStrs := []string{"0", "1", "-1", "127", "128", "255", "256", "-128", "-129", "65535", "65536", "true", "false", "1.5", "0.25", "abc", "",
		"2147483647", "2147483648", "4294967295", "4294967296", "9223372036854775807", "9223372036854775808", "18446744073709551615", "18446744073709551616", "+1", " 1", "yes", "no"}
	nm := ctx.Scale(120, 3000)
	for i := 0; i < nm; i++ {
		k := 1 + r.Intn(4)
		ls := make([]meta.Leafable, k)
		tys := make([]string, k)
		names := make([]string, k)
		may := false
		for j := 0; j < k; j++ {
			l := gen.Pick(r, plain)
			ls[j], tys[j], names[j] = l.leaf, l.term, l.name
			if l.targets[0].name == "FDecimal64" {
				may = true
			}
		}
		ns := k - r.Intn(2)*r.Intn(2) // sometimes one string fewer than leaves
		ss := make([]string, ns)
		sterms := make([]string, ns)
		for j := range ss {
			if r.Chance(3, 4) {
				ss[j] = gen.Pick(r, goodStrs)
			} else {
				ss[j] = gen.Pick(r, strs)
			}
			sterms[j] = emit.Str(ss[j])
		}
		var vals []val.Value
		var err error
		panicked := false
		func() {
			defer func() {
				if recover() != nil {
					panicked = true
				}
			}()
			vals, err = node.NewValuesByString(ls, ss...)
		}()
		os := "None"
		d := "error"
		if panicked {
			os, d = emit.Some(emit.List([]string{c10Garbage})), "PANIC"
		} else if err == nil {
			var items, ds []string
			for j := 0; j < ns && j < len(vals); j++ {
				o, dd := c10Observe(vals[j], nil, false)
				items = append(items, o)
				ds = append(ds, dd)
			}
			os, d = emit.Some(emit.List(items)), strings.Join(ds, "; ")
		}
		ctx.Add(emit.App("CNewStrs", emit.List(tys), emit.List(sterms), os, emit.Bool(may)),
			map[string]interface{}{"kind": "newvaluesbystring", "leaves": names, "strings": ss, "observed": d}, true)
		ctx.Count(fmt.Sprintf("bystring:len%d", k))
	}
	return nil
}
