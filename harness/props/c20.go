package props

import (
	"bytes"
	"context"
	"encoding/json"
	"fmt"
	"os"
	"os/exec"
	"path/filepath"
	"regexp"
	"strings"
	"sync"
	"time"

	"yvh/core"
	"yvh/emit"
	"yvh/gen"
)

func init() { Registry["C20"] = C20 }

// C20: dynamic side. Builds harness/race with `go build -race` against the tree under test (the
// same module file bin/check generated for this harness) and runs it once per scenario
// G in {2,4,16} x GOMAXPROCS in {1,4,16} (x repetitions with different plans). Each run reports
// the race detector's findings (stderr) and, per goroutine, the digests of every operation's result
// alone and concurrently. Coq (Check/C20Check.v) classifies.

type c20Op struct {
	Kind string `json:"kind"`
	Arg  string `json:"arg"`
	N    int    `json:"n"`
}

type c20Out struct {
	Seq    [][]uint64     `json:"seq"`
	Conc   [][]uint64     `json:"conc"`
	Plans  [][]c20Op      `json:"plans"`
	Texts  [][]string     `json:"texts"`
	CTexts [][]string     `json:"ctexts"`
	Err    string         `json:"err"`
	Kinds  map[string]int `json:"kinds"`
}

type c20Run struct {
	scen, g, p int
	seed       uint64
	iters      int
	out        c20Out
	parsed     bool
	stderr     string
	rc         int
	timedOut   bool
	races      []string
}

var c20RaceSite = regexp.MustCompile(`(?m)^\s+(\S+:\d+) \+0x`)

// summarise one "WARNING: DATA RACE" block: the kind of each access and its innermost frames
func c20RaceSummary(block string) string {
	var parts []string
	lines := strings.Split(block, "\n")
	for i := 0; i < len(lines); i++ {
		l := strings.TrimSpace(lines[i])
		if strings.HasPrefix(l, "Write at") || strings.HasPrefix(l, "Read at") || strings.HasPrefix(l, "Previous write at") ||
			strings.HasPrefix(l, "Previous read at") || strings.HasPrefix(l, "Atomic") || strings.HasPrefix(l, "Previous atomic") {
			kind := l
			if k := strings.Index(l, " at "); k > 0 {
				kind = l[:k]
			}
			var frames []string
			for j := i + 1; j+1 < len(lines) && len(frames) < 3; j += 2 {
				fn := strings.TrimSpace(lines[j])
				if fn == "" {
					break
				}
				site := ""
				if m := c20RaceSite.FindStringSubmatch(lines[j+1]); m != nil {
					site = m[1]
				}
				if k := strings.LastIndex(fn, "("); k > 0 && strings.HasSuffix(fn, ")") {
					fn = fn[:k]
				}
				frames = append(frames, fn+" "+filepath.Base(filepath.Dir(site))+"/"+filepath.Base(site))
			}
			parts = append(parts, kind+": "+strings.Join(frames, " <- "))
		}
	}
	return strings.Join(parts, " || ")
}

func c20Build(root, out string) error {
	hdir := filepath.Join(root, "harness")
	modfile := filepath.Join(root, ".work", "go.mod")
	cmd := exec.Command("go", "build", "-race", "-modfile", modfile, "-tags", "verif", "-o", out, "./race")
	cmd.Dir = hdir
	cmd.Env = append(os.Environ(), "CGO_ENABLED=1")
	b, err := cmd.CombinedOutput()
	if err != nil {
		return fmt.Errorf("go build -race ./race: %v\n%s", err, b)
	}
	return nil
}

func c20Exec(bin string, r *c20Run) {
	ctx, cancel := context.WithTimeout(context.Background(), 180*time.Second)
	defer cancel()
	cmd := exec.CommandContext(ctx, bin, "-seed", fmt.Sprint(r.seed), "-g", fmt.Sprint(r.g), "-p", fmt.Sprint(r.p),
		"-iters", fmt.Sprint(r.iters), "-v")
	cmd.Env = append(os.Environ(), "GORACE=atexit_sleep_ms=0 halt_on_error=0 history_size=3")
	var so, se bytes.Buffer
	cmd.Stdout, cmd.Stderr = &so, &se
	err := cmd.Run()
	r.stderr = se.String()
	if ctx.Err() != nil {
		r.timedOut = true
	}
	if err != nil {
		if ee, ok := err.(*exec.ExitError); ok {
			r.rc = ee.ExitCode()
		} else {
			r.rc = -1
		}
	}
	if json.Unmarshal(so.Bytes(), &r.out) == nil && r.out.Err == "" && len(r.out.Seq) == r.g && len(r.out.Conc) == r.g {
		r.parsed = true
	}
	for _, blk := range strings.Split(r.stderr, "==================") {
		if strings.Contains(blk, "WARNING: DATA RACE") {
			r.races = append(r.races, c20RaceSummary(blk))
		}
	}
}

func C20(ctx *core.Ctx) error {
	ctx.Imports = "Check.C20Check"
	ctx.Rule = "every case is non-trivial: a CRaces case is one execution of the -race build with G goroutines on GOMAXPROCS P " +
		"(module loads and export/upsert/Find/Constrain/JSON/XML/schema/delete on separate browsers over shared modules); " +
		"a CResult case is one goroutine's vector of result digests (alone vs concurrent), at least 8 operations long"
	root := os.Getenv("YVH_ROOT")
	if root == "" {
		return fmt.Errorf("YVH_ROOT not set")
	}
	bindir := filepath.Join(root, ".work", "C20bin")
	if err := os.MkdirAll(bindir, 0o755); err != nil {
		return err
	}
	bin := filepath.Join(bindir, "racer")
	t0 := time.Now()
	if err := c20Build(root, bin); err != nil {
		return err
	}
	ctx.Extra["race_build_s"] = time.Since(t0).Seconds()

	reps, iters := 1, 14
	switch ctx.Tier {
	case "thorough":
		reps, iters = 8, 30
	case "search":
		reps, iters = 6, 20
	}
	r := gen.New(ctx.Seed).Fork(20)
	var runs []*c20Run
	scen := 0
	for rep := 0; rep < reps; rep++ {
		for _, g := range []int{2, 4, 16} {
			for _, p := range []int{1, 4, 16} {
				runs = append(runs, &c20Run{scen: scen, g: g, p: p, seed: r.U64() >> 1, iters: iters})
				scen++
			}
		}
	}
	// a few executions at a time: the scenarios themselves set GOMAXPROCS
	sem := make(chan struct{}, 3)
	var wg sync.WaitGroup
	for _, ru := range runs {
		wg.Add(1)
		go func(ru *c20Run) {
			defer wg.Done()
			sem <- struct{}{}
			c20Exec(bin, ru)
			<-sem
		}(ru)
	}
	wg.Wait()
	ctx.Extra["race_runs_s"] = time.Since(t0).Seconds()

	totalOps := 0
	for _, ru := range runs {
		crashed := !ru.parsed || ru.timedOut || (ru.rc != 0 && ru.rc != 66)
		desc := map[string]interface{}{
			"kind": "race-run", "scenario": ru.scen, "goroutines": ru.g, "gomaxprocs": ru.p, "racer_seed": ru.seed, "iters": ru.iters,
			"race_reports": len(ru.races), "exit_code": ru.rc, "crashed": crashed,
			"rerun": fmt.Sprintf("GORACE=halt_on_error=0 .work/C20bin/racer -seed %d -g %d -p %d -iters %d -v", ru.seed, ru.g, ru.p, ru.iters),
		}
		if len(ru.races) > 0 {
			n := len(ru.races)
			if n > 4 {
				n = 4
			}
			desc["races"] = ru.races[:n]
		}
		if crashed {
			tail := ru.stderr
			if len(tail) > 1500 {
				tail = tail[len(tail)-1500:]
			}
			desc["stderr_tail"] = tail
			if ru.out.Err != "" {
				desc["setup_error"] = ru.out.Err
			}
		}
		ctx.Add(emit.App("CRaces", emit.Nat(ru.scen), emit.Nat(ru.g), emit.Nat(ru.p), emit.Z(int64(len(ru.races))), emit.Bool(crashed)), desc, true)
		ctx.Count(fmt.Sprintf("scenario:g%d-p%d", ru.g, ru.p))
		if len(ru.races) > 0 {
			ctx.Count("runs-with-race-reports")
		}
		if !ru.parsed {
			continue
		}
		for k, n := range ru.out.Kinds {
			ctx.Hist["op:"+k] += n
			totalOps += n
		}
		for gid := 0; gid < ru.g; gid++ {
			seq, conc := ru.out.Seq[gid], ru.out.Conc[gid]
			st := make([]string, len(seq))
			for i, d := range seq {
				st[i] = emit.ZU(d)
			}
			ct := make([]string, len(conc))
			for i, d := range conc {
				ct[i] = emit.ZU(d)
			}
			d := map[string]interface{}{"kind": "goroutine-result", "scenario": ru.scen, "goroutines": ru.g, "gomaxprocs": ru.p,
				"goroutine": gid, "racer_seed": ru.seed, "operations": len(seq)}
			for i := range seq {
				if i >= len(conc) || seq[i] != conc[i] {
					d["first_difference_at"] = i
					if i > 0 && gid < len(ru.out.Plans) && i-1 < len(ru.out.Plans[gid]) {
						d["operation"] = ru.out.Plans[gid][i-1]
					}
					if gid < len(ru.out.Texts) && i < len(ru.out.Texts[gid]) {
						d["alone"] = ru.out.Texts[gid][i]
					}
					if gid < len(ru.out.CTexts) && i < len(ru.out.CTexts[gid]) {
						d["concurrent"] = ru.out.CTexts[gid][i]
					}
					break
				}
			}
			ctx.Add(emit.App("CResult", emit.Nat(ru.scen), emit.Nat(ru.g), emit.Nat(ru.p), emit.Nat(gid), emit.List(st), emit.List(ct)), d, len(seq) >= 8)
		}
	}
	ctx.Extra["operations_executed_twice"] = totalOps
	ctx.Extra["executions"] = len(runs)
	return nil
}
