package props

import (
	"fmt"
	"strings"

	"github.com/freeconf/yang/parser"

	"yvh/gen"
	"yvh/tree"
)

// ---- schemas built from groupings that are used several times ------------------------------------
//
// The compiled schema shares objects between the copies a `uses` makes (a leaf copied out of a
// grouping keeps the *meta.Type of the grouping's leaf), while `refine` gives each copy its own
// default; typedefs hand their default to every leaf of that type that states none.  genUsesWorld
// generates this class: typedefs with and without defaults, groupings holding leaves, leaf-lists
// (with several defaults), containers, lists, choices and nested uses (with refines of their own),
// each grouping used at two or more places - module level, containers, list entries, choice cases -
// with and without `refine <path> { default ...; }` on leaves at every depth of the grouping.

type uLeaf struct {
	path string // relative schema path from the uses site
	base string // built-in type (for picking a default text)
	list bool
}

type uGroup struct {
	name    string
	body    string
	leaves  []uLeaf
	closure map[string]bool // groupings whose nodes land directly in the parent of a uses of this one
}

var usesBuiltins = []string{"int8", "int16", "int32", "int64", "uint8", "uint16", "uint32", "uint64", "string", "boolean",
	"enumeration { enum a; enum b; enum c; }", "decimal64 { fraction-digits 2; }"}

type usesGen struct {
	r        *gen.Rng
	next     int
	typedefs []struct{ name, base string }
	groups   []*uGroup
}

func (g *usesGen) id(p string) string {
	g.next++
	return fmt.Sprintf("%s%d", p, g.next)
}

// a type statement body (without "type ") and its built-in base
func (g *usesGen) typ() (string, string) {
	if len(g.typedefs) > 0 && g.r.Chance(1, 3) {
		t := gen.Pick(g.r, g.typedefs)
		return t.name, t.base
	}
	b := gen.Pick(g.r, usesBuiltins)
	return b, b
}

func typeStmt(t string) string {
	if strings.HasSuffix(t, "}") {
		return "type " + t
	}
	return "type " + t + ";"
}

// distinct default texts for a base type
func usesDefaults(r *gen.Rng, base string, n int) []string {
	var pool []string
	switch {
	case base == "int8" || base == "uint8":
		pool = []string{"1", "2", "3", "5", "8", "13", "21", "34", "55", "89", "100", "127"}
	case strings.HasPrefix(base, "int"), strings.HasPrefix(base, "uint"):
		pool = []string{"1", "2", "3", "5", "30", "600", "1000", "4711", "32767", "7", "9", "0"}
	case base == "string":
		pool = []string{"dflt", "x y", "z", "plain", "quick", "hot", "", "5"}
	case base == "boolean":
		pool = []string{"true", "false"}
	case strings.HasPrefix(base, "enumeration"):
		pool = []string{"a", "b", "c"}
	case strings.HasPrefix(base, "decimal64"):
		pool = []string{"1.5", "2.25", "0.5", "10", "3.75"}
	}
	if n > len(pool) {
		n = len(pool)
	}
	// a random subset, in random order
	idx := make([]int, len(pool))
	for i := range idx {
		idx[i] = i
	}
	for i := len(idx) - 1; i > 0; i-- {
		j := g0(r, i+1)
		idx[i], idx[j] = idx[j], idx[i]
	}
	out := make([]string, n)
	for i := 0; i < n; i++ {
		out[i] = pool[idx[i]]
	}
	return out
}

func g0(r *gen.Rng, n int) int { return r.Intn(n) }

func (g *usesGen) leafText(ind, name, kind, typ, base string, leaves *[]uLeaf, prefix string) string {
	var b strings.Builder
	fmt.Fprintf(&b, "%s%s %s { %s", ind, kind, name, typeStmt(typ))
	if kind == "leaf" {
		if g.r.Chance(3, 5) {
			fmt.Fprintf(&b, " default %q;", usesDefaults(g.r, base, 1)[0])
		}
	} else if g.r.Chance(1, 2) {
		for _, d := range usesDefaults(g.r, base, 1+g.r.Intn(2)) {
			fmt.Fprintf(&b, " default %q;", d)
		}
	}
	b.WriteString(" }\n")
	*leaves = append(*leaves, uLeaf{path: prefix + name, base: base, list: kind == "leaf-list"})
	return b.String()
}

// refines for a uses of grp: each refinable leaf with probability num/den
func (g *usesGen) refines(grp *uGroup, ind string, num, den int) string {
	var b strings.Builder
	for _, l := range grp.leaves {
		if !g.r.Chance(num, den) {
			continue
		}
		n := 1
		if l.list {
			n = 1 + g.r.Intn(3)
		}
		fmt.Fprintf(&b, "%s  refine %q {", ind, l.path)
		for _, d := range usesDefaults(g.r, l.base, n) {
			fmt.Fprintf(&b, " default %q;", d)
		}
		b.WriteString(" }\n")
	}
	return b.String()
}

func (g *usesGen) usesText(grp *uGroup, ind string, num, den int) string {
	rf := g.refines(grp, ind, num, den)
	if rf == "" {
		return fmt.Sprintf("%suses %s;\n", ind, grp.name)
	}
	return fmt.Sprintf("%suses %s {\n%s%s}\n", ind, grp.name, rf, ind)
}

func disjoint(a, b map[string]bool) bool {
	for k := range a {
		if b[k] {
			return false
		}
	}
	return true
}

func (g *usesGen) group() *uGroup {
	grp := &uGroup{name: g.id("g"), closure: map[string]bool{}}
	grp.closure[grp.name] = true
	p := grp.name + "_"
	var b strings.Builder
	n := 2 + g.r.Intn(3)
	for i := 0; i < n; i++ {
		switch roll := g.r.Intn(10); {
		case roll < 3:
			t, base := g.typ()
			b.WriteString(g.leafText("    ", g.id(p+"l"), "leaf", t, base, &grp.leaves, ""))
		case roll < 5:
			t, base := g.typ()
			b.WriteString(g.leafText("    ", g.id(p+"m"), "leaf-list", t, base, &grp.leaves, ""))
		case roll < 7:
			cn := g.id(p + "c")
			fmt.Fprintf(&b, "    container %s {\n", cn)
			for k := 0; k < 1+g.r.Intn(2); k++ {
				t, base := g.typ()
				kind := "leaf"
				if g.r.Chance(1, 4) {
					kind = "leaf-list"
				}
				b.WriteString(g.leafText("      ", g.id(p+"l"), kind, t, base, &grp.leaves, cn+"/"))
			}
			if len(g.groups) > 0 && g.r.Chance(1, 2) {
				// a nested uses inside the container
				inner := gen.Pick(g.r, g.groups)
				b.WriteString(g.usesText(inner, "      ", 1, 3))
				for _, l := range inner.leaves {
					grp.leaves = append(grp.leaves, uLeaf{path: cn + "/" + l.path, base: l.base, list: l.list})
				}
			}
			b.WriteString("    }\n")
		case roll < 8:
			qn := g.id(p + "q")
			kn := g.id(p + "k")
			fmt.Fprintf(&b, "    list %s {\n      key %q;\n      leaf %s { type %s; }\n", qn, kn, kn, gen.Pick(g.r, []string{"string", "int32", "uint8"}))
			t, base := g.typ()
			b.WriteString(g.leafText("      ", g.id(p+"l"), "leaf", t, base, &grp.leaves, qn+"/"))
			b.WriteString("    }\n")
		case roll < 9:
			hn := g.id(p + "h")
			fmt.Fprintf(&b, "    choice %s {\n", hn)
			for k := 0; k < 2; k++ {
				sn := g.id(p + "s")
				fmt.Fprintf(&b, "      case %s {\n", sn)
				t, base := g.typ()
				b.WriteString(g.leafText("        ", g.id(p+"l"), "leaf", t, base, &grp.leaves, hn+"/"+sn+"/"))
				if k == 0 {
					t, base = g.typ()
					b.WriteString(g.leafText("        ", g.id(p+"l"), "leaf", t, base, &grp.leaves, hn+"/"+sn+"/"))
				}
				b.WriteString("      }\n")
			}
			b.WriteString("    }\n")
		default:
			// a nested uses at the top of the grouping: its nodes become siblings of ours
			var cands []*uGroup
			for _, o := range g.groups {
				if disjoint(o.closure, grp.closure) {
					cands = append(cands, o)
				}
			}
			if len(cands) == 0 {
				t, base := g.typ()
				b.WriteString(g.leafText("    ", g.id(p+"l"), "leaf", t, base, &grp.leaves, ""))
				continue
			}
			inner := gen.Pick(g.r, cands)
			b.WriteString(g.usesText(inner, "    ", 1, 3))
			grp.leaves = append(grp.leaves, inner.leaves...)
			for k := range inner.closure {
				grp.closure[k] = true
			}
		}
	}
	grp.body = b.String()
	return grp
}

// sites: a set of groupings that can be used side by side in one parent
func (g *usesGen) pickSide(max int) []*uGroup {
	var out []*uGroup
	used := map[string]bool{}
	perm := make([]int, len(g.groups))
	for i := range perm {
		perm[i] = i
	}
	for i := len(perm) - 1; i > 0; i-- {
		j := g.r.Intn(i + 1)
		perm[i], perm[j] = perm[j], perm[i]
	}
	for _, i := range perm {
		grp := g.groups[i]
		if len(out) < max && disjoint(grp.closure, used) {
			out = append(out, grp)
			for k := range grp.closure {
				used[k] = true
			}
		}
	}
	return out
}

func genUsesYang(r *gen.Rng) string {
	g := &usesGen{r: r}
	var b strings.Builder
	b.WriteString("module m {\n  namespace \"urn:m\";\n  prefix m;\n  revision 2020-01-01;\n")
	for i := 0; i < 1+r.Intn(3); i++ {
		base := gen.Pick(r, usesBuiltins)
		name := g.id("t")
		fmt.Fprintf(&b, "  typedef %s { %s", name, typeStmt(base))
		if r.Chance(2, 3) {
			fmt.Fprintf(&b, " default %q;", usesDefaults(r, base, 1)[0])
		}
		b.WriteString(" }\n")
		g.typedefs = append(g.typedefs, struct{ name, base string }{name, base})
	}
	for i := 0; i < 2+r.Intn(3); i++ {
		grp := g.group()
		g.groups = append(g.groups, grp)
	}
	for _, grp := range g.groups {
		fmt.Fprintf(&b, "  grouping %s {\n%s  }\n", grp.name, grp.body)
	}
	// module level
	for _, grp := range g.pickSide(2) {
		b.WriteString(g.usesText(grp, "  ", 1, 2))
	}
	// containers, a list, a choice: every grouping gets used again, with other refines or none
	nSites := 3 + r.Intn(3)
	for i := 0; i < nSites; i++ {
		side := g.pickSide(1 + r.Intn(2))
		num := gen.Pick(r, []int{0, 1, 2})
		switch r.Intn(4) {
		case 0, 1:
			fmt.Fprintf(&b, "  container %s {\n", g.id("c"))
			for _, grp := range side {
				b.WriteString(g.usesText(grp, "    ", num, 3))
			}
			if r.Bool() {
				fmt.Fprintf(&b, "    leaf %s { type int32; default \"3\"; }\n", g.id("l"))
			}
			b.WriteString("  }\n")
		case 2:
			kn := g.id("k")
			fmt.Fprintf(&b, "  list %s {\n    key %q;\n    leaf %s { type string; }\n", g.id("q"), kn, kn)
			for _, grp := range side {
				b.WriteString(g.usesText(grp, "    ", num, 3))
			}
			b.WriteString("  }\n")
		default:
			fmt.Fprintf(&b, "  container %s {\n    choice %s {\n      case %s {\n", g.id("c"), g.id("h"), g.id("s"))
			for _, grp := range side {
				b.WriteString(g.usesText(grp, "        ", num, 3))
			}
			fmt.Fprintf(&b, "      }\n      case %s {\n        leaf %s { type string; default \"other\"; }\n      }\n    }\n  }\n", g.id("s"), g.id("l"))
		}
	}
	b.WriteString("}\n")
	return b.String()
}

func genUsesWorld(r *gen.Rng) (*jWorld, error) {
	text := genUsesYang(r)
	m, err := parser.LoadModuleFromString(nil, text)
	if err != nil {
		return nil, fmt.Errorf("c04: uses schema does not load: %v\n%s", err, text)
	}
	return &jWorld{yang: text, m: m, root: tree.Root(m), idmods: map[string]string{}}, nil
}

// unsetDefaulted removes, with probability pct/100 each, the values of leaves and leaf-lists that have
// a schema default (list keys stay): containers and list entries keep existing, so that the export
// has defaults to report at many places
func unsetDefaulted(r *gen.Rng, s *tree.SNode, c *tree.Cont, pct int) {
	for i, kid := range s.Kids {
		switch kid.Kind {
		case tree.KLeaf:
			isKey := false
			for _, k := range s.Keys {
				isKey = isKey || k == i
			}
			if _, set := c.Leaves[kid.Name]; set && !isKey && kid.Leafable().HasDefault() && r.Chance(pct, 100) {
				delete(c.Leaves, kid.Name)
			}
		case tree.KCont:
			if sub, ok := c.Conts[kid.Name]; ok {
				unsetDefaulted(r, kid, sub, pct)
			}
		case tree.KList:
			if l, ok := c.Lists[kid.Name]; ok {
				for _, row := range l.Rows {
					unsetDefaulted(r, kid, row, pct)
				}
			}
		}
	}
}
