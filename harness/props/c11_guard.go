package props

import (
	"fmt"
	"strings"

	"github.com/freeconf/yang/meta"
	"github.com/freeconf/yang/parser"

	"yvh/core"
	"yvh/emit"
	"yvh/gen"
)

// C11 part (ii): guard presence through parser.LoadModuleFromStringWithOptions + Options.Features.
// One generated module per case holds one guarded statement of every kind:
//   two data nodes (random kind), a case, a uses, three refines of one uses, an augment inside a
//   uses and a module-level augment.

var c11GuardBad = []string{"a and", "(a", "a b", "and", "a or or b", "", "a )", "not", "( )"}
var c11GuardSeps = []string{" ", " ", "  ", "\t"}

func c11GuardExpr(r *gen.Rng) string {
	pool := []string{"a", "b", "c", "d", "p:a", "zz", "p:c"}
	x := c11RandExpr(r, r.Intn(3), pool)
	var wr func(x *c11Expr, min int) (string, int)
	wr = func(x *c11Expr, min int) (string, int) {
		var s string
		lvl := 2
		switch x.op {
		case "id":
			s = x.id
		case "not":
			a, _ := wr(x.a, 2)
			s = "not" + gen.Pick(r, c11GuardSeps) + a
		case "and":
			a, _ := wr(x.a, 1)
			b, _ := wr(x.b, 1)
			s, lvl = a+gen.Pick(r, c11GuardSeps)+"and"+gen.Pick(r, c11GuardSeps)+b, 1
		default:
			a, _ := wr(x.a, 0)
			b, _ := wr(x.b, 0)
			s, lvl = a+gen.Pick(r, c11GuardSeps)+"or"+gen.Pick(r, c11GuardSeps)+b, 0
		}
		if lvl < min || r.Chance(1, 8) {
			s, lvl = "( "+s+" )", 2
		}
		return s, lvl
	}
	s, _ := wr(x, 0)
	return s
}

// guards of one statement; bad: allow a malformed one
func c11Guards1(r *gen.Rng, bad *bool) []string {
	n := []int{0, 1, 1, 1, 1, 2, 2, 3}[r.Intn(8)]
	gs := make([]string, n)
	for i := range gs {
		if *bad && r.Chance(1, 3) {
			gs[i] = gen.Pick(r, c11GuardBad)
			*bad = false
		} else {
			gs[i] = c11GuardExpr(r)
		}
	}
	return gs
}

func c11GuardYang(gs []string) string {
	var b strings.Builder
	for _, g := range gs {
		fmt.Fprintf(&b, "if-feature \"%s\"; ", g)
	}
	return b.String()
}

func c11DataStmt(kind, name string, gs []string) string {
	g := c11GuardYang(gs)
	switch kind {
	case "leaf":
		return fmt.Sprintf("leaf %s { %stype string; }", name, g)
	case "leaf-list":
		return fmt.Sprintf("leaf-list %s { %stype string; }", name, g)
	case "container":
		return fmt.Sprintf("container %s { %sleaf %s-in { type string; } }", name, g, name)
	case "list":
		return fmt.Sprintf("list %s { %skey k; leaf k { type string; } }", name, g)
	case "choice":
		return fmt.Sprintf("choice %s { %sleaf %s-in { type string; } }", name, g, name)
	}
	return fmt.Sprintf("anyxml %s { %sdescription \"x\"; }", name, g)
}

func c11Child(h meta.HasDataDefinitions, ident string) meta.Definition {
	for _, d := range h.DataDefinitions() {
		if d.Ident() == ident {
			return d
		}
	}
	return nil
}

type c11GuardModule struct {
	cfgKind  string
	cfgList  []string
	declared []string
	kinds    [2]string
	data     [2][]string
	cs       []string
	uses     []string
	refines  [3][]string
	uaug     []string
	maug     []string
}

func (g *c11GuardModule) yang() string {
	var b strings.Builder
	b.WriteString("module m { namespace \"urn:m\"; prefix p; revision 2020-01-01;\n")
	for _, f := range g.declared {
		fmt.Fprintf(&b, " feature %s;\n", f)
	}
	b.WriteString(" grouping g { leaf gl { type string; } leaf gm { type string; } leaf gn { type string; } container gc { } }\n")
	b.WriteString(" container top {\n")
	fmt.Fprintf(&b, "  %s\n  %s\n", c11DataStmt(g.kinds[0], "d1", g.data[0]), c11DataStmt(g.kinds[1], "d2", g.data[1]))
	fmt.Fprintf(&b, "  choice ch { case c0 { leaf l0 { type string; } } case c1 { %sleaf l1 { type string; } } }\n }\n", c11GuardYang(g.cs))
	fmt.Fprintf(&b, " container u1 { uses g { %s} }\n", c11GuardYang(g.uses))
	fmt.Fprintf(&b, " container u2 { uses g {\n  refine gl { %sdescription \"R\"; }\n  refine gm { %sdescription \"R\"; }\n  refine gn { %sdescription \"R\"; }\n  augment gc { %sleaf ua { type string; } } } }\n",
		c11GuardYang(g.refines[0]), c11GuardYang(g.refines[1]), c11GuardYang(g.refines[2]), c11GuardYang(g.uaug))
	fmt.Fprintf(&b, " augment /top { %sleaf al { type string; } }\n}\n", c11GuardYang(g.maug))
	return b.String()
}

func (g *c11GuardModule) featureSet() meta.FeatureSet {
	switch g.cfgKind {
	case "all-on":
		return meta.AllFeaturesOn()
	case "allow-list":
		return meta.FeaturesOn(append([]string{}, g.cfgList...))
	}
	return meta.FeaturesOff(append([]string{}, g.cfgList...))
}

// returns code (0 loaded, 1 error, 2 panic/inconsistent), flags per statement, note
func (g *c11GuardModule) observe() (code int, flags [][]bool, note string) {
	defer func() {
		if r := recover(); r != nil {
			code, flags, note = 2, nil, fmt.Sprintf("panic: %v", r)
		}
	}()
	m, err := parser.LoadModuleFromStringWithOptions(nil, g.yang(), parser.Options{Features: g.featureSet()})
	if err != nil {
		return 1, nil, err.Error()
	}
	top, _ := c11Child(m, "top").(meta.HasDataDefinitions)
	u1, _ := c11Child(m, "u1").(meta.HasDataDefinitions)
	u2, _ := c11Child(m, "u2").(meta.HasDataDefinitions)
	if top == nil || u1 == nil || u2 == nil {
		return 2, nil, "unguarded container missing"
	}
	ch, _ := c11Child(top, "ch").(*meta.Choice)
	if ch == nil || ch.Cases()["c0"] == nil {
		return 2, nil, "unguarded choice or case missing"
	}
	flags = append(flags, []bool{c11Child(top, "d1") != nil}, []bool{c11Child(top, "d2") != nil})
	c1 := ch.Cases()["c1"]
	if c1 != nil && c11Child(c1, "l1") == nil {
		return 2, nil, "case c1 present without its leaf"
	}
	flags = append(flags, []bool{c1 != nil})
	n := 0
	for _, id := range []string{"gl", "gm", "gn", "gc"} {
		if c11Child(u1, id) != nil {
			n++
		}
	}
	if n != 0 && n != 4 {
		return 2, nil, fmt.Sprintf("uses expanded partially: %d of 4", n)
	}
	flags = append(flags, []bool{n == 4})
	var rf []bool
	for _, id := range []string{"gl", "gm", "gn"} {
		d := c11Child(u2, id)
		if d == nil {
			return 2, nil, "unguarded uses: " + id + " missing"
		}
		rf = append(rf, d.(meta.Describable).Description() == "R")
	}
	flags = append(flags, rf)
	gc, _ := c11Child(u2, "gc").(meta.HasDataDefinitions)
	if gc == nil {
		return 2, nil, "unguarded uses: gc missing"
	}
	flags = append(flags, []bool{c11Child(gc, "ua") != nil}, []bool{c11Child(top, "al") != nil})
	return 0, flags, ""
}

func c11TextList(gs []string) string {
	ts := make([]string, len(gs))
	for i, g := range gs {
		ts[i] = emit.Str(g)
	}
	return emit.List(ts)
}

func (g *c11GuardModule) term(code int, flags [][]bool) string {
	cfg := emit.App("AllBut", c11TextList(g.cfgList))
	if g.cfgKind == "allow-list" {
		cfg = emit.App("OnlyOn", c11TextList(g.cfgList))
	}
	ss := []string{
		emit.App("SData", c11TextList(g.data[0])), emit.App("SData", c11TextList(g.data[1])),
		emit.App("SCase", c11TextList(g.cs)), emit.App("SUses", c11TextList(g.uses)),
		emit.App("SRefines", emit.List([]string{c11TextList(g.refines[0]), c11TextList(g.refines[1]), c11TextList(g.refines[2])})),
		emit.App("SAugment", c11TextList(g.uaug)), emit.App("SAugment", c11TextList(g.maug)),
	}
	fl := make([]string, len(flags))
	for i, f := range flags {
		bs := make([]string, len(f))
		for j, b := range f {
			bs[j] = emit.Bool(b)
		}
		fl[i] = emit.List(bs)
	}
	return emit.App("CGuard", cfg, c11TextList(g.declared), emit.List(ss), emit.Z(int64(code)), emit.List(fl))
}

func c11Subset(r *gen.Rng, pool []string) []string {
	var out []string
	for _, p := range pool {
		if r.Chance(1, 2) {
			out = append(out, p)
		}
	}
	return out
}

func c11GuardCases(ctx *core.Ctx, r *gen.Rng) {
	n := ctx.Scale(160, 3000)
	kinds := []string{"leaf", "leaf-list", "container", "list", "choice", "anyxml"}
	for i := 0; i < n; i++ {
		g := &c11GuardModule{}
		g.declared = c11Subset(r, []string{"a", "b", "c", "d"})
		if len(g.declared) == 0 {
			g.declared = []string{"a"}
		}
		switch r.Intn(3) {
		case 0:
			g.cfgKind = "all-on"
		case 1:
			g.cfgKind, g.cfgList = "allow-list", c11Subset(r, []string{"a", "b", "c", "d", "zz"})
		default:
			g.cfgKind, g.cfgList = "deny-list", c11Subset(r, []string{"a", "b", "c", "d", "zz"})
		}
		bad := r.Chance(1, 5)
		hadBad := bad
		g.kinds = [2]string{gen.Pick(r, kinds), gen.Pick(r, kinds)}
		// fill in random order so that the malformed guard lands on every statement kind
		slots := []*[]string{&g.data[0], &g.data[1], &g.cs, &g.uses, &g.refines[0], &g.refines[1], &g.refines[2], &g.uaug, &g.maug}
		for j := len(slots) - 1; j > 0; j-- {
			k := r.Intn(j + 1)
			slots[j], slots[k] = slots[k], slots[j]
		}
		for _, s := range slots {
			*s = c11Guards1(r, &bad)
		}
		code, flags, note := g.observe()
		ctx.Add(g.term(code, flags), map[string]interface{}{"kind": "guard", "features_config": g.cfgKind, "list": g.cfgList,
			"yang": g.yang(), "observed_code": code, "observed": flags, "note": note,
			"statements": "d1, d2, case c1, uses in u1, refines gl/gm/gn in u2, augment gc in u2, augment /top",
			"codes":      "0 loaded / 1 load error / 2 panic or inconsistent tree"}, true)
		ctx.Count("guard:" + g.cfgKind)
		ctx.Count("guard:data:" + g.kinds[0])
		if hadBad && !bad {
			ctx.Count("guard:with malformed expression")
		}
		ctx.Count(fmt.Sprintf("guard:code%d", code))
	}
}
