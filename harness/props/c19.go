package props

import (
	"bytes"
	stdxml "encoding/xml"
	"fmt"
	"io"
	"strings"

	"github.com/freeconf/yang/meta"
	"github.com/freeconf/yang/node"
	"github.com/freeconf/yang/nodeutil"
	"github.com/freeconf/yang/parser"
	pxml "github.com/freeconf/yang/patch/xml"
	"github.com/freeconf/yang/val"

	"yvh/core"
	"yvh/emit"
	"yvh/gen"
	"yvh/tree"
)

func init() { Registry["C19"] = C19 }

// ---- element trees (Coq: Tree.XmlW.xelem) ----------------------------------------------------

type xnode struct {
	isText bool
	text   string
	name   string
	ns     *string // literal default-namespace declaration on the start tag
	kids   []*xnode
}

func (x *xnode) term() string {
	if x.isText {
		return emit.App("XText", emit.Str(x.text))
	}
	items := make([]string, len(x.kids))
	for i, k := range x.kids {
		items[i] = k.term()
	}
	return emit.App("XE", emit.Str(x.name), emit.OptStr(x.ns), emit.List(items))
}

// parseDoc tokenises a document with Go's encoding/xml (the ORACLE of this check: it is not the
// repo's patch/xml that wrote the bytes). wf: the whole input tokenises without error, has exactly
// one root element and nothing but white space around it.
func parseDoc(doc string) (root *xnode, wf bool) {
	d := stdxml.NewDecoder(strings.NewReader(doc))
	var stack []*xnode
	var roots []*xnode
	for {
		tok, err := d.Token()
		if err == io.EOF {
			break
		}
		if err != nil {
			return nil, false
		}
		switch t := tok.(type) {
		case stdxml.StartElement:
			n := &xnode{name: t.Name.Local}
			for _, a := range t.Attr {
				if a.Name.Space == "" && a.Name.Local == "xmlns" {
					v := a.Value
					n.ns = &v
				}
			}
			if len(stack) == 0 {
				roots = append(roots, n)
			} else {
				p := stack[len(stack)-1]
				p.kids = append(p.kids, n)
			}
			stack = append(stack, n)
		case stdxml.EndElement:
			stack = stack[:len(stack)-1]
		case stdxml.CharData:
			if len(stack) == 0 {
				if strings.TrimSpace(string(t)) != "" {
					return nil, false
				}
				continue
			}
			if len(t) > 0 {
				p := stack[len(stack)-1]
				p.kids = append(p.kids, &xnode{isText: true, text: string(t)})
			}
		}
	}
	if len(stack) != 0 || len(roots) != 1 {
		return nil, false
	}
	return roots[0], true
}

func (x *xnode) serialize(b *bytes.Buffer) {
	if x.isText {
		stdxml.EscapeText(b, []byte(x.text))
		return
	}
	b.WriteString("<" + x.name)
	if x.ns != nil {
		b.WriteString(` xmlns="`)
		stdxml.EscapeText(b, []byte(*x.ns))
		b.WriteString(`"`)
	}
	b.WriteString(">")
	for _, k := range x.kids {
		k.serialize(b)
	}
	b.WriteString("</" + x.name + ">")
}

// interleave returns a copy of x in which, at every level, sibling elements are re-ordered at
// random while elements of the same name keep their relative order (RFC 7950 7.8.5).
func interleave(r *gen.Rng, x *xnode) *xnode {
	if x.isText {
		return x
	}
	n := &xnode{name: x.name, ns: x.ns}
	var order []string
	groups := map[string][]*xnode{}
	var texts []*xnode
	for _, k := range x.kids {
		if k.isText {
			texts = append(texts, k)
			continue
		}
		if _, ok := groups[k.name]; !ok {
			order = append(order, k.name)
		}
		groups[k.name] = append(groups[k.name], interleave(r, k))
	}
	n.kids = append(n.kids, texts...)
	for len(order) > 0 {
		i := r.Intn(len(order))
		g := groups[order[i]]
		n.kids = append(n.kids, g[0])
		if len(g) == 1 {
			order = append(order[:i:i], order[i+1:]...)
		} else {
			groups[order[i]] = g[1:]
		}
	}
	return n
}

// ---- text generators ---------------------------------------------------------------------------

var c19Markup = []string{"<", ">", "&", "\"", "'", "]]>", "<![CDATA[", "&amp;", "&#65;", "&lt;", "<!--", "-->", "<a>", "</a>", "/>", "]]", "]", "&#x;", "&;"}
var c19Space = []string{" ", "\t", "\n", "\r", "\r\n", "\u00a0", "\u3000", "\u2028", "\u0085", "  ", "\u2003", "\u205f", "\u1680"}
var c19NonASCII = []string{"\u00e9", "\u00fc", "\u6f22\u5b57", "\U0001F600", "\ufffd", "\ud7ff", "\ue000", "\u00df", "\U0010ffff", "\u0080", "\u07ff", "\u0800"}
var c19Invalid = []string{"\x01", "\x00", "\x0b", "\x0c", "\xff", "\xc0\x80", "\xed\xa0\x80", "\ufffe", "\uffff", "\xe2\x82", "\x1f", "\xf4\x90\x80\x80", "\x80"}

func c19Text(r *gen.Rng, allowInvalid bool) string {
	if r.Chance(1, 20) {
		return ""
	}
	var b strings.Builder
	if r.Chance(3, 10) {
		b.WriteString(gen.Pick(r, c19Space))
	}
	n := 1 + r.Intn(5)
	for i := 0; i < n; i++ {
		switch roll := r.Intn(20); {
		case roll < 6:
			b.WriteString(gen.Pick(r, c19Markup))
		case roll < 9:
			b.WriteString(gen.Pick(r, c19Space))
		case roll < 12:
			b.WriteString(gen.Pick(r, c19NonASCII))
		case roll == 12 && allowInvalid:
			b.WriteString(gen.Pick(r, c19Invalid))
		default:
			b.WriteString(gen.Pick(r, []string{"a", "b", "xy", "hello", "v" + fmt.Sprint(r.Intn(100)), "0", "-1", "true"}))
		}
	}
	if r.Chance(3, 10) {
		b.WriteString(gen.Pick(r, c19Space))
	}
	return b.String()
}

func isStringLeaf(k *tree.SNode) bool {
	if k.Kind != tree.KLeaf {
		return false
	}
	return k.Leafable().Type().Format().Single() == val.FmtString
}

// spice replaces string values of c by texts of the classes the property quantifies over; list keys
// stay pairwise distinct
func spice(r *gen.Rng, s *tree.SNode, c *tree.Cont, invalidPct int) {
	isKey := map[string]bool{}
	for _, k := range s.Keys {
		isKey[s.Kids[k].Name] = true
	}
	for _, kid := range s.Kids {
		switch kid.Kind {
		case tree.KLeaf:
			v, ok := c.Leaves[kid.Name]
			if !ok || !isStringLeaf(kid) || isKey[kid.Name] || !r.Chance(7, 10) {
				continue
			}
			inv := r.Chance(invalidPct, 100)
			if l, isList := v.(val.StringList); isList {
				nl := make([]string, len(l))
				for i := range l {
					nl[i] = c19Text(r, inv)
				}
				c.Leaves[kid.Name] = val.StringList(nl)
			} else {
				c.Leaves[kid.Name] = val.String(c19Text(r, inv))
			}
		case tree.KCont:
			if sub, ok := c.Conts[kid.Name]; ok {
				spice(r, kid, sub, invalidPct)
			}
		case tree.KList:
			l, ok := c.Lists[kid.Name]
			if !ok {
				continue
			}
			seen := map[string]bool{}
			keyID := func(row *tree.Cont) string {
				var ks []string
				for _, k := range kid.Keys {
					ks = append(ks, row.Leaves[kid.Kids[k].Name].String())
				}
				return strings.Join(ks, "\x00")
			}
			for _, row := range l.Rows {
				seen[keyID(row)] = true
			}
			for _, row := range l.Rows {
				spice(r, kid, row, invalidPct)
				// string keys: markup and edge white space in keys too
				for _, k := range kid.Keys {
					kk := kid.Kids[k]
					if !isStringLeaf(kk) || !r.Chance(1, 2) {
						continue
					}
					old := row.Leaves[kk.Name]
					oldID := keyID(row)
					row.Leaves[kk.Name] = val.String(c19Text(r, false))
					if id := keyID(row); seen[id] {
						row.Leaves[kk.Name] = old
					} else {
						delete(seen, oldID)
						seen[id] = true
					}
				}
			}
		}
	}
}

// ---- schemas -----------------------------------------------------------------------------------

// a pair of modules: bar uses a grouping of foo and augments it, so that nodes of two namespaces
// alternate along a path; the namespaces need escaping inside an attribute
const c19Foo = `module foo { namespace "urn:foo?a=1&b=<2>"; prefix foo; revision 2020-01-01;
 grouping x {
   container top {
     leaf f { type string; }
     leaf n { type int16; }
     container in { leaf g { type string; } leaf-list gl { type string; } }
     list q { key k; leaf k { type string; } leaf w { type enumeration { enum one; enum two { value 7; } } } }
   }
   leaf tl { type string; }
 }
}`
const c19Bar = `module bar { namespace "urn:bar\"q\""; prefix bar; import foo { prefix foo; } revision 2020-01-01;
 uses foo:x;
 leaf own { type string; }
 leaf flag { type empty; }
 leaf blob { type binary; }
 leaf ref { type leafref { path "../own"; } }
 augment /top { leaf ax { type string; default "dx"; } container ac { leaf deep { type boolean; } leaf-list dl { type uint8; } } }
 augment /top/in { leaf ai { type string; } leaf-list al { type string; } }
 augment /top/q { leaf aq { type decimal64 { fraction-digits 3; } } list qq { key a; leaf a { type int8; } leaf b { type string; } } }
}`

func c19Pair() (string, *meta.Module, *tree.SNode, error) {
	src := func(name, ext string) (io.Reader, error) {
		if name == "foo" {
			return strings.NewReader(c19Foo), nil
		}
		return nil, nil
	}
	m, err := parser.LoadModuleFromString(src, c19Bar)
	if err != nil {
		return c19Foo + c19Bar, nil, nil, err
	}
	return c19Foo + "\n" + c19Bar, m, tree.Root(m), nil
}

// genPairData: GenData does not know binary/empty: fill the hand-written schema by kind
func c19GenData(r *gen.Rng, s *tree.SNode, density, maxRows int) *tree.Cont {
	c := tree.NewCont()
	for _, kid := range s.Kids {
		isKey := false
		for _, k := range s.Keys {
			if s.Kids[k] == kid {
				isKey = true
			}
		}
		if isKey || !r.Chance(density, 100) {
			continue
		}
		switch kid.Kind {
		case tree.KLeaf:
			c.Leaves[kid.Name] = c19Value(r, kid)
		case tree.KCont:
			c.Conts[kid.Name] = c19GenData(r, kid, density, maxRows)
		case tree.KList:
			l := &tree.List{}
			seen := map[string]bool{}
			for i, n := 0, r.Intn(maxRows+1); i < n; i++ {
				row := c19GenData(r, kid, density, maxRows)
				var ks []string
				for _, k := range kid.Keys {
					v := c19Value(r, kid.Kids[k])
					row.Leaves[kid.Kids[k].Name] = v
					ks = append(ks, v.String())
				}
				if id := strings.Join(ks, "\x00"); !seen[id] {
					seen[id] = true
					l.Rows = append(l.Rows, row)
				}
			}
			c.Lists[kid.Name] = l
		}
	}
	return c
}

func c19Value(r *gen.Rng, kid *tree.SNode) val.Value {
	t := kid.Leafable().Type()
	f := t.Format()
	if f == val.FmtLeafRef {
		f = t.Resolve().Format()
	}
	switch f {
	case val.FmtBinary:
		return val.Binary(gen.Pick(r, []string{"aGVsbG8=", "", "QQ==", "/+8=", "YWJj"}))
	case val.FmtEmpty:
		return val.NotEmpty
	case val.FmtString:
		return val.String(gen.Pick(r, []string{"a", "b", "k" + fmt.Sprint(r.Intn(50)), "x y"}))
	case val.FmtDecimal64:
		return val.Decimal64(gen.Pick(r, []float64{0, 1.5, -2.25, 100.75, 0.5, 0.125, -0.375, 1024, float64(r.Intn(8000))/8 - 500}))
	}
	return tree.GenValue(r, kid.Leafable())
}

// namespaces of every module that defines a node of the tree: (module name, Namespace())
func c19Namespaces(s *tree.SNode, acc map[string]string) {
	acc[s.Mod] = meta.OriginalModule(s.Def).Namespace()
	for _, k := range s.Kids {
		c19Namespaces(k, acc)
	}
}

func nssTerm(root *tree.SNode) string {
	acc := map[string]string{}
	c19Namespaces(root, acc)
	var names []string
	for k := range acc {
		names = append(names, k)
	}
	sortStrings(names)
	items := make([]string, len(names))
	for i, n := range names {
		items[i] = emit.Pair(emit.Str(n), emit.Str(acc[n]))
	}
	return emit.List(items)
}

func sortStrings(a []string) {
	for i := 1; i < len(a); i++ {
		for j := i; j > 0 && a[j] < a[j-1]; j-- {
			a[j], a[j-1] = a[j-1], a[j]
		}
	}
}

// ---- entries -----------------------------------------------------------------------------------

type c19Entry struct {
	kind string // root | container | list | row (a list entry)
	path string
	s    *tree.SNode
	data *tree.Cont // content at the entry, or the holder of the list
}

// c19PickEntry: the module root, or a container / list reached through containers only
func c19PickEntry(r *gen.Rng, root *tree.SNode, data *tree.Cont) c19Entry {
	e := c19Entry{kind: "root", s: root, data: data}
	if r.Chance(7, 10) {
		return e
	}
	cur := e
	for depth := 0; depth < 3; depth++ {
		var opts []c19Entry
		for _, kid := range cur.s.Kids {
			switch kid.Kind {
			case tree.KCont:
				if sub, ok := cur.data.Conts[kid.Name]; ok {
					opts = append(opts, c19Entry{kind: "container", path: join(cur.path, kid.Name), s: kid, data: sub})
				}
			case tree.KList:
				if l, ok := cur.data.Lists[kid.Name]; ok {
					opts = append(opts, c19Entry{kind: "list", path: join(cur.path, kid.Name), s: kid, data: cur.data})
					for _, row := range l.Rows {
						if kp, ok := keyPath(kid, row); ok {
							opts = append(opts, c19Entry{kind: "row", path: join(cur.path, kid.Name+"="+kp), s: kid, data: row})
						}
					}
				}
			}
		}
		if len(opts) == 0 {
			break
		}
		cur = gen.Pick(r, opts)
		if cur.kind == "list" || cur.kind == "row" || r.Chance(1, 2) {
			break
		}
	}
	return cur
}

func listTerm(s *tree.SNode, l *tree.List) string {
	return emit.App("DList", listRowsTerm(s, l))
}

func (e c19Entry) dataTerm() string {
	if e.kind == "list" {
		return listTerm(e.s, e.data.Lists[e.s.Name])
	}
	return emit.App("DCont", e.data.ContentTerm(e.s))
}

func (e c19Entry) dataDesc() string {
	if e.kind == "list" {
		return listDesc(e.s, e.data.Lists[e.s.Name])
	}
	return e.data.Desc(e.s)
}

// ---- the real library ----------------------------------------------------------------------------

var c19CfgNames = []string{"WriteXMLDoc", "WriteXML", "XMLWtr{EnumAsIds}.XML"}

func c19Write(cfg int, sel *node.Selection) (doc string, err error, panicked string) {
	defer func() {
		if r := recover(); r != nil {
			panicked = fmt.Sprintf("%v", r)
		}
	}()
	switch cfg {
	case 0:
		doc, err = nodeutil.WriteXMLDoc(sel, false)
	case 1:
		doc, err = nodeutil.WriteXML(sel)
	case 2:
		doc, err = nodeutil.XMLWtr{EnumAsIds: true}.XML(sel)
	}
	return
}

// readBack: ReadXMLDoc + UpsertFrom into an empty store at the same entry
func c19ReadBack(m *meta.Module, root *tree.SNode, e c19Entry, doc string) (term, desc string) {
	target := tree.NewCont()
	cur := target
	var holder *tree.Cont
	if e.path != "" {
		parts := strings.Split(e.path, "/")
		s := root
		for i, p := range parts {
			if eq := strings.Index(p, "="); eq >= 0 {
				// a list entry: the target entry exists with its key leaves (it has to, to be selected)
				p = p[:eq]
				kid := s.Kids[s.KidIndex(p)]
				row := tree.NewCont()
				for _, k := range kid.Keys {
					row.Leaves[kid.Kids[k].Name] = e.data.Leaves[kid.Kids[k].Name]
				}
				cur.Lists[p] = &tree.List{Rows: []*tree.Cont{row}}
				cur = row
				s = kid
				continue
			}
			kid := s.Kids[s.KidIndex(p)]
			if i == len(parts)-1 && kid.Kind == tree.KList {
				cur.Lists[p] = &tree.List{}
				holder = cur
			} else {
				n := tree.NewCont()
				cur.Conts[p] = n
				cur = n
			}
			s = kid
		}
	}
	res := func() (out string) {
		defer func() {
			if r := recover(); r != nil {
				out = fmt.Sprintf("panic: %v", r)
			}
		}()
		n, err := nodeutil.ReadXMLDoc(strings.NewReader(doc))
		if err != nil {
			return "error: " + err.Error()
		}
		sel := node.NewBrowser(m, target.Node(root, nil, "")).Root()
		if e.path != "" {
			sel, err = sel.Find(e.path)
			if err != nil || sel == nil {
				return fmt.Sprintf("panic: harness cannot find %q in the target: %v", e.path, err)
			}
		}
		if err = sel.UpsertFrom(n); err != nil {
			return "error: " + err.Error()
		}
		return ""
	}()
	switch {
	case strings.HasPrefix(res, "panic"):
		return "ObsPanic", res
	case res != "":
		return "ObsErr", res
	}
	if e.kind == "list" {
		l := holder.Lists[e.s.Name]
		return emit.App("ObsOk", listTerm(e.s, l)), listDesc(e.s, l)
	}
	return emit.App("ObsOk", emit.App("DCont", cur.ContentTerm(e.s))), cur.Desc(e.s)
}

func c19Doc(ctx *core.Ctx, r *gen.Rng, yang string, m *meta.Module, root *tree.SNode, data *tree.Cont, e c19Entry, cfg int, nperm int) {
	sel := node.NewBrowser(m, data.Node(root, nil, "")).Root()
	if e.path != "" {
		var err error
		if sel, err = sel.Find(e.path); err != nil || sel == nil {
			panic(fmt.Sprintf("c19: cannot find entry %q: %v\n%s\n%s", e.path, err, yang, data.Desc(root)))
		}
	}
	doc, werr, panicked := c19Write(cfg, sel)
	wrote, wf := "None", false
	var x *xnode
	if werr == nil && panicked == "" {
		x, wf = parseDoc(doc)
		if x != nil {
			wrote = emit.Some(x.term())
		}
	}
	back, backDesc := "ObsErr", "not read: nothing well-formed was written"
	var perms []string
	var permDescs []map[string]string
	if x != nil {
		back, backDesc = c19ReadBack(m, root, e, doc)
		for i := 0; i < nperm; i++ {
			px := interleave(r, x)
			var b bytes.Buffer
			px.serialize(&b)
			// the term is what the oracle tokenizer sees in the re-serialised text
			px2, ok := parseDoc(b.String())
			if !ok || px2 == nil {
				panic("c19: the harness serialiser wrote something the oracle rejects: " + b.String())
			}
			pt, pd := c19ReadBack(m, root, e, b.String())
			if pt == back {
				pt = "None" // the same tree as read back from the written document
			} else {
				pt = emit.Some(pt)
			}
			perms = append(perms, emit.Pair(px2.term(), pt))
			permDescs = append(permDescs, map[string]string{"document": b.String(), "read_back": pd})
		}
	}
	ctor := "CDoc"
	if e.kind == "row" {
		ctor = "CRow" // the schema term is the list's; Coq takes its entry node
	}
	term := emit.App(ctor, nssTerm(root), e.s.Term(), e.dataTerm(), emit.Nat(cfg), wrote, emit.Bool(wf), back, emit.List(perms))
	desc := map[string]interface{}{"yang": yang, "entry": e.kind, "path": e.path, "writer": c19CfgNames[cfg], "data": e.dataDesc(),
		"written": doc, "write_error": fmt.Sprint(werr) + panicked, "well_formed_single_root": wf, "read_back": backDesc, "interleavings": permDescs}
	size := 0
	if e.kind == "list" {
		size = len(e.data.Lists[e.s.Name].Rows)
	} else {
		size = e.data.Size()
	}
	ctx.Add(term, desc, size > 0)
	ctx.Count("entry:" + e.kind)
	ctx.Count("writer:" + c19CfgNames[cfg])
	ctx.Count(fmt.Sprintf("nodes:%d", bucket(size)))
	if wf {
		ctx.Count("written:well-formed")
	} else {
		ctx.Count("written:NOT-well-formed")
	}
	ctx.Count("read_back:" + strings.SplitN(back, " ", 2)[0])
}

func bucket(n int) int {
	switch {
	case n == 0:
		return 0
	case n < 4:
		return 1
	case n < 10:
		return 4
	case n < 30:
		return 10
	}
	return 30
}

// ---- escaping, byte level ------------------------------------------------------------------------

func c19Decode(raw string) (string, bool) {
	d := pxml.NewDecoder(strings.NewReader("<a>" + raw + "</a>"))
	var out strings.Builder
	depth := 0
	for {
		tok, err := d.Token()
		if err == io.EOF {
			break
		}
		if err != nil {
			return "", false
		}
		switch t := tok.(type) {
		case pxml.StartElement:
			depth++
		case pxml.EndElement:
			depth--
		case pxml.CharData:
			out.Write(t)
		}
	}
	return out.String(), depth == 0
}

func optTextTerm(s string, ok bool) string {
	if !ok {
		return "None"
	}
	return emit.Some(emit.Str(s))
}

func c19Escapes(ctx *core.Ctx, r *gen.Rng, n int) {
	for i := 0; i < n; i++ {
		var t string
		if r.Chance(1, 3) {
			b := make([]byte, r.Intn(12))
			for j := range b {
				b[j] = gen.Pick(r, []byte{0, 1, 9, 10, 13, 31, 32, '"', '&', '\'', '<', '>', ']', 'a', 0x7f, 0x80, 0xbf, 0xc0, 0xc2, 0xdf, 0xe0, 0xa0, 0xed, 0x9f, 0xef, 0xbe, 0xbd, 0xf0, 0x90, 0xf4, 0x8f, 0xf5, 0xff})
			}
			t = string(b)
		} else {
			t = c19Text(r, true)
		}
		var esc bytes.Buffer
		if err := pxml.EscapeText(&esc, []byte(t)); err != nil {
			panic(err)
		}
		dec, ok := c19Decode(esc.String())
		ctx.Add(emit.App("CEsc", emit.Str(t), emit.Str(esc.String()), optTextTerm(dec, ok)),
			map[string]interface{}{"kind": "EscapeText then decode", "text": fmt.Sprintf("%q", t), "escaped": esc.String(), "decoded": fmt.Sprintf("%q ok=%v", dec, ok)}, len(t) > 0)
		ctx.Count("escape")
	}
	pieces := []string{"&", "#", "x", ";", "lt", "gt", "amp", "apos", "quot", "&lt;", "&amp;", "&#65;", "&#x41;", "&#x1F600;", "&#0;", "&#xD800;", "&#1114112;",
		"&#99999999999999999999;", "&#x0000000000000041;", "]", "]]>", ">", "\r", "\n", "\r\n", "a", "0", "9", "A", "f", "\u00e9", "\xff", "\x01", " ", "&nbsp;", "&a.b-c:d_e;", "&#x;", "&#;", "&;", "&lt"}
	for i := 0; i < n; i++ {
		var b strings.Builder
		for j, k := 0, 1+r.Intn(6); j < k; j++ {
			b.WriteString(gen.Pick(r, pieces))
		}
		raw := b.String()
		dec, ok := c19Decode(raw)
		ctx.Add(emit.App("CUnesc", emit.Str(raw), optTextTerm(dec, ok)),
			map[string]interface{}{"kind": "decode character data", "raw": fmt.Sprintf("%q", raw), "decoded": fmt.Sprintf("%q ok=%v", dec, ok)}, true)
		ctx.Count("unescape")
	}
}

// C19: XML export and import are inverse on every data tree.
func C19(ctx *core.Ctx) error {
	ctx.Imports = "Val.Model Tree.Schema Tree.Editor Tree.XmlEsc Tree.XmlW Tree.XmlR Check.C19Check"
	ctx.Rule = "CDoc = generated schema (containers, keyed lists, leaf-lists, 12 leaf types, defaults; one in four with choices, also nested in cases) or the hand-written pair of modules (uses + augment across two namespaces, binary/empty/leafref/int8/boolean) x conforming data whose strings carry markup characters, quotes, ]]>, every white-space class at the edges and inside, non-ASCII (and, rarely, characters XML cannot carry) x selection (module, container, list, list entry) x writer configuration (WriteXMLDoc, WriteXML, XMLWtr{EnumAsIds}) x 1-2 random sibling interleavings of the written document read back; CEsc/CUnesc = random byte strings through patch/xml EscapeText and the decoder; distinct by SHA-256 of the case term; non-trivial = the selection holds data / the text is non-empty"
	ctx.ShardMax = 160000
	r := gen.New(ctx.Seed)
	nTrees := ctx.Scale(200, 1500)
	if ctx.Tier == "search" {
		nTrees = 3000
	}
	opts := tree.GenOpts{MaxDepth: 3, MaxKids: 5, Lists: true, Defaults: true, LeafLists: true}
	for n := 0; n < nTrees; n++ {
		tr := r.Fork(uint64(n))
		var yang string
		var m *meta.Module
		var root *tree.SNode
		var err error
		var data *tree.Cont
		pair := n%5 == 4
		if pair {
			if yang, m, root, err = c19Pair(); err != nil {
				return fmt.Errorf("c19: module pair does not load: %v", err)
			}
			data = c19GenData(tr, root, 80, 3)
			ctx.Count("schema:pair")
		} else {
			o := opts
			if n%4 == 2 {
				// choices (nested in cases too): at most one case of each is populated by GenData
				o.Choices = true
				ctx.Count("schema:with-choices")
			}
			if yang, m, root, err = tree.GenSchema(tr, o); err != nil {
				return fmt.Errorf("generated schema does not load: %v\n%s", err, yang)
			}
			data = tree.GenData(tr, root, 85, 3)
			ctx.Count("schema:generated")
		}
		invalidPct := 0
		if n%10 == 3 {
			invalidPct = 30
		}
		spice(tr, root, data, invalidPct)
		e := c19PickEntry(tr, root, data)
		if e.path != "" {
			// Selection.Find is not this property's subject (C08): where it does not reach the entry
			// (e.g. a keyed path segment below nested choices) the module itself is the selection
			sel, ferr := node.NewBrowser(m, data.Node(root, nil, "")).Root().Find(e.path)
			if ferr != nil || sel == nil {
				ctx.Count("entry:find-failed-fallback-to-root:" + e.kind)
				e = c19Entry{kind: "root", s: root, data: data}
			}
		}
		cfgs := []int{0, 1}
		if n%4 == 1 {
			cfgs = []int{0, 2}
		}
		for i, cfg := range cfgs {
			nperm := 1
			if i == 0 && n%3 == 0 {
				nperm = 2
			}
			c19Doc(ctx, tr.Fork(uint64(100+cfg)), yang, m, root, data, e, cfg, nperm)
		}
	}
	c19Escapes(ctx, r.Fork(99999), ctx.Scale(150, 3000))
	return nil
}
