package props

import (
	"errors"
	"fmt"
	"net/url"
	"strings"

	"github.com/freeconf/yang/fc"
	"github.com/freeconf/yang/meta"
	"github.com/freeconf/yang/node"
	"github.com/freeconf/yang/parser"

	"yvh/core"
	"yvh/emit"
	"yvh/gen"
	"yvh/tree"
)

func init() { Registry["C07"] = C07 }

// ---- path expressions as trees (Coq: PathExpr.pexpr, printed by PathExpr.print) -------------------

type pexpr struct {
	kind string // seg seq alt
	name string
	a, b *pexpr
}

func xseg(n string) *pexpr    { return &pexpr{kind: "seg", name: n} }
func xseq(a, b *pexpr) *pexpr { return &pexpr{kind: "seq", a: a, b: b} }
func xalt(a, b *pexpr) *pexpr { return &pexpr{kind: "alt", a: a, b: b} }

func xpathOf(names ...string) *pexpr {
	e := xseg(names[0])
	for _, n := range names[1:] {
		e = xseq(e, xseg(n))
	}
	return e
}

func (e *pexpr) print(nested bool) string {
	switch e.kind {
	case "seg":
		return e.name
	case "seq":
		return e.a.print(true) + "/" + e.b.print(true)
	}
	if nested {
		return "(" + e.a.print(false) + ";" + e.b.print(false) + ")"
	}
	return e.a.print(false) + ";" + e.b.print(false)
}

func (e *pexpr) term() string {
	switch e.kind {
	case "seg":
		return emit.App("XSeg", emit.Str(e.name))
	case "seq":
		return emit.App("XSeq", e.a.term(), e.b.term())
	}
	return emit.App("XAlt", e.a.term(), e.b.term())
}

// ---- one query ---------------------------------------------------------------------------------------

type qparam struct {
	name, value string
	ast         *pexpr // for fields / fc.xfields / the selector of fc.range, when generated from a tree
	kind        string // histogram key
}

type c07target struct {
	path string
	s    *tree.SNode
	data *tree.Cont // content at the target; for a list target: its first row (for the generators only)
	list *tree.List // non-nil: the target is the list itself (c07chain.go)
}

func c07ErrClass(err error) string {
	switch {
	case errors.Is(err, fc.BadRequestError):
		return "OBadRequest"
	case errors.Is(err, fc.NotImplementedError):
		return "ONotImplemented"
	case errors.Is(err, fc.ConflictError):
		return "OConflict"
	}
	return "OOther"
}

// minimal spelling of a query value: only what would change the split into parameters is escaped,
// so ';' '(' ')' '/' '!' reach the library as a client would type them
func lightEscape(s string) string {
	var b strings.Builder
	for i := 0; i < len(s); i++ {
		c := s[i]
		switch {
		case c == '%' || c == '&' || c == '+' || c == '#' || c == '=' || c == '?' || c <= ' ' || c >= 0x7f:
			fmt.Fprintf(&b, "%%%02X", c)
		default:
			b.WriteByte(c)
		}
	}
	return b.String()
}

func queryString(r *gen.Rng, ps []qparam) string {
	parts := make([]string, len(ps))
	full := r.Chance(1, 3)
	for i, p := range ps {
		if full {
			parts[i] = url.QueryEscape(p.name) + "=" + url.QueryEscape(p.value)
		} else {
			parts[i] = lightEscape(p.name) + "=" + lightEscape(p.value)
		}
	}
	return strings.Join(parts, "&")
}

// targets: the root and every container / list entry with url-safe keys (container-like selections)
func c07Targets(root *tree.SNode, data *tree.Cont) []c07target {
	out := []c07target{{path: "", s: root, data: data}}
	var walk func(path string, s *tree.SNode, c *tree.Cont, depth int)
	walk = func(path string, s *tree.SNode, c *tree.Cont, depth int) {
		if depth > 3 {
			return
		}
		for _, kid := range s.Kids {
			switch kid.Kind {
			case tree.KCont:
				if sub, ok := c.Conts[kid.Name]; ok {
					p := join(path, kid.Name)
					out = append(out, c07target{path: p, s: kid, data: sub})
					walk(p, kid, sub, depth+1)
				}
			case tree.KList:
				if l, ok := c.Lists[kid.Name]; ok {
					for _, row := range l.Rows {
						if kp, ok := keyPath(kid, row); ok {
							p := join(path, kid.Name+"="+kp)
							out = append(out, c07target{path: p, s: kid, data: row})
							walk(p, kid, row, depth+1)
						}
					}
				}
			}
		}
	}
	walk("", root, data, 0)
	return out
}

// schema paths below s (relative names), up to maxLen segments; lists separately
func schemaPaths(s *tree.SNode, maxLen int) (all [][]string, lists [][]string) {
	var walk func(prefix []string, n *tree.SNode)
	walk = func(prefix []string, n *tree.SNode) {
		if len(prefix) >= maxLen {
			return
		}
		for _, kid := range n.Kids {
			p := append(append([]string{}, prefix...), kid.Name)
			all = append(all, p)
			if kid.Kind == tree.KList {
				lists = append(lists, p)
			}
			if kid.Kind != tree.KLeaf {
				walk(p, kid)
			}
		}
	}
	walk(nil, s)
	return
}

// count containers and lists present below c (what fc.max-node-count bounds)
func countNodes(s *tree.SNode, c *tree.Cont) int {
	n := 0
	for _, kid := range s.Kids {
		switch kid.Kind {
		case tree.KCont:
			if sub, ok := c.Conts[kid.Name]; ok {
				n += 1 + countNodes(kid, sub)
			}
		case tree.KList:
			if l, ok := c.Lists[kid.Name]; ok {
				n++
				for _, row := range l.Rows {
					n += countNodes(kid, row)
				}
			}
		}
	}
	return n
}

type c07gen struct {
	r     *gen.Rng
	t     c07target
	paths [][]string
	lists [][]string
}

func (g *c07gen) somePath() []string {
	if len(g.paths) == 0 || g.r.Chance(1, 12) {
		return []string{gen.Pick(g.r, []string{"zz", "nope"})}
	}
	p := gen.Pick(g.r, g.paths)
	if g.r.Chance(1, 15) {
		p = append(append([]string{}, p...), "zz") // below a leaf or unknown
	}
	return p
}

// an expression over the schema: single paths, alternatives, groups (a/(b;c), a/(b;c)/d, (a;b)/c)
func (g *c07gen) expr() *pexpr {
	r := g.r
	switch r.Intn(7) {
	case 0, 1:
		return xpathOf(g.somePath()...)
	case 2:
		return xalt(xpathOf(g.somePath()...), xpathOf(g.somePath()...))
	case 3:
		return xalt(xpathOf(g.somePath()...), xalt(xpathOf(g.somePath()...), xpathOf(g.somePath()...)))
	}
	// group: pick a path with at least 2 segments and branch at some level over siblings
	var deep [][]string
	for _, p := range g.paths {
		if len(p) >= 2 {
			deep = append(deep, p)
		}
	}
	if len(deep) == 0 {
		return xalt(xpathOf(g.somePath()...), xpathOf(g.somePath()...))
	}
	p := gen.Pick(r, deep)
	cut := 1 + r.Intn(len(p)-1) // branch after p[:cut]
	// siblings: other paths with the same prefix p[:cut] and length cut+1
	var sibs []string
	for _, q := range g.paths {
		if len(q) == cut+1 && strings.Join(q[:cut], "/") == strings.Join(p[:cut], "/") {
			sibs = append(sibs, q[cut])
		}
	}
	if len(sibs) == 0 {
		sibs = []string{p[cut]}
	}
	a, b := gen.Pick(r, sibs), gen.Pick(r, sibs)
	if r.Chance(1, 6) {
		b = "zz"
	}
	var group *pexpr
	if r.Chance(1, 3) && len(p) > cut+1 {
		// one alternative continues deeper: a/(b/c;d)
		group = xalt(xpathOf(p[cut:]...), xseg(b))
	} else {
		group = xalt(xseg(a), xseg(b))
	}
	var e *pexpr
	if r.Chance(1, 8) {
		// leading group: (a;b)/x
		e = xseq(xalt(xseg(p[0]), xseg(gen.Pick(r, g.paths)[0])), xpathOf(p[1:]...))
		return e
	}
	e = xseq(xpathOf(p[:cut]...), group)
	if r.Chance(1, 3) {
		// something after the group: a/(b;c)/x
		var tails []string
		for _, q := range g.paths {
			if len(q) == cut+2 && strings.Join(q[:cut], "/") == strings.Join(p[:cut], "/") {
				tails = append(tails, q[cut+1])
			}
		}
		if len(tails) > 0 {
			if r.Chance(1, 3) {
				// two groups: a/(b;c)/(x;y)
				e = xseq(e, xalt(xseg(gen.Pick(r, tails)), xseg(gen.Pick(r, tails))))
			} else {
				e = xseq(e, xseg(gen.Pick(r, tails)))
			}
		}
	}
	if r.Chance(1, 5) {
		e = xalt(e, xpathOf(g.somePath()...))
	}
	return e
}

func (g *c07gen) depth() qparam {
	return qparam{name: "depth", value: fmt.Sprint(1 + g.r.Intn(8)), kind: "depth"}
}
func (g *c07gen) content() qparam {
	return qparam{name: "content", value: gen.Pick(g.r, []string{"config", "nonconfig", "all"}), kind: "content"}
}
func (g *c07gen) withDefaults() qparam {
	return qparam{name: "with-defaults", value: gen.Pick(g.r, []string{"trim", "trim", "report-all"}), kind: "with-defaults"}
}
func (g *c07gen) fields() qparam {
	e := g.expr()
	return qparam{name: "fields", value: e.print(false), ast: e, kind: "fields"}
}
func (g *c07gen) xfields() qparam {
	e := g.expr()
	return qparam{name: "fc.xfields", value: e.print(false), ast: e, kind: "fc.xfields"}
}
func (g *c07gen) listLen(p []string) int {
	// length of the first instance of the list at schema path p below the target (0 if none)
	c, s := g.t.data, g.t.s
	for i, name := range p {
		k := s.KidIndex(name)
		if k < 0 {
			return 0
		}
		kid := s.Kids[k]
		switch kid.Kind {
		case tree.KCont:
			sub, ok := c.Conts[name]
			if !ok {
				return 0
			}
			c, s = sub, kid
		case tree.KList:
			l, ok := c.Lists[name]
			if !ok {
				return 0
			}
			if i == len(p)-1 {
				return len(l.Rows)
			}
			if len(l.Rows) == 0 {
				return 0
			}
			c, s = l.Rows[0], kid
		default:
			return 0
		}
	}
	return 0
}
func (g *c07gen) windowFor(p []string, w int) qparam {
	n := g.listLen(p)
	var st, en int
	open := false
	switch w {
	case 0:
		st, en = 0, 1
	case 1:
		st, en = 1, 3
	case 2:
		st, en = 2, 2 // empty
	case 3:
		st, en = 3, 1 // inverted
	case 4:
		st, open = 1, true
	case 5:
		st, en = n, n+2 // out of range
	case 6:
		st, en = 0, n
	case 7:
		st, en = n+5, n+9
	case 8:
		st, open = 0, true
	default:
		st = g.r.Intn(n + 2)
		en = st + g.r.Intn(4)
	}
	var e *pexpr
	if g.r.Chance(1, 6) && len(g.lists) > 1 {
		e = xalt(xpathOf(p...), xpathOf(gen.Pick(g.r, g.lists)...))
	} else {
		e = xpathOf(p...)
	}
	v := e.print(false) + "!" + fmt.Sprint(st)
	if open {
		if g.r.Bool() {
			v += "-"
		}
	} else {
		v += "-" + fmt.Sprint(en)
	}
	return qparam{name: "fc.range", value: v, ast: e, kind: "fc.range"}
}
func (g *c07gen) rangeP() qparam {
	p := []string{"zz"}
	if len(g.lists) > 0 && !g.r.Chance(1, 10) {
		p = gen.Pick(g.r, g.lists)
	}
	return g.windowFor(p, g.r.Intn(12))
}
func (g *c07gen) maxNode() qparam {
	c := g.t.nodes()
	v := gen.Pick(g.r, []int{0, 1, c - 1, c, c + 1, c / 2, 10000})
	if v < 0 {
		v = 0
	}
	return qparam{name: "fc.max-node-count", value: fmt.Sprint(v), kind: "fc.max-node-count"}
}

var c07Invalid = []qparam{
	{name: "depth", value: "0"}, {name: "depth", value: "abc"}, {name: "depth", value: "-1"}, {name: "depth", value: ""},
	{name: "depth", value: "2x"}, {name: "depth", value: " 2"}, {name: "depth", value: "99999999999999999999"},
	{name: "content", value: "bogus"}, {name: "content", value: ""}, {name: "content", value: "Config"},
	{name: "with-defaults", value: "explicit"}, {name: "with-defaults", value: "report-all-tagged"}, {name: "with-defaults", value: "xx"},
	{name: "fc.range", value: "q"}, {name: "fc.range", value: "q!x"}, {name: "fc.range", value: "q!1-x"}, {name: "fc.range", value: "q!1-2-3"},
	{name: "fc.range", value: "q!-1-2"}, {name: "fc.range", value: "q!"}, {name: "fc.range", value: "a/(b!1-2"},
	{name: "fields", value: "a/(b"}, {name: "fields", value: "a)b"}, {name: "fields", value: "a/(b;c))"}, {name: "fc.xfields", value: "(("},
	{name: "fc.max-node-count", value: "x"}, {name: "fc.max-node-count", value: "-3"}, {name: "fc.max-node-count", value: "1.5"},
}

// odd but accepted spellings
var c07Odd = []qparam{
	{name: "depth", value: "+3"}, {name: "depth", value: "007"}, {name: "fields", value: ""}, {name: "fc.xfields", value: ""},
	{name: "fields", value: "/"}, {name: "bogus", value: "1"}, {name: "fc.max-node-count", value: "+5"},
}

func (g *c07gen) byKind(k int) qparam {
	switch k {
	case 0:
		return g.depth()
	case 1:
		return g.content()
	case 2:
		return g.withDefaults()
	case 3:
		return g.fields()
	case 4:
		return g.xfields()
	case 5:
		return g.rangeP()
	}
	return g.maxNode()
}

const c07HandSchema = `module hand { namespace "urn:hand"; prefix h; revision 2020-01-01;
 leaf top { type string; }
 leaf dd { type int32; default 5; }
 leaf ro { type int32; config false; default 9; }
 container a {
   leaf x { type string; }
   leaf st { type string; config false; }
   container b { leaf x { type string; } leaf y { type string; default "why"; } container e { leaf z { type string; } container f { leaf w { type int8; default 3; } } } }
   container c { leaf x { type string; } leaf w { type string; } }
   container o { config false; leaf x { type string; } list r { key k; leaf k { type string; } leaf n { type uint8; } } }
 }
 list q { key k; leaf k { type string; } leaf v { type int32; default 7; } leaf s { type boolean; config false; }
   container c { leaf x { type string; } }
   list q2 { key k2; leaf k2 { type int32; } leaf v2 { type string; default "dflt"; } } }
 list p { key "k1 k2"; leaf k1 { type string; } leaf k2 { type uint8; } leaf-list ll { type string; } }
}`

// c07Prelude collects Gallina definitions shared by the cases of one run: the kids and the content
// at a target are emitted once (as `Definition c07k<i>` / `c07d<i>`) and referred to by name in
// the ~60 cases that query that target; this keeps the case files small (elaboration of the
// literals dominates the cost of classification).
var c07Prelude []string

func c07Shared(t c07target) (kidsName, dataName string) {
	i := len(c07Prelude) / 2
	kidsName, dataName = fmt.Sprintf("c07k%d", i), fmt.Sprintf("c07d%d", i)
	c07Prelude = append(c07Prelude,
		fmt.Sprintf("Definition %s : list snode := %s", kidsName, t.s.KidsTerm()),
		fmt.Sprintf("Definition %s : content := %s", dataName, t.data.ContentTerm(t.s)))
	return
}

func c07Case(ctx *core.Ctx, r *gen.Rng, m *meta.Module, root *tree.SNode, yang string, data *tree.Cont, t c07target, kidsName, dataName string, ps []qparam, label string) error {
	qs := queryString(r, ps)
	before := data.ContentTerm(root)
	capture := tree.NewCont()
	viaFind := r.Chance(1, 3) && t.path != ""
	var callErr error
	panicked := ""
	func() {
		defer func() {
			if rec := recover(); rec != nil {
				panicked = fmt.Sprintf("%v", rec)
			}
		}()
		b := node.NewBrowser(m, data.Node(root, nil, ""))
		var sel *node.Selection
		if viaFind {
			sel, callErr = b.Root().Find(t.path + "?" + qs)
		} else {
			sel = b.Root()
			if t.path != "" {
				if sel, callErr = sel.Find(t.path); callErr != nil || sel == nil {
					panicked = fmt.Sprintf("harness: target %q not found: %v", t.path, callErr)
					return
				}
			}
			sel, callErr = sel.Constrain(qs)
		}
		if callErr != nil {
			return
		}
		if sel == nil {
			panicked = "harness: nil selection without error"
			return
		}
		callErr = sel.UpsertInto(capture.Node(t.s, nil, ""))
	}()
	if strings.HasPrefix(panicked, "harness:") {
		return fmt.Errorf("c07: %s\n%s", panicked, yang)
	}
	unchanged := data.ContentTerm(root) == before
	var obs, obsDesc string
	switch {
	case panicked != "":
		obs, obsDesc = "ObsPanic", "panic: "+panicked
		ctx.Count("result:panic")
	case callErr != nil:
		obs, obsDesc = emit.App("ObsErr", c07ErrClass(callErr)), c07ErrClass(callErr)+": "+callErr.Error()
		ctx.Count("result:" + c07ErrClass(callErr))
	default:
		obs, obsDesc = emit.App("ObsOk", capture.ContentTerm(t.s)), capture.Desc(t.s)
		ctx.Count("result:ok")
		if capture.Size() < t.data.Size() {
			ctx.Count("result:ok-filtered")
		}
	}
	pairs := make([]string, len(ps))
	var asts []string
	seen := map[string]bool{}
	var kinds []string
	for i, p := range ps {
		pairs[i] = emit.Pair(emit.Str(p.name), emit.Str(p.value))
		if p.ast != nil && !seen[p.name] {
			asts = append(asts, emit.Pair(emit.Str(p.name), p.ast.term()))
		}
		seen[p.name] = true
		kinds = append(kinds, p.name)
	}
	term := emit.App("CRead", kidsName, dataName, emit.List(pairs), emit.List(asts), emit.Bool(unchanged), obs)
	call := "Constrain"
	if viaFind {
		call = "Find"
	}
	desc := map[string]interface{}{"yang": yang, "data": data.Desc(root), "target": t.path, "query": qs, "call": call,
		"target_content": t.data.Desc(t.s), "observed": obsDesc, "store_unchanged": unchanged, "stream": label}
	ctx.Add(term, desc, len(ps) > 0 && t.data.Size() > 0)
	ctx.Count("stream:" + label)
	ctx.Count("call:" + call)
	ctx.Count(fmt.Sprintf("params:%d", len(ps)))
	for _, k := range kinds {
		ctx.Count("param:" + k)
	}
	if t.path == "" {
		ctx.Count("target:root")
	} else if t.s.Kind == tree.KList {
		ctx.Count("target:list-entry")
	} else {
		ctx.Count("target:container")
	}
	return nil
}

// C07: query parameters return exactly the defined projection of the full read.
func C07(ctx *core.Ctx) error {
	ctx.Rule = "query = (schema: generated with lists, defaults, leaf-lists, config-false sub-trees, or the hand-written one with config-false leaves and nested lists) x data x target selection (root, container, list entry) x parameter string: every depth 1..8, every content value, with-defaults, field-path expressions enumerated over the schema (nested, alternatives, groups, unknown names) for fields and fc.xfields, on a chain of eight nested containers also with a group (2-3 alternatives, alternatives that go deeper, nested groups, a tail, a second group) behind a prefix of EVERY length 1..7 and random expression trees, the parser alone (ParsePathExpression + String) on expression trees with prefixes of 0..12 segments before / between / inside groups and on unbalanced strings, row windows (empty, inverted, open, out of range) on every list, fc.max-node-count around the container count, invalid values, all pairs and random triples of parameters; two spellings of the query string; via Constrain or Find(path?query); chains = the parameters given in 2-3 steps (Find(piece?q1) ... Find(rest?q2) / Constrain(q3), the path to the target split over the steps at random, steps without parameters included): a small depth or a tight fc.max-node-count first and another parameter later, the same parameter in two steps, a later depth, an invalid value in some step, random steps (fc.range in at most one step of a chain, except the two-windows chains: fc.range on the same list in two steps, known finding 1); list targets = the read starts at a LIST (not an entry) that holds rows (in a copy of the data whose first rows leave their leaves with a default unset): every depth 1..4(8), each parameter alone (windows with an empty selector naming the target list itself), pairs, chains; distinct by SHA-256 of the case term; non-trivial = at least one parameter and a non-empty target"
	ctx.ShardMax = 100000 // many small shards: the classification runs in parallel
	c07Prelude = nil
	defer func() {
		// core.Ctx writes Imports into "From YV Require Import Base.Verdict %s." of every shard:
		// the shared definitions ride behind the import list (the final '.' closes the last one)
		ctx.Imports = "Val.Model Tree.Schema Tree.PathExpr Tree.Params Tree.Chain Check.C07Check.\nImport ListNotations.\nOpen Scope Z_scope.\n" +
			strings.Join(c07Prelude, ".\n")
	}()
	r := gen.New(ctx.Seed)
	nSchemas := ctx.Scale(4, 20)
	targetsPer := ctx.Scale(2, 3)
	for n := 0; n < nSchemas; n++ {
		var yang string
		var m *meta.Module
		var root *tree.SNode
		var err error
		sr := r.Fork(uint64(n))
		if n == 0 {
			yang = c07HandSchema
			if m, err = parser.LoadModuleFromString(nil, yang); err != nil {
				return fmt.Errorf("hand schema: %v", err)
			}
			root = tree.Root(m)
		} else {
			opts := tree.GenOpts{MaxDepth: 3, MaxKids: 4, Lists: true, Defaults: true, LeafLists: true, ConfigMix: true,
				KeyTypes: []string{"string", "int32", "uint8", "enumeration { enum a; enum b; enum c; }"}}
			if yang, m, root, err = tree.GenSchema(sr, opts); err != nil {
				return fmt.Errorf("generated schema does not load: %v\n%s", err, yang)
			}
		}
		dr := r.Fork(uint64(1000 + n))
		data := tree.GenData(dr, root, 80, 4)
		targets := c07Targets(root, data)
		chosen := []c07target{targets[0]}
		for k := 1; k < targetsPer && len(targets) > 1; k++ {
			chosen = append(chosen, targets[1+dr.Intn(len(targets)-1)])
		}
		tgtTerms := make([]string, len(chosen))
		for ti, t := range chosen {
			g := &c07gen{r: dr.Fork(uint64(ti)), t: t}
			g.paths, g.lists = schemaPaths(t.s, 3)
			kidsName, dataName := c07Shared(t)
			tgtTerms[ti] = emit.App("TCont", kidsName, dataName)
			add := func(label string, ps ...qparam) error {
				return c07Case(ctx, g.r, m, root, yang, data, t, kidsName, dataName, ps, label)
			}
			// no parameters at all
			if err := add("none"); err != nil {
				return err
			}
			for d := 1; d <= 8; d++ {
				if err := add("depth", qparam{name: "depth", value: fmt.Sprint(d)}); err != nil {
					return err
				}
			}
			for _, c := range []string{"config", "nonconfig", "all"} {
				if err := add("content", qparam{name: "content", value: c}); err != nil {
					return err
				}
			}
			for _, c := range []string{"trim", "report-all"} {
				if err := add("with-defaults", qparam{name: "with-defaults", value: c}); err != nil {
					return err
				}
			}
			for i := 0; i < ctx.Scale(7, 20); i++ {
				if err := add("fields", g.fields()); err != nil {
					return err
				}
			}
			for i := 0; i < ctx.Scale(4, 12); i++ {
				if err := add("fc.xfields", g.xfields()); err != nil {
					return err
				}
			}
			// every single path of the schema once as fields (thorough) / a sample (quick)
			for i, p := range g.paths {
				if !ctx.Thorough() && i%4 != int(ctx.Seed%4) {
					continue
				}
				e := xpathOf(p...)
				if err := add("fields-path", qparam{name: "fields", value: e.print(false), ast: e}); err != nil {
					return err
				}
			}
			for li, lp := range g.lists {
				if li >= ctx.Scale(2, 6) {
					break
				}
				for w := 0; w < 9; w++ {
					if !ctx.Thorough() && w >= 4 && (w+ti+n)%2 == 0 {
						continue
					}
					if err := add("fc.range", g.windowFor(lp, w)); err != nil {
						return err
					}
				}
			}
			c := countNodes(t.s, t.data)
			for _, v := range []int{0, 1, c - 1, c, c + 1, 10000} {
				if v < 0 {
					continue
				}
				if err := add("fc.max-node-count", qparam{name: "fc.max-node-count", value: fmt.Sprint(v)}); err != nil {
					return err
				}
			}
			for i, p := range c07Invalid {
				if !ctx.Thorough() && (i+ti+n)%3 != int(ctx.Seed%3) {
					continue
				}
				// alone, or next to a valid parameter (the valid one must not win)
				if g.r.Bool() {
					err = add("invalid", p)
				} else {
					err = add("invalid", g.byKind(g.r.Intn(7)), p)
				}
				if err != nil {
					return err
				}
			}
			for i, p := range c07Odd {
				if !ctx.Thorough() && (i+ti+n)%3 != int(ctx.Seed%3) {
					continue
				}
				if err := add("odd", p); err != nil {
					return err
				}
			}
			// all pairs of parameter kinds
			for a := 0; a < 7; a++ {
				for b := a + 1; b < 7; b++ {
					pa, pb := g.byKind(a), g.byKind(b)
					if g.r.Bool() {
						pa, pb = pb, pa
					}
					if err := add("pair", pa, pb); err != nil {
						return err
					}
				}
			}
			// random triples (and a few with a repeated name: the first occurrence counts)
			for i := 0; i < ctx.Scale(8, 30); i++ {
				ks := []int{g.r.Intn(7), g.r.Intn(7), g.r.Intn(7)}
				if err := add("triple", g.byKind(ks[0]), g.byKind(ks[1]), g.byKind(ks[2])); err != nil {
					return err
				}
			}
			// everything at once
			if err := add("all7", g.byKind(0), g.byKind(1), g.byKind(2), g.byKind(3), g.byKind(4), g.byKind(5), g.byKind(6)); err != nil {
				return err
			}
		}
		// parameters applied in several steps on the way to / at the same targets, and a list as the
		// target of the read (c07chain.go); own random stream: the cases above do not depend on it
		xr := dr.Fork(0xC4A1)
		for ti, t := range chosen {
			g := &c07gen{r: xr.Fork(uint64(ti)), t: t}
			g.paths, g.lists = schemaPaths(t.s, 3)
			tgtTerm := tgtTerms[ti]
			addChain := func(label string, queries ...[]qparam) error {
				return c07ChainCase(ctx, g.r, m, root, yang, data, g.t, tgtTerm, queries, label)
			}
			if err := c07Chains(ctx, g, ctx.Scale(8, 16), addChain); err != nil {
				return err
			}
		}
		// own copy of the data: the first row of every list leaves its leaves with a default unset
		// (the full read of a list selection fills them in)
		ldata := c07UnsetDefaults(root, data)
		if lts := c07ListTargets(root, ldata); len(lts) > 0 {
			for k := 0; k < ctx.Scale(1, 2) && k < len(lts); k++ {
				t := lts[xr.Intn(len(lts))]
				if k == 0 {
					// the first one: a list whose rows hold something below them and leave a leaf with a
					// default unset (the full read of a list fills it in), when there is one
					for _, c := range lts {
						if c.listScore() > t.listScore() {
							t = c
						}
					}
				}
				g := &c07gen{r: xr.Fork(uint64(100 + k)), t: t}
				g.paths, g.lists = schemaPaths(t.s, 3)
				tgtTerm := c07SharedTarget(t)
				addChain := func(label string, queries ...[]qparam) error {
					return c07ChainCase(ctx, g.r, m, root, yang, ldata, g.t, tgtTerm, queries, label)
				}
				if err := c07ListTargetCases(ctx, g, addChain); err != nil {
					return err
				}
			}
		}
	}
	// own random streams, derived from the seed only: the cases above do not depend on them
	if err := c07DeepCases(ctx, gen.New(ctx.Seed*0x9E3779B97F4A7C15+0xDEE9)); err != nil {
		return err
	}
	c07ParseCases(ctx, gen.New(ctx.Seed*0x9E3779B97F4A7C15+0x9A45E))
	return nil
}
