package props

import "yvh/core"

var Registry = map[string]func(*core.Ctx) error{}
