package props

import (
	"fmt"
	"reflect"
	"strings"

	"github.com/freeconf/yang/meta"
	"github.com/freeconf/yang/node"
	"github.com/freeconf/yang/nodeutil"
	"github.com/freeconf/yang/parser"
	"github.com/freeconf/yang/val"

	"yvh/core"
	"yvh/emit"
	"yvh/gen"
)

// History stream of C17: ONE list selection (hence one live Reflect list node with its cached
// sorted key index) serves a sequence of keyed lookups, keyed deletes and upserts.  The list is a
// Go slice of struct values, of struct pointers or of maps, over every key type; after every
// request the rows actually held by the Go slice are read back by reflection.
//
//	find k t   : Node.Next(ListRequest{Key:k}) on the list selection's node; leaf v of the node that
//	             comes back is set to the fresh tag t (so "which entry did the lookup hand out" shows
//	             in the slice)
//	delete k   : the row is reached by iterating the same list selection (First/Next) and removed
//	             with Selection.Delete (which sends ListRequest{Key:k, Delete:true} to the list node);
//	             for an absent key the request is sent directly
//	upsert k t : list.UpsertFrom(one row {k, v:t})

type histRow struct {
	key []sval
	tag int64
}

var c17ElemKinds = []string{"[]T (struct values)", "[]*T (struct pointers)", "[]map[string]interface{}"}

func c17ListYang(kts []keyType) string {
	var ys strings.Builder
	ys.WriteString("module m { namespace \"urn:m\"; prefix m; list l { key \"")
	for i := range kts {
		if i > 0 {
			ys.WriteString(" ")
		}
		fmt.Fprintf(&ys, "k%d", i)
	}
	ys.WriteString("\";")
	for i, kt := range kts {
		semi := ";"
		if strings.HasSuffix(kt.yang, "}") {
			semi = ""
		}
		fmt.Fprintf(&ys, " leaf k%d { type %s%s }", i, kt.yang, semi)
	}
	ys.WriteString(" leaf v { type string; } } }")
	return ys.String()
}

// Go value of a key leaf as stored in the slice element -> sval of the prototype's format
func svalFromGo(proto sval, x reflect.Value) (sval, bool) {
	for x.IsValid() && x.Kind() == reflect.Interface {
		x = x.Elem()
	}
	if !x.IsValid() {
		return proto, false
	}
	out := sval{fmtName: proto.fmtName, kind: proto.kind}
	switch x.Kind() {
	case reflect.Int, reflect.Int8, reflect.Int16, reflect.Int32, reflect.Int64:
		if proto.kind != "int" {
			return proto, false
		}
		if proto.isUnsigned() {
			out.u = uint64(x.Int())
		} else {
			out.i = x.Int()
		}
	case reflect.Uint, reflect.Uint8, reflect.Uint16, reflect.Uint32, reflect.Uint64:
		if proto.kind != "int" {
			return proto, false
		}
		if proto.isUnsigned() {
			out.u = x.Uint()
		} else {
			out.i = int64(x.Uint())
		}
	case reflect.Float32, reflect.Float64:
		if proto.kind != "dec" {
			return proto, false
		}
		out.f = x.Float()
	case reflect.String:
		if proto.kind != "str" {
			return proto, false
		}
		out.s = x.String()
	default:
		return proto, false
	}
	return out, true
}

type histList struct {
	elem   int
	kts    []keyType
	protos []sval
	data   map[string]interface{}
	elemT  reflect.Type // struct type
}

func (h *histList) newElem(key []sval, tag int64) reflect.Value {
	if h.elem == 2 {
		e := map[string]interface{}{"v": fmt.Sprintf("t%d", tag)}
		for j, kt := range h.kts {
			e[fmt.Sprintf("k%d", j)] = kt.goV(key[j])
		}
		return reflect.ValueOf(e)
	}
	p := reflect.New(h.elemT)
	for j, kt := range h.kts {
		p.Elem().Field(j).Set(reflect.ValueOf(kt.goV(key[j])))
	}
	p.Elem().Field(len(h.kts)).SetString(fmt.Sprintf("t%d", tag))
	if h.elem == 1 {
		return p
	}
	return p.Elem()
}

// rows held by the Go slice right now
func (h *histList) read() (rows []histRow, problem string) {
	cur := reflect.ValueOf(h.data["l"])
	if !cur.IsValid() || cur.Kind() != reflect.Slice {
		return nil, "list is no longer a slice"
	}
	for i := 0; i < cur.Len(); i++ {
		e := cur.Index(i)
		for e.Kind() == reflect.Interface || e.Kind() == reflect.Ptr {
			if e.IsNil() {
				return nil, fmt.Sprintf("row %d is nil", i)
			}
			e = e.Elem()
		}
		row := histRow{key: make([]sval, len(h.kts)), tag: -1}
		var tagV reflect.Value
		for j := range h.kts {
			var f reflect.Value
			if e.Kind() == reflect.Map {
				f = e.MapIndex(reflect.ValueOf(fmt.Sprintf("k%d", j)))
			} else {
				f = e.Field(j)
			}
			v, ok := svalFromGo(h.protos[j], f)
			if !ok {
				return nil, fmt.Sprintf("row %d key leaf k%d unreadable", i, j)
			}
			row.key[j] = v
		}
		if e.Kind() == reflect.Map {
			tagV = e.MapIndex(reflect.ValueOf("v"))
		} else {
			tagV = e.Field(len(h.kts))
		}
		for tagV.IsValid() && tagV.Kind() == reflect.Interface {
			tagV = tagV.Elem()
		}
		if tagV.IsValid() && tagV.Kind() == reflect.String {
			var t int64
			if _, err := fmt.Sscanf(tagV.String(), "t%d", &t); err == nil {
				row.tag = t
			}
		}
		rows = append(rows, row)
	}
	return rows, ""
}

func histRowsTerm(rows []histRow) string {
	ts := make([]string, len(rows))
	for i, r := range rows {
		ts[i] = emit.Pair(keyTerm(r.key), emit.Z(r.tag))
	}
	return emit.List(ts)
}

func histRowsDesc(rows []histRow) []string {
	ts := make([]string, len(rows))
	for i, r := range rows {
		ts[i] = fmt.Sprintf("%s -> t%d", keyDesc(r.key), r.tag)
	}
	return ts
}

func goKey(k []sval) []val.Value {
	out := make([]val.Value, len(k))
	for i, v := range k {
		out[i] = v.goVal()
	}
	return out
}

type histOp struct {
	kind int // 0 find, 1 delete, 2 upsert
	key  []sval
	tag  int64
}

func (o histOp) term() string {
	switch o.kind {
	case 0:
		return emit.App("HFind", keyTerm(o.key), emit.Z(o.tag))
	case 1:
		return emit.App("HDel", keyTerm(o.key))
	}
	return emit.App("HUpsert", keyTerm(o.key), emit.Z(o.tag))
}

func (o histOp) desc() string {
	switch o.kind {
	case 0:
		return fmt.Sprintf("find %s and set v=t%d on the node found", keyDesc(o.key), o.tag)
	case 1:
		return fmt.Sprintf("delete %s", keyDesc(o.key))
	}
	return fmt.Sprintf("upsert %s v=t%d", keyDesc(o.key), o.tag)
}

// runs one request through the one list selection; code: 1 the lookup answered a node, 0 it did
// not (or not applicable), 3 error/panic
func (h *histList) apply(list *node.Selection, lm *meta.List, vLeaf meta.Leafable, o histOp) (code int, problem string) {
	defer func() {
		if r := recover(); r != nil {
			code, problem = 3, fmt.Sprintf("panic: %v", r)
		}
	}()
	req := node.ListRequest{Request: node.Request{Selection: list, Path: list.Path}, Meta: lm, Key: goKey(o.key)}
	switch o.kind {
	case 0:
		n, _, err := list.Node.Next(req)
		if err != nil {
			return 3, "error: " + err.Error()
		}
		if n == nil {
			return 0, ""
		}
		hnd := node.ValueHandle{Val: val.String(fmt.Sprintf("t%d", o.tag))}
		if err := n.Field(node.FieldRequest{Request: node.Request{Selection: list}, Meta: vLeaf, Write: true}, &hnd); err != nil {
			return 3, "error: " + err.Error()
		}
		return 1, ""
	case 1:
		rows, p := h.read()
		if p != "" {
			return 3, p
		}
		at := -1
		for i, r := range rows {
			if keyDesc(r.key) == keyDesc(o.key) {
				at = i
				break
			}
		}
		if at < 0 {
			req.Delete = true
			if _, _, err := list.Node.Next(req); err != nil {
				return 3, "error: " + err.Error()
			}
			return 0, ""
		}
		item, err := list.First()
		for j := 0; j < at && err == nil && item.Selection != nil; j++ {
			item, err = item.Next()
		}
		if err != nil {
			return 3, "error: " + err.Error()
		}
		if item.Selection == nil {
			return 3, "iteration ended before the row"
		}
		if err := item.Selection.Delete(); err != nil {
			return 3, "error: " + err.Error()
		}
		return 0, ""
	}
	src := map[string]interface{}{"v": fmt.Sprintf("t%d", o.tag)}
	for j, kt := range h.kts {
		src[fmt.Sprintf("k%d", j)] = kt.goV(o.key[j])
	}
	if err := list.UpsertFrom(nodeutil.Reflect{}.List([]map[string]interface{}{src})); err != nil {
		return 3, "error: " + err.Error()
	}
	return 0, ""
}

func c17History(ctx *core.Ctx, r *gen.Rng, count int) error {
	for n := 0; n < count; n++ {
		nk := 1 + r.Intn(2)
		h := &histList{elem: n % 3, kts: make([]keyType, nk), protos: make([]sval, nk)}
		fields := make([]reflect.StructField, 0, nk+1)
		for i := range h.kts {
			h.kts[i] = gen.Pick(r, c17KeyTypes)
			h.protos[i] = h.kts[i].mk(r)
			fields = append(fields, reflect.StructField{Name: fmt.Sprintf("K%d", i), Type: reflect.TypeOf(h.kts[i].goV(h.protos[i]))})
		}
		fields = append(fields, reflect.StructField{Name: "V", Type: reflect.TypeOf("")})
		h.elemT = reflect.StructOf(fields)
		yang := c17ListYang(h.kts)
		m, err := parser.LoadModuleFromString(nil, yang)
		if err != nil {
			return fmt.Errorf("c17 history schema: %w", err)
		}
		// key pool: the initial rows' keys plus a few others (absent at first, may be inserted later)
		nrows := 2 + r.Intn(6)
		var pool [][]sval
		seen := map[string]bool{}
		for tries := 0; len(pool) < nrows+3 && tries < 200; tries++ {
			k := make([]sval, nk)
			for i, kt := range h.kts {
				k[i] = kt.mk(r)
			}
			if seen[keyDesc(k)] {
				continue
			}
			seen[keyDesc(k)] = true
			pool = append(pool, k)
		}
		if nrows > len(pool) {
			nrows = len(pool)
		}
		tag := int64(0)
		var init []histRow
		var sliceT reflect.Type
		switch h.elem {
		case 0:
			sliceT = reflect.SliceOf(h.elemT)
		case 1:
			sliceT = reflect.SliceOf(reflect.PtrTo(h.elemT))
		default:
			sliceT = reflect.TypeOf([]map[string]interface{}{})
		}
		sl := reflect.MakeSlice(sliceT, 0, nrows)
		for i := 0; i < nrows; i++ {
			tag++
			init = append(init, histRow{key: pool[i], tag: tag})
			sl = reflect.Append(sl, h.newElem(pool[i], tag))
		}
		h.data = map[string]interface{}{"l": sl.Interface()}
		b := node.NewBrowser(m, nodeutil.ReflectChild(h.data))
		list, err := b.Root().Find("l")
		if err != nil || list == nil {
			return fmt.Errorf("c17 history: no list selection: %v", err)
		}
		lm := list.Meta().(*meta.List)
		vLeaf := meta.Find(lm, "v").(meta.Leafable)
		nops := 3 + r.Intn(6)
		var ops []histOp
		var obsT, opT []string
		var obsD []interface{}
		dels := 0
		for i := 0; i < nops; i++ {
			tag++
			o := histOp{kind: gen.Pick(r, []int{0, 0, 0, 0, 1, 1, 1, 2, 2}), key: gen.Pick(r, pool), tag: tag}
			if o.kind == 1 {
				dels++
			}
			code, problem := h.apply(list, lm, vLeaf, o)
			rows, p2 := h.read()
			if problem == "" && p2 != "" {
				code, problem = 3, p2
			}
			ops = append(ops, o)
			opT = append(opT, o.term())
			obsT = append(obsT, emit.Pair(emit.Z(int64(code)), histRowsTerm(rows)))
			d := map[string]interface{}{"op": o.desc(), "lookup_answered": code, "slice_after": histRowsDesc(rows)}
			if problem != "" {
				d["problem"] = problem
			}
			obsD = append(obsD, d)
			ctx.Count(fmt.Sprintf("hist:op%d", o.kind))
		}
		ctx.Add(emit.App("CHist", emit.Nat(h.elem), histRowsTerm(init), emit.List(opT), emit.List(obsT)),
			map[string]interface{}{"kind": "history", "impl": "nodeutil.Reflect list over " + c17ElemKinds[h.elem] + ", one live list selection",
				"yang": yang, "rows": histRowsDesc(init), "trace": obsD,
				"codes": "lookup_answered: 1 a node / 0 nil or not applicable / 3 error or panic"}, dels > 0 && nops > dels)
		ctx.Count(fmt.Sprintf("hist:elem%d", h.elem))
	}
	return nil
}
