package props

import (
	"fmt"
	"sort"
	"strings"

	"github.com/freeconf/yang/meta"
	"github.com/freeconf/yang/parser"

	"yvh/core"
	"yvh/emit"
	"yvh/gen"
)

// C11 part (iii): deviations through parser.LoadModuleFromString. One module per case:
//   container c { leaf s0; <target x>; leaf sib {...} }  deviation /c/x { ... }
// The same module without the deviation is loaded as the baseline for "nothing else changes".
// Second layout (applyDeviation runs after the groupings are expanded, and a uses clones the
// grouping's definitions shallowly): the three leaves/target are declared in  grouping g  and
//   container c { uses g; }  container c2 { uses g; }  deviation /c/x  (or /c2/x)
// The copy of x in the other container is a node no deviation names: its record is given to Coq
// (it must still be what the grouping declares), the other children of both containers and the
// multi-valued statements of the grouping itself are compared with the baseline load.

type c11Props struct {
	config, mandatory *bool
	min, max          *int
	musts             []string
	units             string
	defaults          []string // nil = none
	unique            [][]string
	typ               string
}

func c11OptBool(p *bool) string {
	if p == nil {
		return "None"
	}
	return emit.Some(emit.Bool(*p))
}
func c11OptInt(p *int) string {
	if p == nil {
		return "None"
	}
	return emit.Some(emit.Z(int64(*p)))
}
func c11OptTexts(xs []string) string {
	if xs == nil {
		return "None"
	}
	return emit.Some(c11TextList(xs))
}
func c11Uniques(us [][]string) string {
	ts := make([]string, len(us))
	for i, u := range us {
		ts[i] = c11TextList(u)
	}
	return emit.List(ts)
}

func (p *c11Props) term() string {
	return emit.App("mkProps", c11OptBool(p.config), c11OptBool(p.mandatory), c11OptInt(p.min), c11OptInt(p.max),
		c11TextList(p.musts), emit.Str(p.units), c11OptTexts(p.defaults), c11Uniques(p.unique), emit.Str(p.typ))
}

type c11Args struct {
	c11Props
	hasType bool
}

func (a *c11Args) term() string {
	t := "None"
	if a.hasType {
		t = emit.Some(emit.Str(a.typ))
	}
	return emit.App("mkArgs", c11OptBool(a.config), c11OptBool(a.mandatory), c11OptInt(a.min), c11OptInt(a.max),
		c11TextList(a.musts), emit.Str(a.units), c11OptTexts(a.defaults), c11Uniques(a.unique), t)
}

func (a *c11Args) yang() string {
	var b strings.Builder
	if a.hasType {
		fmt.Fprintf(&b, "type %s; ", a.typ)
	}
	if a.config != nil {
		fmt.Fprintf(&b, "config %v; ", *a.config)
	}
	if a.mandatory != nil {
		fmt.Fprintf(&b, "mandatory %v; ", *a.mandatory)
	}
	if a.min != nil {
		fmt.Fprintf(&b, "min-elements %d; ", *a.min)
	}
	if a.max != nil {
		fmt.Fprintf(&b, "max-elements %d; ", *a.max)
	}
	for _, m := range a.musts {
		fmt.Fprintf(&b, "must \"%s\"; ", m)
	}
	if a.units != "" {
		fmt.Fprintf(&b, "units %s; ", a.units)
	}
	for _, d := range a.defaults {
		fmt.Fprintf(&b, "default %s; ", d)
	}
	for _, u := range a.unique {
		fmt.Fprintf(&b, "unique \"%s\"; ", strings.Join(u, " "))
	}
	return b.String()
}

var c11Kinds = []string{"leaf", "leaf-list", "list", "container"}

func c11TargetYang(kind string, p *c11Props) string {
	a := &c11Args{c11Props: *p}
	body := a.yang()
	switch kind {
	case "leaf":
		return fmt.Sprintf("leaf x { type %s; %s}", p.typ, body)
	case "leaf-list":
		return fmt.Sprintf("leaf-list x { type %s; %s}", p.typ, body)
	case "list":
		return fmt.Sprintf("list x { key k; %sleaf k { type string; } leaf u { type string; } leaf v { type string; } leaf w { type string; } }", body)
	}
	return fmt.Sprintf("container x { %sleaf in { type string; } }", body)
}

type c11Dev struct {
	notSupported   bool
	add, repl, del *c11Args
}

func (d *c11Dev) yang() string {
	if d.notSupported {
		return "deviate not-supported;"
	}
	var b strings.Builder
	if d.add != nil {
		fmt.Fprintf(&b, "deviate add { %s} ", d.add.yang())
	}
	if d.repl != nil {
		fmt.Fprintf(&b, "deviate replace { %s} ", d.repl.yang())
	}
	if d.del != nil {
		fmt.Fprintf(&b, "deviate delete { %s} ", d.del.yang())
	}
	return b.String()
}

func (d *c11Dev) term() string {
	o := func(a *c11Args) string {
		if a == nil {
			return "None"
		}
		return emit.Some(a.term())
	}
	return emit.App("mkDev", emit.Bool(d.notSupported), o(d.add), o(d.repl), o(d.del))
}

const (
	c11Direct  = 0 // x declared in container c
	c11GroupC  = 1 // x declared in grouping g, used in c and c2, the deviation names /c/x
	c11GroupC2 = 2 // same, the deviation names /c2/x (the second expansion)
)

var c11LayoutName = []string{"direct", "grouping used twice, first copy named", "grouping used twice, second copy named"}

// index (among the module's data definitions) of the container holding the named target
func c11TargetContainer(layout int) int {
	if layout == c11GroupC2 {
		return 1
	}
	return 0
}

func c11Module(layout int, kind string, p *c11Props, d *c11Dev) string {
	dev := ""
	if d != nil {
		dev = " deviation /" + []string{"c", "c", "c2"}[layout] + "/x { " + d.yang() + "}\n"
	}
	body := "  leaf s0 { type string; }\n  " + c11TargetYang(kind, p) + "\n  leaf sib { type string; units s; default d; must \"1\"; }\n"
	head := "module m { namespace \"urn:m\"; prefix p; revision 2020-01-01;\n"
	if layout == c11Direct {
		return head + " container c {\n" + body + " }\n" + dev + "}\n"
	}
	return head + " grouping g {\n" + body + " }\n container c { uses g; }\n container c2 { uses g; }\n" + dev + "}\n"
}

// record of a compiled definition, as text (for the baseline comparison) and as props
func c11Record(d meta.Definition) (*c11Props, string) {
	p := &c11Props{}
	if h, ok := d.(meta.HasDetails); ok {
		c := h.Config()
		p.config = &c
		if h.IsMandatorySet() {
			m := h.Mandatory()
			p.mandatory = &m
		}
	}
	if h, ok := d.(meta.HasListDetails); ok {
		if h.IsMinElementsSet() {
			v := h.MinElements()
			p.min = &v
		}
		if h.IsMaxElementsSet() {
			v := h.MaxElements()
			p.max = &v
		}
	}
	if h, ok := d.(meta.HasMusts); ok {
		for _, m := range h.Musts() {
			p.musts = append(p.musts, m.Expression())
		}
	}
	if h, ok := d.(meta.Leafable); ok {
		p.units = h.Units()
		p.typ = h.Type().Ident()
		if hv, ok := d.(meta.HasDefaultValues); ok {
			if dv := hv.Default(); dv != nil {
				p.defaults = append([]string{}, dv...)
			}
		} else if h.HasDefault() {
			p.defaults = []string{d.(meta.HasDefaultValue).Default()}
		}
	}
	if l, ok := d.(*meta.List); ok {
		for _, u := range l.Unique() {
			e := append([]string{}, u...)
			sort.Strings(e) // a unique entry is a set of leaves
			p.unique = append(p.unique, e)
		}
	}
	return p, fmt.Sprintf("%T|%s", d, p.term())
}

// children of the idx-th top-level container: names in order and their records
func c11Children(m *meta.Module, idx int) ([]string, map[string]string, map[string]*c11Props) {
	c := m.DataDefinitions()[idx].(meta.HasDataDefinitions)
	var names []string
	recs := map[string]string{}
	props := map[string]*c11Props{}
	for _, d := range c.DataDefinitions() {
		names = append(names, d.Ident())
		p, s := c11Record(d)
		recs[d.Ident()] = s
		props[d.Ident()] = p
	}
	return names, recs, props
}

// the statements of grouping g as written (a grouping is never compiled: config and type are not
// resolved there, so only what the parser stored is read)
func c11GroupingRecord(m *meta.Module) (rec string) {
	defer func() {
		if r := recover(); r != nil {
			rec = fmt.Sprintf("panic reading grouping g: %v", r)
		}
	}()
	g := m.Groupings()["g"]
	if g == nil {
		return "no grouping g"
	}
	var b strings.Builder
	for _, d := range g.DataDefinitions() {
		fmt.Fprintf(&b, "%s %T", d.Ident(), d)
		if h, ok := d.(meta.HasListDetails); ok {
			fmt.Fprintf(&b, " min=%v/%d max=%v/%d", h.IsMinElementsSet(), h.MinElements(), h.IsMaxElementsSet(), h.MaxElements())
		}
		if h, ok := d.(meta.HasMusts); ok {
			for _, x := range h.Musts() {
				fmt.Fprintf(&b, " must=%q", x.Expression())
			}
		}
		if h, ok := d.(meta.Leafable); ok {
			fmt.Fprintf(&b, " units=%q", h.Units())
			if hv, ok := d.(meta.HasDefaultValues); ok {
				fmt.Fprintf(&b, " defaults=%q", hv.Default())
			} else if h.HasDefault() {
				fmt.Fprintf(&b, " default=%q", d.(meta.HasDefaultValue).Default())
			}
		}
		if l, ok := d.(*meta.List); ok {
			for _, u := range l.Unique() {
				e := append([]string{}, u...)
				sort.Strings(e)
				fmt.Fprintf(&b, " unique=%q", e)
			}
		}
		b.WriteString("; ")
	}
	return b.String()
}

func c11Load(src string) (m *meta.Module, code int, note string) {
	defer func() {
		if r := recover(); r != nil {
			m, code, note = nil, 2, fmt.Sprintf("panic: %v", r)
		}
	}()
	m, err := parser.LoadModuleFromString(nil, src)
	if err != nil {
		return nil, 1, err.Error()
	}
	return m, 0, ""
}

func bp(b bool) *bool { return &b }
func ip(i int) *int   { return &i }

var c11Units = []string{"cm", "mm", "s"}
var c11Defs = []string{"5", "6", "7"}
var c11Musts = []string{"a", "b", "m"}
var c11Uniq = [][]string{{"u", "v"}, {"w"}, {"u"}, {"v", "w"}}

func c11RandProps(r *gen.Rng, kind string) *c11Props {
	p := &c11Props{}
	if r.Chance(1, 2) {
		p.config = bp(r.Chance(2, 3))
	}
	for _, m := range c11Musts {
		if r.Chance(1, 3) {
			p.musts = append(p.musts, m)
		}
	}
	if r.Chance(1, 6) && len(p.musts) > 0 {
		p.musts = append(p.musts, p.musts[0]) // a repeated must
	}
	switch kind {
	case "leaf":
		p.typ = "string"
		if r.Chance(1, 2) {
			p.units = gen.Pick(r, c11Units)
		}
		if r.Chance(1, 2) {
			p.defaults = []string{gen.Pick(r, c11Defs)}
		}
		if r.Chance(1, 2) {
			p.mandatory = bp(p.defaults == nil && r.Chance(1, 2))
		}
	case "leaf-list":
		p.typ = "string"
		if r.Chance(1, 2) {
			p.units = gen.Pick(r, c11Units)
		}
		if r.Chance(1, 2) {
			for _, d := range c11Defs {
				if r.Chance(1, 2) {
					p.defaults = append(p.defaults, d)
				}
			}
		}
	case "list":
		for _, u := range c11Uniq[:2+r.Intn(3)] {
			if r.Chance(1, 2) {
				p.unique = append(p.unique, u)
			}
		}
	}
	if kind == "leaf-list" || kind == "list" {
		if r.Chance(1, 2) && p.defaults == nil {
			p.min = ip(1 + r.Intn(2))
		}
		if r.Chance(1, 2) {
			p.max = ip(5 + r.Intn(4))
		}
	}
	return p
}

// the properties a deviate statement of the given kind may legally name on the node kind
func c11Legal(dk, kind string) []string {
	leafy := kind == "leaf" || kind == "leaf-list"
	listy := kind == "leaf-list" || kind == "list"
	var fs []string
	switch dk {
	case "add":
		fs = []string{"config", "musts"}
		if kind == "leaf" {
			fs = append(fs, "mandatory")
		}
		if listy {
			fs = append(fs, "min", "max")
		}
		if leafy {
			fs = append(fs, "units", "default")
		}
		if kind == "list" {
			fs = append(fs, "unique")
		}
	case "replace":
		fs = []string{"config"}
		if kind == "leaf" {
			fs = append(fs, "mandatory")
		}
		if listy {
			fs = append(fs, "min", "max")
		}
		if leafy {
			fs = append(fs, "units", "default", "type")
		}
	case "delete":
		fs = []string{"musts"}
		if leafy {
			fs = append(fs, "units", "default")
		}
		if kind == "list" {
			fs = append(fs, "unique")
		}
	}
	return fs
}

func c11RandArgs(r *gen.Rng, dk, kind string, cur *c11Props) *c11Args {
	a := &c11Args{}
	fs := c11Legal(dk, kind)
	n := 1
	if r.Chance(1, 4) {
		n = 2
	}
	for i := 0; i < n; i++ {
		f := gen.Pick(r, fs)
		match := r.Chance(2, 3) // aim at the legal precondition
		switch f {
		case "config":
			a.config = bp(r.Bool())
		case "mandatory":
			a.mandatory = bp(r.Chance(1, 3) && cur.defaults == nil)
		case "min":
			a.min = ip(1 + r.Intn(2))
		case "max":
			a.max = ip(3 + r.Intn(5))
		case "musts":
			if dk == "delete" && match && len(cur.musts) > 0 {
				a.musts = []string{gen.Pick(r, cur.musts)}
			} else {
				a.musts = []string{gen.Pick(r, c11Musts)}
				if r.Chance(1, 4) {
					a.musts = append(a.musts, gen.Pick(r, c11Musts))
				}
			}
		case "units":
			if dk == "delete" && match && cur.units != "" {
				a.units = cur.units
			} else {
				a.units = gen.Pick(r, c11Units)
			}
		case "default":
			if dk == "delete" && match && len(cur.defaults) > 0 {
				a.defaults = []string{gen.Pick(r, cur.defaults)}
				if kind == "leaf-list" && r.Chance(1, 3) {
					a.defaults = append([]string{}, cur.defaults...)
				}
			} else {
				a.defaults = []string{gen.Pick(r, c11Defs)}
				if kind == "leaf-list" && r.Chance(1, 3) {
					a.defaults = append(a.defaults, gen.Pick(r, c11Defs))
				}
			}
		case "unique":
			if dk == "delete" && match && len(cur.unique) > 0 {
				u := append([]string{}, gen.Pick(r, cur.unique)...)
				if len(u) == 2 && r.Bool() {
					u[0], u[1] = u[1], u[0] // same set, other order
				}
				a.unique = [][]string{u}
			} else {
				a.unique = [][]string{gen.Pick(r, c11Uniq)}
			}
		case "type":
			a.hasType, a.typ = true, "int32"
		}
	}
	return a
}

// multi-valued statements filled in (>= 2 musts, >= 2 defaults on a leaf-list, >= 2 unique entries
// on a list): the properties a deviation edits element by element
func c11RichProps(r *gen.Rng, kind string) *c11Props {
	p := c11RandProps(r, kind)
	for _, m := range c11Musts {
		if len(p.musts) >= 2 {
			break
		}
		has := false
		for _, x := range p.musts {
			has = has || x == m
		}
		if !has {
			p.musts = append(p.musts, m)
		}
	}
	switch kind {
	case "leaf-list":
		if r.Chance(3, 4) {
			p.min = nil // min-elements and default exclude each other
		}
		if p.min == nil {
			n := 2 + r.Intn(2)
			at := r.Intn(len(c11Defs))
			p.defaults = nil
			for j := 0; j < n; j++ {
				p.defaults = append(p.defaults, c11Defs[(at+j)%len(c11Defs)])
			}
		}
	case "list":
		if len(p.unique) < 2 {
			at := r.Intn(len(c11Uniq))
			p.unique = [][]string{c11Uniq[at], c11Uniq[(at+1+r.Intn(3))%len(c11Uniq)]}
		}
	}
	return p
}

func c11RandDev(r *gen.Rng, kind string, p *c11Props, deleteBias bool) (*c11Dev, string) {
	d := &c11Dev{}
	x := r.Intn(20)
	if deleteBias && x < 13 && r.Chance(2, 3) {
		x = 13 + r.Intn(7) // delete, or add+delete(+replace)
	}
	switch {
	case x < 2:
		d.notSupported = true
		return d, "not-supported"
	case x < 8:
		d.add = c11RandArgs(r, "add", kind, p)
		return d, "add"
	case x < 13:
		d.repl = c11RandArgs(r, "replace", kind, p)
		return d, "replace"
	case x < 18:
		d.del = c11RandArgs(r, "delete", kind, p)
		return d, "delete"
	}
	d.add, d.del = c11RandArgs(r, "add", kind, p), c11RandArgs(r, "delete", kind, p)
	if r.Bool() {
		d.repl = c11RandArgs(r, "replace", kind, p)
		return d, "add+replace+delete"
	}
	return d, "add+delete"
}

func c11DeviateCases(ctx *core.Ctx, r *gen.Rng) {
	lr := r.Fork(1) // layout stream
	n := ctx.Scale(260, 5000)
	for i := 0; i < n; i++ {
		kind := c11Kinds[i%4]
		p := c11RandProps(r, kind)
		d, dkind := c11RandDev(r, kind, p, false)
		layout := c11Direct
		if lr.Chance(1, 3) {
			layout = c11GroupC + lr.Intn(2)
		}
		c11DeviateCase(ctx, layout, kind, p, d, dkind)
	}
	// copies of one grouping: multi-valued properties, deviations that take single elements out
	sr := r.Fork(2)
	sk := []string{"leaf-list", "list", "leaf-list", "leaf", "leaf-list", "list", "container", "leaf-list"}
	n = ctx.Scale(140, 3000)
	for i := 0; i < n; i++ {
		kind := sk[i%len(sk)]
		p := c11RichProps(sr, kind)
		d, dkind := c11RandDev(sr, kind, p, true)
		c11DeviateCase(ctx, c11GroupC+sr.Intn(2), kind, p, d, dkind)
	}
}

func c11DeviateCase(ctx *core.Ctx, layout int, kind string, p *c11Props, d *c11Dev, dkind string) {
	kc := map[string]int{"leaf": 0, "leaf-list": 1, "list": 2, "container": 3}[kind]
	grouped := layout != c11Direct
	cons := "CDeviate"
	if grouped {
		cons = "CDeviateCopy"
	}
	tail := func(args ...string) []string { // the copy observation exists only in the grouping layouts
		if grouped {
			return args
		}
		return args[:len(args)-1]
	}
	baseSrc := c11Module(layout, kind, p, nil)
	base, bcode, bnote := c11Load(baseSrc)
	if bcode != 0 {
		// the module without the deviation must load; reported as an observation nothing can agree with
		ctx.Add(emit.App(cons, tail(emit.Z(int64(kc)), p.term(), d.term(), emit.Z(int64(3)), "false", "false", (&c11Props{}).term(), "None")...),
			map[string]interface{}{"kind": "deviate", "node": kind, "deviate": dkind, "layout": c11LayoutName[layout], "yang": baseSrc,
				"note": "the module WITHOUT the deviation does not load: " + bnote}, true)
		ctx.Count("deviate:baseline does not load")
		return
	}
	tc := c11TargetContainer(layout)
	src := c11Module(layout, kind, p, d)
	m, code, note := c11Load(src)
	removed, othersOK := false, false
	obs := &c11Props{}
	copyTerm := "None"
	var changed []string
	if code == 0 {
		// the container of the named target: the other children, in order, unchanged
		bnames, brecs, _ := c11Children(base, tc)
		names, recs, props := c11Children(m, tc)
		_, present := recs["x"]
		removed = !present
		var want []string
		for _, nm := range bnames {
			if nm != "x" || present {
				want = append(want, nm)
			}
		}
		othersOK = strings.Join(want, ",") == strings.Join(names, ",")
		if !othersOK {
			changed = append(changed, fmt.Sprintf("children of the target's container: %v, expected %v", names, want))
		}
		for _, nm := range names {
			if nm != "x" && recs[nm] != brecs[nm] {
				othersOK = false
				changed = append(changed, fmt.Sprintf("%s: %s, was %s", nm, recs[nm], brecs[nm]))
			}
		}
		if present {
			obs = props["x"]
		}
		if grouped {
			// the other container: same children; its x goes to Coq, the rest against the baseline
			oc := 1 - tc
			obnames, obrecs, _ := c11Children(base, oc)
			onames, orecs, oprops := c11Children(m, oc)
			if strings.Join(obnames, ",") != strings.Join(onames, ",") {
				othersOK = false
				changed = append(changed, fmt.Sprintf("children of the other container: %v, expected %v", onames, obnames))
			}
			for _, nm := range onames {
				if nm != "x" && orecs[nm] != obrecs[nm] {
					othersOK = false
					changed = append(changed, fmt.Sprintf("other container/%s: %s, was %s", nm, orecs[nm], obrecs[nm]))
				}
			}
			if cp, ok := oprops["x"]; ok {
				copyTerm = emit.Some(cp.term())
				if orecs["x"] != obrecs["x"] {
					changed = append(changed, fmt.Sprintf("the copy of x no deviation names: %s, was %s", orecs["x"], obrecs["x"]))
				}
			}
			if g, bg := c11GroupingRecord(m), c11GroupingRecord(base); g != bg {
				othersOK = false
				changed = append(changed, fmt.Sprintf("grouping g: %s, was %s", g, bg))
			}
		}
	}
	desc := map[string]interface{}{"kind": "deviate", "node": kind, "deviate": dkind, "layout": c11LayoutName[layout], "yang": src,
		"observed_code": code, "note": note, "removed": removed, "others_unchanged": othersOK, "codes": "0 loaded / 1 load error / 2 panic"}
	if len(changed) > 0 {
		desc["changed_although_not_named"] = changed
	}
	ctx.Add(emit.App(cons, tail(emit.Z(int64(kc)), p.term(), d.term(), emit.Z(int64(code)), emit.Bool(removed), emit.Bool(othersOK), obs.term(), copyTerm)...),
		desc, true)
	ctx.Count("deviate:" + kind + ":" + dkind)
	ctx.Count("deviate:layout " + c11LayoutName[layout])
	ctx.Count(fmt.Sprintf("deviate:code%d", code))
	if grouped && code == 0 && d.del != nil && len(p.defaults) >= 2 && len(d.del.defaults) > 0 && d.del.defaults[0] != p.defaults[len(p.defaults)-1] {
		ctx.Count("deviate:copies:delete of a default that is not the last of >=2")
	}
	if grouped && code == 0 && d.del != nil && (len(d.del.musts) > 0 && len(p.musts) >= 2 || len(d.del.unique) > 0 && len(p.unique) >= 2) {
		ctx.Count("deviate:copies:delete of one of >=2 musts/unique entries")
	}
}
