package props

// C13 - no request content can crash the library once the schema is valid.
//
// For every world (valid schema + conforming data in the reference store tree.Cont) request streams are
// generated (c13_streams.go), each request is executed by a worker sub-process (c13_worker.go) against a
// fresh clone of the store inside recover and under a wall-clock limit, and the outcome class
// Ok | Err | Panic(top library frame) | Timeout | Fatal together with "the data stored before is still
// readable and there" is emitted as a Gallina case. Check/C13Check.v decides: the spec (outcome is Ok or
// Err, store preserved) for every request, and for the modelled request kinds (URL path parsing, JSON
// reader shape dispatch, path-expression matching, XPath lexing) that the executable model of Req/*.v
// predicts the observed outcome class. Find is also started at selections below the root (stream c13Rel: leading
// "../" steps, a relative path, a "?query" of every short length): the model find_rel walks the chain of parent
// selections and cuts the query after the "../" steps, and the worker makes the same Find without the query so that
// Check/C13Check.v can hold "a query naming no known parameter does not change what Find returns".

import (
	"bufio"
	"encoding/json"
	"fmt"
	"io"
	"os"
	"os/exec"
	"sort"
	"strings"
	"sync"
	"time"

	"github.com/freeconf/yang/meta"
	"github.com/freeconf/yang/val"

	"yvh/core"
	"yvh/emit"
	"yvh/gen"
	"yvh/tree"
)

func init() { Registry["C13"] = C13 }

var c13Kinds = []string{"json", "xml", "path", "query", "xpath", "xparse", "set", "match"}

func c13KindID(k string) int {
	for i, n := range c13Kinds {
		if n == k {
			return i
		}
	}
	panic("c13: unknown kind " + k)
}

// ---- Gallina terms of the model inputs -------------------------------------------------------------

func c13Guard(g [][2]int) string {
	items := make([]string, len(g))
	for i, p := range g {
		items[i] = emit.Pair(emit.Nat(p[0]), emit.Nat(p[1]))
	}
	return emit.List(items)
}

func c13KeyTy(s *tree.SNode) string {
	if s.Kind != tree.KLeaf || s.IsList {
		return "KtOther"
	}
	switch s.Leafable().Type().Format() {
	case val.FmtString:
		return "KtStr"
	case val.FmtInt8:
		return "(KtInt true (-128) 127)"
	case val.FmtInt16:
		return "(KtInt true (-32768) 32767)"
	case val.FmtInt32:
		return "(KtInt true (-2147483648) 2147483647)"
	case val.FmtInt64:
		return "(KtInt true (-9223372036854775808) 9223372036854775807)"
	case val.FmtUInt8:
		return "(KtInt false 0 255)"
	case val.FmtUInt16:
		return "(KtInt false 0 65535)"
	case val.FmtUInt32:
		return "(KtInt false 0 4294967295)"
	case val.FmtUInt64:
		return "(KtInt false 0 18446744073709551615)"
	}
	return "KtOther"
}

// c13Terminals: the nodes below s that hold no definitions and that the flat view leaves out: anydata / anyxml
// ("any") and actions / rpcs ("action"), in a fixed order. In the skeleton they are SkLeaf entries after the kids.
func c13Terminals(s *tree.SNode) (names []string, kinds []string) {
	if hd, ok := s.Def.(meta.HasDataDefinitions); ok {
		for _, d := range hd.DataDefinitions() {
			if _, isAny := d.(*meta.Any); isAny {
				names, kinds = append(names, d.Ident()), append(kinds, "any")
			}
		}
	}
	if ha, ok := s.Def.(meta.HasActions); ok {
		var as []string
		for a := range ha.Actions() {
			as = append(as, a)
		}
		sort.Strings(as)
		for _, a := range as {
			names, kinds = append(names, a), append(kinds, "action")
		}
	}
	return
}

func c13Kids(s *tree.SNode) string {
	t := "SNil"
	if s.Kind != tree.KLeaf {
		tn, _ := c13Terminals(s)
		for i := len(tn) - 1; i >= 0; i-- {
			t = "(SCons " + emit.App("SkLeaf", emit.Str(tn[i]), "[]", "false", "KtOther") + " " + t + ")"
		}
	}
	for i := len(s.Kids) - 1; i >= 0; i-- {
		t = "(SCons " + c13Sk(s.Kids[i]) + " " + t + ")"
	}
	return t
}

func c13ChoiceNames(s *tree.SNode) string {
	var items []string
	for _, c := range s.Choices {
		items = append(items, emit.Str(c.Ident()))
		// case names are not indexed in the enclosing node, only the choice and the nodes below it
	}
	return emit.List(items)
}

func c13Sk(s *tree.SNode) string {
	switch s.Kind {
	case tree.KLeaf:
		return emit.App("SkLeaf", emit.Str(s.Name), c13Guard(s.Guard), emit.Bool(s.IsList), c13KeyTy(s))
	case tree.KCont:
		return emit.App("SkCont", emit.Str(s.Name), c13Guard(s.Guard), c13ChoiceNames(s), c13Kids(s))
	}
	keys := make([]string, len(s.Keys))
	for i, k := range s.Keys {
		keys[i] = emit.Nat(k)
	}
	return emit.App("SkList", emit.Str(s.Name), c13Guard(s.Guard), c13ChoiceNames(s), emit.List(keys), c13Kids(s))
}

func c13Jv(v interface{}, budget *int) string {
	*budget--
	switch x := v.(type) {
	case nil:
		return "JNull"
	case bool:
		return "JBool"
	case float64, json.Number:
		return "JNum"
	case string:
		return "JStr"
	case []interface{}:
		t := "JVNil"
		for i := len(x) - 1; i >= 0; i-- {
			t = "(JVCons " + c13Jv(x[i], budget) + " " + t + ")"
		}
		return "(JArr " + t + ")"
	case map[string]interface{}:
		names := make([]string, 0, len(x))
		for k := range x {
			names = append(names, k)
		}
		sort.Strings(names)
		t := "JMNil"
		for i := len(names) - 1; i >= 0; i-- {
			t = "(JMCons " + emit.Str(names[i]) + " " + c13Jv(x[names[i]], budget) + " " + t + ")"
		}
		return "(JObj " + t + ")"
	}
	return "JNull"
}

func c13Idents(xs []string) string {
	items := make([]string, len(xs))
	for i, x := range xs {
		items[i] = emit.Str(x)
	}
	return emit.List(items)
}

// model input of a request, "MNone" when the request kind (or this instance) is search-only
func c13ModelInput(w *c13World, rq *c13Req) (term string, modelled bool) {
	wname := fmt.Sprintf("c13w%d", w.Idx)
	switch rq.Kind {
	case "path":
		if rq.At != "" {
			if len(rq.Text) < 600 {
				return emit.App("MRel", wname, c13Idents(rq.AtNames), emit.Bool(rq.AtRow), emit.Str(rq.Text)), true
			}
			return "MNone", false
		}
		if !strings.Contains(rq.Text, "?") && len(rq.Text) < 600 {
			return emit.App("MPath", wname, emit.Str(rq.Text)), true
		}
	case "json":
		if rq.At != "" || rq.Tag == "json-insert" || rq.Tag == "json-update" || rq.Tag == "json-replace" || len(rq.Text) > 6000 {
			return "MNone", false
		}
		var doc map[string]interface{}
		if err := json.Unmarshal([]byte(rq.Text), &doc); err != nil {
			return "MNone", false // rejected by encoding/json: outside the model
		}
		budget := 600
		t := c13Jv(map[string]interface{}(doc), &budget)
		if doc == nil {
			t = "(JObj JMNil)" // "null" decodes into a nil map: an empty container reader
		}
		if budget < 0 {
			return "MNone", false
		}
		return emit.App("MJson", wname, t), true
	case "match":
		if strings.ContainsAny(rq.Sel, "(;)") {
			return "MNone", false
		}
		var segs []string
		for _, s := range strings.Split(rq.Sel, "/") {
			if s != "" {
				segs = append(segs, s)
			}
		}
		return emit.App("MMatch", c13Idents(segs), emit.Nat(c13ResolvedLen(w, rq.Base)), c13Idents(c13Resolved(w, rq.Cand))), true
	case "xparse":
		if len(rq.Text) < 2500 {
			ascii := true
			for i := 0; i < len(rq.Text); i++ {
				if rq.Text[i] >= 0x80 {
					ascii = false
				}
			}
			if ascii {
				return emit.App("MXPath", emit.Str(rq.Text)), true
			}
		}
	}
	return "MNone", false
}

// the idents of the path c13SchemaPath builds (module first); names that do not resolve end the path
func c13Resolved(w *c13World, names []string) []string {
	p := c13SchemaPath(w, names)
	var out []string
	for ; p != nil; p = p.Parent {
		out = append([]string{p.Meta.Ident()}, out...)
	}
	return out
}
func c13ResolvedLen(w *c13World, names []string) int { return len(c13Resolved(w, names)) }

// ---- worker pool -----------------------------------------------------------------------------------

type c13Proc struct {
	cmd   *exec.Cmd
	in    io.WriteCloser
	lines chan string
}

func c13Start(ctx *core.Ctx) (*c13Proc, error) {
	exe, err := os.Executable()
	if err != nil {
		exe = os.Args[0]
	}
	cmd := exec.Command(exe, "c13worker", "-seed", fmt.Sprint(ctx.Seed), "-tier", ctx.Tier, "-out", os.DevNull)
	cmd.Stderr = io.Discard
	in, err := cmd.StdinPipe()
	if err != nil {
		return nil, err
	}
	out, err := cmd.StdoutPipe()
	if err != nil {
		return nil, err
	}
	if err := cmd.Start(); err != nil {
		return nil, err
	}
	p := &c13Proc{cmd: cmd, in: in, lines: make(chan string, 16)}
	go func() {
		rd := bufio.NewReaderSize(out, 1<<20)
		for {
			line, err := rd.ReadString('\n')
			if strings.HasPrefix(line, "R") {
				p.lines <- strings.TrimSpace(line)
			}
			if err != nil {
				close(p.lines)
				return
			}
		}
	}()
	select {
	case l, ok := <-p.lines:
		if !ok || l != "R-READY" {
			p.kill()
			return nil, fmt.Errorf("c13 worker did not start: %q", l)
		}
	case <-time.After(120 * time.Second):
		p.kill()
		return nil, fmt.Errorf("c13 worker start timed out")
	}
	return p, nil
}

func (p *c13Proc) kill() {
	p.in.Close()
	if p.cmd.Process != nil {
		p.cmd.Process.Kill()
	}
	go p.cmd.Wait()
}

// c13Dispatch runs all requests over nproc workers; a dead or silent worker is replaced
func c13Dispatch(ctx *core.Ctx, reqs []*c13Req, nproc int) ([]c13Resp, error) {
	resps := make([]c13Resp, len(reqs))
	var wg sync.WaitGroup
	var firstErr error
	var mu sync.Mutex
	for k := 0; k < nproc; k++ {
		wg.Add(1)
		go func(k int) {
			defer wg.Done()
			var p *c13Proc
			defer func() {
				if p != nil {
					p.kill()
				}
			}()
			for i := k; i < len(reqs); i += nproc {
				if p == nil {
					var err error
					if p, err = c13Start(ctx); err != nil {
						mu.Lock()
						if firstErr == nil {
							firstErr = err
						}
						mu.Unlock()
						return
					}
				}
				line, _ := json.Marshal(reqs[i])
				if _, err := p.in.Write(append(line, '\n')); err != nil {
					resps[i] = c13Resp{Class: "Fatal", Msg: "worker pipe closed"}
					p.kill()
					p = nil
					continue
				}
				select {
				case l, ok := <-p.lines:
					if !ok {
						resps[i] = c13Resp{Class: "Fatal", Msg: "worker process died"}
						p.kill()
						p = nil
						continue
					}
					var r c13Resp
					if err := json.Unmarshal([]byte(strings.TrimPrefix(l, "R ")), &r); err != nil {
						r = c13Resp{Class: "Fatal", Msg: "unreadable answer " + l}
					}
					resps[i] = r
					if r.Class == "Timeout" {
						p.kill()
						p = nil
					}
				case <-time.After(c13ReqLimit + 4*time.Second):
					resps[i] = c13Resp{Class: "Timeout", Msg: "no answer"}
					p.kill()
					p = nil
				}
			}
		}(k)
	}
	wg.Wait()
	return resps, firstErr
}

// ---- the property ------------------------------------------------------------------------------------

func c13Outcome(r c13Resp) string {
	switch r.Class {
	case "Ok":
		return "OOk"
	case "Err":
		return "OErr"
	case "Panic":
		return emit.App("OPanic", emit.Str(r.Frame))
	case "Timeout":
		return "OTimeout"
	}
	return "OFatal"
}

func C13(ctx *core.Ctx) error {
	ctx.Rule = "a request is non-trivial when it is not one of the valid baseline requests (tag *-valid): it carries a shape mismatch, a truncation, a token/character mutation, a malformed or oversized expression, or a value of the wrong Go type; distinct by (world, kind, tag, text)"
	nw := 6
	if ctx.Thorough() {
		nw = 12
	}
	worlds, err := c13Worlds(ctx.Seed, nw)
	if err != nil {
		return err
	}
	// the worlds' schema skeletons are defined once per case file
	var defs strings.Builder
	defs.WriteString("Req.Types Check.C13Check.\nImport ListNotations.\nOpen Scope Z_scope")
	for _, w := range worlds {
		fmt.Fprintf(&defs, ".\nDefinition c13w%d : world := mkWorld %s %s", w.Idx, emit.Str(w.M.Ident()),
			emit.App("SkCont", emit.Str(w.M.Ident()), "[]", c13ChoiceNames(w.Root), c13Kids(w.Root)))
	}
	ctx.Imports = defs.String()

	r := gen.New(ctx.Seed)
	budget := ctx.Scale(2000, 30000)
	if ctx.Tier == "search" {
		budget = 40000
	}
	var reqs []*c13Req
	for _, w := range worlds {
		reqs = append(reqs, c13Streams(r.Fork(uint64(7000+w.Idx)), w, budget/nw, ctx.Thorough())...)
	}
	for _, rq := range reqs {
		c13TagID(rq.Tag) // panics on an unregistered tag (programming error) before any worker starts
	}
	resps, err := c13Dispatch(ctx, reqs, 6)
	if err != nil {
		return err
	}
	for i, rq := range reqs {
		w := worlds[rq.W]
		rs := resps[i]
		mi, modelled := c13ModelInput(w, rq)
		obsMatch := "0%nat"
		if rs.Match != 0 {
			obsMatch = emit.Nat(rs.Match)
		}
		term := emit.App("Case", emit.Nat(c13KindID(rq.Kind)), emit.Nat(c13TagID(rq.Tag)), emit.Bool(c13MustErr(rq.Tag)), mi, c13Outcome(rs), emit.Bool(rs.Preserved), obsMatch)
		text := rq.Text
		if len(text) > 400 {
			text = text[:200] + fmt.Sprintf("…(%d bytes)…", len(text)) + text[len(text)-100:]
		}
		desc := map[string]interface{}{"world": rq.W, "kind": rq.Kind, "tag": rq.Tag, "text": text, "at": rq.At,
			"backend":       map[string]string{"": "reference store", "json": "nodeutil.ReadJSON", "reflect": "nodeutil.ReflectChild"}[rq.Impl],
			"must_be_error": c13MustErr(rq.Tag), "outcome": rs.Class, "frame": rs.Frame, "msg": rs.Msg, "preserved": rs.Preserved, "changed": rs.Changed}
		if rq.Kind == "match" {
			desc["selector"], desc["base"], desc["candidate"], desc["matched"] = rq.Sel, rq.Base, rq.Cand, rs.Match
		}
		if rq.Kind == "path" && rq.At != "" {
			desc["find_without_query"] = rs.NoQuery
			desc["same_as_without_query"] = map[int]string{0: "n/a", 1: "no", 2: "yes"}[rs.Match]
		}
		if rq.Kind == "set" {
			desc["value"] = c13SetPool()[rq.Val].Name
		}
		if rq.W == 0 {
			desc["schema"] = "fixed world (c13FixedYang in harness/props/c13_worker.go)"
		} else if w.Keys {
			desc["schema"] = "fixed world (c13KeysYang, c13KeysData / c13KeysImplData in harness/props/c13_worker.go)"
		} else if ctx.Only >= 0 {
			desc["schema"] = w.Yang
			desc["data"] = w.DataJSON
		}
		ctx.Add(term, desc, !strings.HasSuffix(rq.Tag, "-valid"))
		ctx.Count("kind:" + rq.Kind)
		ctx.Count("outcome:" + rq.Kind + ":" + rs.Class)
		ctx.Count("tag:" + rq.Tag)
		if modelled {
			ctx.Count("modelled:" + rq.Kind)
		} else {
			ctx.Count("search-only:" + rq.Kind)
		}
		if rs.Class == "Panic" {
			ctx.Count("panic-frame:" + rs.Frame)
		}
		if !rs.Preserved {
			ctx.Count("not-preserved:" + rq.Kind)
		}
	}
	ctx.Extra["worlds"] = len(worlds)
	ctx.Extra["modelled_kinds"] = "path (parseUrlPath; at sub-selections the ../ loop and the query cut), json (reader shape dispatch, upsert at the root), match (PathMatchExpression.match), xparse (xpath lexer + grammar)"
	ctx.Extra["search_only_kinds"] = "xml, query, xpath evaluation, set, json through insert/update/replace or rejected by encoding/json"
	return nil
}
