package props

import (
	"fmt"
	"strings"

	"github.com/freeconf/yang/meta"
	"github.com/freeconf/yang/node"

	"yvh/core"
	"yvh/emit"
	"yvh/gen"
	"yvh/tree"
)

// ---- parameters applied in several steps, lists as the target of the read ---------------------------
//
// A chain is a sequence of steps; step i navigates a (possibly empty) piece of the path to the target
// and applies a (possibly empty) query:  Find(piece?query)  or, when the piece is empty,
// Constrain(query) / Find("?query").  The selection the last step returns is read once
// (UpsertInto a capturing node).  Coq: C07Check.CChain, model Tree/Chain.v, spec Tree/ProjectChain.v.

// c07ListTargets: every list (not its entries) reachable through url-safe keys that holds at least one row
func c07ListTargets(root *tree.SNode, data *tree.Cont) []c07target {
	var out []c07target
	var walk func(path string, s *tree.SNode, c *tree.Cont, depth int)
	walk = func(path string, s *tree.SNode, c *tree.Cont, depth int) {
		if depth > 3 {
			return
		}
		for _, kid := range s.Kids {
			switch kid.Kind {
			case tree.KCont:
				if sub, ok := c.Conts[kid.Name]; ok {
					walk(join(path, kid.Name), kid, sub, depth+1)
				}
			case tree.KList:
				if l, ok := c.Lists[kid.Name]; ok {
					if len(l.Rows) > 0 {
						out = append(out, c07target{path: join(path, kid.Name), s: kid, data: l.Rows[0], list: l})
					}
					for _, row := range l.Rows {
						if kp, ok := keyPath(kid, row); ok {
							walk(join(path, kid.Name+"="+kp), kid, row, depth+1)
						}
					}
				}
			}
		}
	}
	walk("", root, data, 0)
	return out
}

// c07UnsetDefaults: a copy of data in which the first row of every list has no value for its
// non-key leaves that have a default
func c07UnsetDefaults(root *tree.SNode, data *tree.Cont) *tree.Cont {
	out := data.Clone()
	var walk func(s *tree.SNode, c *tree.Cont)
	walk = func(s *tree.SNode, c *tree.Cont) {
		for _, kid := range s.Kids {
			switch kid.Kind {
			case tree.KCont:
				if sub, ok := c.Conts[kid.Name]; ok {
					walk(kid, sub)
				}
			case tree.KList:
				if l, ok := c.Lists[kid.Name]; ok {
					for i, row := range l.Rows {
						if i == 0 {
							isKey := map[int]bool{}
							for _, k := range kid.Keys {
								isKey[k] = true
							}
							for j, leaf := range kid.Kids {
								if leaf.Kind == tree.KLeaf && !isKey[j] && leaf.Leafable().HasDefault() {
									delete(row.Leaves, leaf.Name)
								}
							}
						}
						walk(kid, row)
					}
				}
			}
		}
	}
	walk(root, out)
	return out
}

func (t c07target) isList() bool { return t.list != nil }

// containers and lists present below the target (what fc.max-node-count bounds)
func (t c07target) nodes() int {
	if !t.isList() {
		return countNodes(t.s, t.data)
	}
	n := 0
	for _, row := range t.list.Rows {
		n += countNodes(t.s, row)
	}
	return n
}

// listScore ranks list targets: containers / lists below the rows, and a row that leaves a leaf with a
// default unset counts most
func (t c07target) listScore() int {
	n := t.nodes()
	for _, row := range t.list.Rows {
		for _, kid := range t.s.Kids {
			if kid.Kind == tree.KLeaf && kid.Leafable().HasDefault() {
				if _, set := row.Leaves[kid.Name]; !set {
					return n + 50
				}
			}
		}
	}
	return n
}

func (t c07target) size() int {
	if !t.isList() {
		return t.data.Size()
	}
	n := 0
	for _, row := range t.list.Rows {
		n += 1 + row.Size()
	}
	return n
}

func (t c07target) desc() string {
	if !t.isList() {
		return t.data.Desc(t.s)
	}
	parts := make([]string, len(t.list.Rows))
	for i, row := range t.list.Rows {
		parts[i] = row.Desc(t.s)
	}
	return "[" + strings.Join(parts, ",") + "]"
}

func c07RowsTerm(s *tree.SNode, l *tree.List) string {
	rows := make([]string, len(l.Rows))
	for i, row := range l.Rows {
		rows[i] = emit.App("DCont", row.ContentTerm(s))
	}
	return emit.List(rows)
}

// c07SharedTarget emits the target once (prelude definitions) and returns the `target` term
func c07SharedTarget(t c07target) string {
	if !t.isList() {
		k, d := c07Shared(t)
		return emit.App("TCont", k, d)
	}
	i := len(c07Prelude) / 2
	ln, rn := fmt.Sprintf("c07l%d", i), fmt.Sprintf("c07r%d", i)
	c07Prelude = append(c07Prelude,
		fmt.Sprintf("Definition %s : snode := %s", ln, t.s.Term()),
		fmt.Sprintf("Definition %s : list dnode := %s", rn, c07RowsTerm(t.s, t.list)))
	return emit.App("TList", ln, rn)
}

type c07step struct {
	piece string // path navigated by this step (relative to where the previous step ended)
	ps    []qparam
	find  bool // Find(piece?query) rather than Constrain(query); forced when piece != ""
	qs    string
}

func (s c07step) call() string {
	if s.find {
		if s.qs == "" && s.piece != "" {
			return fmt.Sprintf("Find(%q)", s.piece)
		}
		return fmt.Sprintf("Find(%q)", s.piece+"?"+s.qs)
	}
	return fmt.Sprintf("Constrain(%q)", s.qs)
}

// layout distributes the path to the target over the steps (in order, pieces may be empty)
func c07Layout(r *gen.Rng, path string, queries [][]qparam) []c07step {
	var segs []string
	if path != "" {
		segs = strings.Split(path, "/")
	}
	n := len(queries)
	cuts := make([]int, n+1)
	for i := 1; i < n; i++ {
		cuts[i] = cuts[i-1] + r.Intn(len(segs)-cuts[i-1]+1)
	}
	cuts[n] = len(segs)
	if r.Chance(1, 3) {
		// everything navigated by the first step, the rest constrains the target itself
		for i := 1; i <= n; i++ {
			cuts[i] = len(segs)
		}
	}
	steps := make([]c07step, n)
	for i := range steps {
		st := c07step{piece: strings.Join(segs[cuts[i]:cuts[i+1]], "/"), ps: queries[i]}
		st.qs = queryString(r, st.ps)
		st.find = st.piece != "" || r.Chance(1, 3)
		steps[i] = st
	}
	return steps
}

func c07ChainCase(ctx *core.Ctx, r *gen.Rng, m *meta.Module, root *tree.SNode, yang string, data *tree.Cont,
	t c07target, tgtTerm string, queries [][]qparam, label string) error {
	steps := c07Layout(r, t.path, queries)
	before := data.ContentTerm(root)
	capture := tree.NewCont()
	captureList := &tree.List{}
	var callErr error
	panicked := ""
	func() {
		defer func() {
			if rec := recover(); rec != nil {
				panicked = fmt.Sprintf("%v", rec)
			}
		}()
		b := node.NewBrowser(m, data.Node(root, nil, ""))
		sel := b.Root()
		for _, st := range steps {
			if st.find {
				arg := st.piece
				if st.qs != "" || st.piece == "" {
					arg += "?" + st.qs
				}
				sel, callErr = sel.Find(arg)
			} else {
				sel, callErr = sel.Constrain(st.qs)
			}
			if callErr != nil {
				return
			}
			if sel == nil {
				panicked = fmt.Sprintf("harness: step %s of the chain to %q found nothing", st.call(), t.path)
				return
			}
		}
		if t.isList() {
			callErr = sel.UpsertInto(captureList.Node(t.s, nil, ""))
		} else {
			callErr = sel.UpsertInto(capture.Node(t.s, nil, ""))
		}
	}()
	if strings.HasPrefix(panicked, "harness:") {
		return fmt.Errorf("c07: %s\n%s", panicked, yang)
	}
	unchanged := data.ContentTerm(root) == before
	var obs, obsDesc string
	switch {
	case panicked != "":
		obs, obsDesc = "ObsPanic", "panic: "+panicked
		ctx.Count("result:panic")
	case callErr != nil:
		obs, obsDesc = emit.App("ObsErr", c07ErrClass(callErr)), c07ErrClass(callErr)+": "+callErr.Error()
		ctx.Count("result:" + c07ErrClass(callErr))
	case t.isList():
		obs = emit.App("ObsOk", emit.List([]string{emit.Some(emit.App("DList", c07RowsTerm(t.s, captureList)))}))
		obsDesc = c07target{s: t.s, list: captureList}.desc()
		ctx.Count("result:ok")
		if (c07target{s: t.s, list: captureList}).size() < t.size() {
			ctx.Count("result:ok-filtered")
		}
	default:
		obs, obsDesc = emit.App("ObsOk", capture.ContentTerm(t.s)), capture.Desc(t.s)
		ctx.Count("result:ok")
		if capture.Size() < t.data.Size() {
			ctx.Count("result:ok-filtered")
		}
	}
	stepTerms := make([]string, len(steps))
	astTerms := make([]string, len(steps))
	calls := make([]string, len(steps))
	withParams, total := 0, 0
	for i, st := range steps {
		pairs := make([]string, len(st.ps))
		var asts []string
		seen := map[string]bool{}
		for j, p := range st.ps {
			pairs[j] = emit.Pair(emit.Str(p.name), emit.Str(p.value))
			if p.ast != nil && !seen[p.name] {
				asts = append(asts, emit.Pair(emit.Str(p.name), p.ast.term()))
			}
			seen[p.name] = true
			ctx.Count("param:" + p.name)
		}
		stepTerms[i], astTerms[i], calls[i] = emit.List(pairs), emit.List(asts), st.call()
		if len(st.ps) > 0 {
			withParams++
		}
		total += len(st.ps)
	}
	term := emit.App("CChain", tgtTerm, emit.List(stepTerms), emit.List(astTerms), emit.Bool(unchanged), obs)
	desc := map[string]interface{}{"yang": yang, "data": data.Desc(root), "target": t.path, "calls": calls,
		"target_is_list": t.isList(), "target_content": t.desc(), "observed": obsDesc, "store_unchanged": unchanged, "stream": label}
	ctx.Add(term, desc, total > 0 && t.size() > 0)
	ctx.Count("stream:" + label)
	ctx.Count(fmt.Sprintf("steps:%d", len(steps)))
	ctx.Count(fmt.Sprintf("steps-with-params:%d", withParams))
	ctx.Count(fmt.Sprintf("params:%d", total))
	switch {
	case t.isList():
		ctx.Count("target:list")
	case t.path == "":
		ctx.Count("target:root")
	case t.s.Kind == tree.KList:
		ctx.Count("target:list-entry")
	default:
		ctx.Count("target:container")
	}
	return nil
}

// byKindNoRange: like byKind; a chain carries fc.range in at most one of its steps (used)
func (g *c07gen) chainParam(k int, rangeUsed *bool) qparam {
	if k == 5 {
		if *rangeUsed {
			return g.depth()
		}
		*rangeUsed = true
	}
	return g.byKind(k)
}

// smallDepth: a depth that cuts something off when the target is at least that deep
func (g *c07gen) smallDepth() qparam {
	return qparam{name: "depth", value: fmt.Sprint(1 + g.r.Intn(3)), kind: "depth"}
}

// tightMaxNode: a bound just below (or well below) the number of containers of the full read
func (g *c07gen) tightMaxNode() qparam {
	c := g.t.nodes()
	v := gen.Pick(g.r, []int{c - 1, c / 2, 0, c})
	if v < 0 {
		v = 0
	}
	return qparam{name: "fc.max-node-count", value: fmt.Sprint(v), kind: "fc.max-node-count"}
}

// windowAll: a window given with an empty selector (names every list, the target list included)
func (g *c07gen) windowAll() qparam {
	n := 1
	if g.t.isList() {
		n = len(g.t.list.Rows)
	}
	st := g.r.Intn(n + 1)
	v := fmt.Sprintf("!%d", st)
	switch g.r.Intn(3) {
	case 0:
		v += fmt.Sprintf("-%d", st+1+g.r.Intn(2))
	case 1:
		v += "-"
	}
	return qparam{name: "fc.range", value: v, kind: "fc.range"}
}

// twoWindows: two windows naming the same list(s), for two steps of one chain (known finding 1 of
// C07: they do not intersect). Only with few other parameters: the order of equal entries of the
// constraint table is the order of registration only while sort.Sort stays in its insertion sort
// (at most 12 entries).
func (g *c07gen) twoWindows() (a, b qparam, ok bool) {
	if len(g.lists) > 0 && !(g.t.isList() && g.r.Bool()) {
		lp := gen.Pick(g.r, g.lists)
		ws := []int{1, 4, 8, 9, 9, 9, 0}
		return g.windowFor(lp, gen.Pick(g.r, ws)), g.windowFor(lp, gen.Pick(g.r, ws)), true
	}
	if g.t.isList() {
		return g.windowAll(), g.windowAll(), true
	}
	return a, b, false
}

// c07Chains: the chains of one target
func c07Chains(ctx *core.Ctx, g *c07gen, count int, add func(label string, queries ...[]qparam) error) error {
	r := g.r
	q := func(ps ...qparam) []qparam { return ps }
	for i := 0; i < count; i++ {
		used := false
		other := func() qparam { return g.chainParam(gen.Pick(r, []int{1, 2, 3, 4, 5, 1, 2}), &used) }
		var err error
		switch i % 8 {
		case 0:
			// a limit given first must survive a later step that does not mention it
			err = add("chain-depth-then", q(g.smallDepth()), q(other()))
		case 1:
			err = add("chain-maxnode-then", q(g.tightMaxNode()), q(other()))
		case 2:
			// the same parameter in two steps: both apply
			k := gen.Pick(r, []int{0, 1, 3, 4, 6, 3, 4})
			err = add("chain-same-twice", q(g.byKind(k)), q(g.byKind(k)))
		case 3:
			err = add("chain-then-depth", q(other()), q(g.smallDepth()))
		case 4:
			// a step without parameters (pure navigation / Constrain("")) between or after
			if r.Bool() {
				err = add("chain-empty-step", q(g.chainParam(r.Intn(7), &used)), q())
			} else {
				err = add("chain-empty-step", q(), q(g.chainParam(r.Intn(7), &used)), q())
			}
		case 5:
			err = add("chain-3", q(g.chainParam(r.Intn(7), &used)), q(g.chainParam(r.Intn(7), &used)), q(g.chainParam(r.Intn(7), &used)))
		case 6:
			// an invalid value in a later (or the first) step is an error of the chain
			bad := gen.Pick(r, c07Invalid)
			if r.Bool() {
				err = add("chain-invalid", q(g.chainParam(r.Intn(7), &used)), q(bad))
			} else {
				err = add("chain-invalid", q(bad, g.chainParam(r.Intn(7), &used)), q(g.smallDepth()))
			}
		default:
			n := 2 + r.Intn(2)
			qs := make([][]qparam, n)
			for j := range qs {
				for k := r.Intn(3); k >= 0; k-- {
					qs[j] = append(qs[j], g.chainParam(r.Intn(7), &used))
				}
			}
			err = add("chain-random", qs...)
		}
		if err != nil {
			return err
		}
	}
	// two windows on one list in two steps
	for i := 0; i < (count+7)/8; i++ {
		if a, b, ok := g.twoWindows(); ok {
			var err error
			if r.Chance(1, 3) {
				err = add("chain-2windows", q(a, g.content()), q(b))
			} else {
				err = add("chain-2windows", q(a), q(b))
			}
			if err != nil {
				return err
			}
		}
	}
	return nil
}

// c07ListTargetCases: a list as the target of the read, parameters in one step and in chains
func c07ListTargetCases(ctx *core.Ctx, g *c07gen, add func(label string, queries ...[]qparam) error) error {
	q := func(ps ...qparam) []qparam { return ps }
	if err := add("list-none", q()); err != nil {
		return err
	}
	for d := 1; d <= ctx.Scale(4, 8); d++ {
		if err := add("list-depth", q(qparam{name: "depth", value: fmt.Sprint(d)})); err != nil {
			return err
		}
	}
	singles := []qparam{g.content(), {name: "content", value: "config"}, {name: "with-defaults", value: "trim"},
		g.fields(), g.fields(), g.xfields(), g.windowAll(), g.windowAll(), g.rangeP(), g.tightMaxNode(), g.maxNode()}
	for i, p := range singles {
		if !ctx.Thorough() && i%2 == int(ctx.Seed%2) && i >= 3 {
			continue
		}
		if err := add("list-"+p.name, q(p)); err != nil {
			return err
		}
	}
	for i := 0; i < ctx.Scale(3, 12); i++ {
		if err := add("list-pair", q(g.byKind(g.r.Intn(7)), g.byKind(g.r.Intn(7)))); err != nil {
			return err
		}
	}
	if err := add("list-pair", q(g.smallDepth(), g.xfields())); err != nil {
		return err
	}
	return c07Chains(ctx, g, ctx.Scale(5, 12), add)
}
