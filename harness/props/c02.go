package props

// C02 - every leaf's effective type is the RFC 7950 derivation of its type statement.
//
// One case = one generated module set (main module "m", imported module "i", optionally a
// submodule "s" of m) holding one leaf under test, written directly in the tree or inside a
// grouping that is used 1-3 times (the grouping may live in the imported module). The real
// parser + compiler load it; the case records what the public accessors return for the leaf at
// every place it ends up. Coq (Check/C02Check.v) runs the model and the RFC oracle on the same
// abstract input and classifies.
//
// About a third of the module sets also hold a SIBLING SCOPE (c02Twin): a second container next to
// the leaf's parent b (or next to b's parent a) with typedefs that reuse the names of typedefs of
// the scopes it is not nested in (legal: RFC 7950 5.5 only forbids a name along one ancestor chain)
// but define something else, and a leaf y naming them. It is written before or after its sibling.
// Such a set yields two cases, one per leaf, each judged against its own lexical frames.
//
// When the leaf under test is an identityref and the set loads, two more cases (CFind tables) record
// which texts the type ACCEPTS: every identity name of the module set, some qualified by the module,
// and unknown names are passed to meta.FindIdentity(Type.Base(), text) and node.NewValue(Type, text).
// Coq runs the model of the search (Typed/FindId.v) and the RFC oracle (derived from every base,
// decided by walking base statements upwards). Texts naming a base of the type go into a table of
// their own (known finding k=5). With -explode the tables are emitted one text per case.

import (
	"fmt"
	"io"
	"os"
	"sort"
	"strings"

	"github.com/freeconf/yang/meta"
	"github.com/freeconf/yang/node"
	"github.com/freeconf/yang/parser"
	"github.com/freeconf/yang/val"

	"yvh/core"
	"yvh/emit"
	"yvh/gen"
)

func init() { Registry["C02"] = C02 }

// ---- abstract input ---------------------------------------------------------------------------

type c02Valued struct {
	Name string
	Val  *int
}

type c02Pat struct {
	Pat string
	Inv bool
}

type c02Stmt struct {
	Ident    string
	Ranges   []string
	Lengths  []string
	Patterns []c02Pat
	FD       int
	Enums    []c02Valued
	Bits     []c02Valued
	Path     string
	Bases    []string
	Members  []*c02Stmt
}

type c02Typedef struct {
	Name    string
	Type    *c02Stmt
	Default *string
	Units   string
}

type c02Ident struct {
	Name  string
	Bases []string
}

func (s *c02Stmt) render(ind string) string {
	var b strings.Builder
	for _, r := range s.Ranges {
		fmt.Fprintf(&b, "%s  range \"%s\";\n", ind, r)
	}
	for _, r := range s.Lengths {
		fmt.Fprintf(&b, "%s  length \"%s\";\n", ind, r)
	}
	for _, p := range s.Patterns {
		if p.Inv {
			fmt.Fprintf(&b, "%s  pattern \"%s\" { modifier invert-match; }\n", ind, p.Pat)
		} else {
			fmt.Fprintf(&b, "%s  pattern \"%s\";\n", ind, p.Pat)
		}
	}
	if s.FD != 0 {
		fmt.Fprintf(&b, "%s  fraction-digits %d;\n", ind, s.FD)
	}
	for _, e := range s.Enums {
		if e.Val != nil {
			fmt.Fprintf(&b, "%s  enum \"%s\" { value %d; }\n", ind, e.Name, *e.Val)
		} else {
			fmt.Fprintf(&b, "%s  enum \"%s\";\n", ind, e.Name)
		}
	}
	for _, e := range s.Bits {
		if e.Val != nil {
			fmt.Fprintf(&b, "%s  bit %s { position %d; }\n", ind, e.Name, *e.Val)
		} else {
			fmt.Fprintf(&b, "%s  bit %s;\n", ind, e.Name)
		}
	}
	if s.Path != "" {
		fmt.Fprintf(&b, "%s  path \"%s\";\n", ind, s.Path)
	}
	for _, x := range s.Bases {
		fmt.Fprintf(&b, "%s  base %s;\n", ind, x)
	}
	for _, m := range s.Members {
		b.WriteString(m.render(ind + "  "))
	}
	if b.Len() == 0 {
		return fmt.Sprintf("%stype %s;\n", ind, s.Ident)
	}
	return fmt.Sprintf("%stype %s {\n%s%s}\n", ind, s.Ident, b.String(), ind)
}

func c02Strs(xs []string) string {
	items := make([]string, len(xs))
	for i, x := range xs {
		items[i] = emit.Str(x)
	}
	return emit.List(items)
}

func c02ValuedTerm(xs []c02Valued) string {
	items := make([]string, len(xs))
	for i, x := range xs {
		v := "None"
		if x.Val != nil {
			v = emit.Some(emit.Z(int64(*x.Val)))
		}
		items[i] = emit.Pair(emit.Str(x.Name), v)
	}
	return emit.List(items)
}

func (s *c02Stmt) term() string {
	pats := make([]string, len(s.Patterns))
	for i, p := range s.Patterns {
		pats[i] = emit.Pair(emit.Str(p.Pat), emit.Bool(p.Inv))
	}
	ms := make([]string, len(s.Members))
	for i, m := range s.Members {
		ms[i] = m.term()
	}
	return emit.App("Ty", emit.Str(s.Ident), "0", c02Strs(s.Ranges), c02Strs(s.Lengths), emit.List(pats),
		emit.Z(int64(s.FD)), c02ValuedTerm(s.Enums), c02ValuedTerm(s.Bits), emit.Str(s.Path), "None",
		c02Strs(s.Bases), "[]", emit.List(ms))
}

func (t *c02Typedef) render(ind string) string {
	var b strings.Builder
	fmt.Fprintf(&b, "%stypedef %s {\n%s", ind, t.Name, t.Type.render(ind+"  "))
	if t.Default != nil {
		fmt.Fprintf(&b, "%s  default \"%s\";\n", ind, *t.Default)
	}
	if t.Units != "" {
		fmt.Fprintf(&b, "%s  units %s;\n", ind, c02Arg(t.Units))
	}
	fmt.Fprintf(&b, "%s}\n", ind)
	return b.String()
}

func (t *c02Typedef) term() string {
	return emit.App("mkTd", emit.Str(t.Name), t.Type.term(), emit.OptStr(t.Default), emit.Str(t.Units))
}

func c02Frame(tds []*c02Typedef) string {
	items := make([]string, len(tds))
	for i, t := range tds {
		items[i] = t.term()
	}
	return emit.List(items)
}

func c02RenderTds(tds []*c02Typedef, ind string) string {
	var b strings.Builder
	for _, t := range tds {
		b.WriteString(t.render(ind))
	}
	return b.String()
}

// ---- scenario -----------------------------------------------------------------------------------

// places a typedef can live in, innermost first
const (
	plLocal    = iota // container b, the leaf's parent
	plAncestor        // container a
	plGrouping        // the grouping holding a (sibling definitions of the data nodes)
	plModule          // top level of the module the leaf is written in
	plSub             // submodule s of m (only when the leaf is written in m)
	plImport          // top level of i, reached by prefix from m
)

type c02Scenario struct {
	r         *gen.Rng
	home      int // 0: leaf written in m; 1: leaf written in a grouping of i, used from m
	grouping  bool
	uses      int
	frames    [3][]*c02Typedef // plLocal, plAncestor, plGrouping
	mTop      []*c02Typedef
	mSub      []*c02Typedef
	iTop      []*c02Typedef
	mIdents   []c02Ident
	iIdents   []c02Ident
	mOrder    []int // order the identities of m / i are written in (an identity may precede its base)
	iOrder    []int
	idShape   string   // how the hierarchy of i was grown
	probes    []string // texts tried against the identityref type (identity names, qualified or not, unknown names)
	noImport  bool
	leafList  bool
	leafType  *c02Stmt
	leafDef   []string // nil = none
	edgeLeaf  bool     // the leaf is string-like: default texts range over c02EdgeTexts
	edgeChain bool
	leafUnit  string
	nameSeq   int
	kind      string
	// leafref support
	tgtSibling *c02Stmt // type of leaf "tgt" next to the leaf under test
	tgtSibList bool
	tgtTop     *c02Stmt // type of top-level leaf "top" in m
	tgtTopList bool
	twin       *c02Twin
}

// a sibling scope: container c inside a (level 0, sibling of b) or container a2 next to a (level 1),
// holding its own typedefs and leaf y
type c02Twin struct {
	level    int
	before   bool // written (and so compiled) before the container it is a sibling of
	tds      []*c02Typedef
	reused   int // typedefs whose name also exists in a scope the twin is not nested in
	leafList bool
	leafType *c02Stmt
	leafDef  []string
	leafUnit string
}

func (s *c02Scenario) fresh(p string) string {
	s.nameSeq++
	return fmt.Sprintf("%s%d", p, s.nameSeq)
}

func (s *c02Scenario) addTd(place int, td *c02Typedef) {
	switch place {
	case plLocal, plAncestor, plGrouping:
		s.frames[place] = append(s.frames[place], td)
	case plModule:
		if s.home == 0 {
			s.mTop = append(s.mTop, td)
		} else {
			s.iTop = append(s.iTop, td)
		}
	case plSub:
		s.mSub = append(s.mSub, td)
	case plImport:
		s.iTop = append(s.iTop, td)
	}
}

// module index (model) a place belongs to
func (s *c02Scenario) modOf(place int) int {
	if place == plImport {
		return 1
	}
	return s.home
}

// how a statement written at place `from` names typedef `name` living at place `to`
func (s *c02Scenario) ref(from, to int, name string) string {
	if s.modOf(from) == 0 && s.modOf(to) == 1 {
		return "i:" + name
	}
	// own-module reference: plain, or (sometimes, outside the submodule) the module's own prefix
	if from != plSub && s.r.Chance(1, 5) {
		if s.modOf(from) == 0 {
			return "m:" + name
		}
		return "i:" + name
	}
	return name
}

func (s *c02Scenario) allowedPlaces() []int {
	ps := []int{plLocal, plAncestor}
	if s.grouping {
		ps = append(ps, plGrouping)
	}
	ps = append(ps, plModule)
	if s.home == 0 {
		ps = append(ps, plSub)
		if !s.noImport {
			ps = append(ps, plImport)
		}
	}
	return ps
}

// chain builds d typedef levels below the statement returned: the returned statement names the
// first typedef; per(level, isBase) fills in restrictions (level 0 = the leaf's own statement).
func (s *c02Scenario) chain(depth int, builtin string, per func(level int, st *c02Stmt, isBase bool),
	dflt func() string) *c02Stmt {
	places := make([]int, depth)
	allowed := s.allowedPlaces()
	for i := range places {
		places[i] = gen.Pick(s.r, allowed)
	}
	// lexical visibility: places non-decreasing; module and submodule see each other
	rank := func(p int) int {
		if p == plSub {
			return plModule
		}
		return p
	}
	sort.Slice(places, func(i, j int) bool { return rank(places[i]) < rank(places[j]) })
	if s.twin != nil && depth > 0 && s.r.Chance(3, 4) {
		// a sibling scope will be generated: let the chain start in a scope that has a sibling
		if s.twin.level == 1 && places[0] != plLocal && s.r.Bool() {
			places[0] = plAncestor
		} else {
			places[0] = plLocal
		}
	}
	stmts := make([]*c02Stmt, depth+1)
	for i := range stmts {
		stmts[i] = &c02Stmt{}
	}
	stmts[depth].Ident = builtin
	names := make([]string, depth)
	for i := depth - 1; i >= 0; i-- {
		names[i] = s.fresh("t")
	}
	for i := 0; i <= depth; i++ {
		per(i, stmts[i], i == depth)
	}
	for i := depth - 1; i >= 0; i-- {
		td := &c02Typedef{Name: names[i], Type: stmts[i+1]}
		if s.r.Chance(2, 5) || s.edgeChain && s.r.Chance(1, 3) {
			d := dflt()
			td.Default = &d
		}
		if s.r.Chance(2, 5) {
			td.Units = s.fresh("u")
			if s.r.Chance(1, 4) {
				td.Units = gen.Pick(s.r, c02EdgeUnits)
			}
		}
		s.addTd(places[i], td)
		from := plLocal
		if i > 0 {
			from = places[i-1]
		}
		stmts[i].Ident = s.ref(from, places[i], names[i])
	}
	s.Count(depth, places)
	return stmts[0]
}

var c02Hist func(string)

func (s *c02Scenario) Count(depth int, places []int) {
	if c02Hist == nil {
		return
	}
	c02Hist(fmt.Sprintf("depth=%d", depth))
	pn := []string{"local", "ancestor", "grouping", "module", "submodule", "import"}
	for _, p := range places {
		c02Hist("scope=" + pn[p])
	}
}

var c02Ints = []string{"int8", "int16", "int32", "int64", "uint8", "uint16", "uint32", "uint64"}
var c02Plain = []string{"boolean", "empty", "instance-identifier", "binary", "string", "any"}

func (s *c02Scenario) depth() int { return s.r.Intn(5) }

func (s *c02Scenario) genRange(level int) string {
	lo, hi := level*3, 120-level*7
	switch s.r.Intn(5) {
	case 0:
		return fmt.Sprintf("%d..%d", lo, hi)
	case 1:
		return fmt.Sprintf("%d..%d|%d..%d", lo, lo+10, hi-10, hi)
	case 2:
		return fmt.Sprintf("min..%d", hi)
	case 3:
		return fmt.Sprintf("%d..max", lo)
	default:
		return fmt.Sprintf("%d|%d..%d", lo, lo+2, hi)
	}
}

func (s *c02Scenario) genNumeric() {
	s.kind = "numeric"
	b := gen.Pick(s.r, c02Ints)
	s.leafType = s.chain(s.depth(), b, func(level int, st *c02Stmt, isBase bool) {
		if s.r.Chance(1, 2) {
			st.Ranges = []string{s.genRange(level)}
		}
	}, func() string { return fmt.Sprint(20 + s.r.Intn(50)) })
}

func (s *c02Scenario) genDecimal() {
	s.kind = "decimal64"
	s.leafType = s.chain(s.depth(), "decimal64", func(level int, st *c02Stmt, isBase bool) {
		if isBase {
			st.FD = 1 + s.r.Intn(18)
		}
		if s.r.Chance(1, 2) {
			st.Ranges = []string{fmt.Sprintf("%d.5..%d.25", level, 90-level)}
		}
	}, func() string { return fmt.Sprintf("%d.5", 10+s.r.Intn(9)) })
}

func (s *c02Scenario) genString() {
	s.kind = "string"
	b := "string"
	if s.r.Chance(1, 5) {
		b = "binary"
	}
	pats := []string{"[a-z]+", "a.*", ".*b", "[0-9a-f]*", "x|y|zz", "[0-9]+"}
	s.edgeChain = true // string-like: defaults are stated more often, over the edge texts
	s.leafType = s.chain(s.depth(), b, func(level int, st *c02Stmt, isBase bool) {
		if s.r.Chance(1, 2) {
			st.Lengths = []string{gen.Pick(s.r, []string{
				fmt.Sprintf("%d..%d", level, 40-level), fmt.Sprintf("%d", 4+level),
				fmt.Sprintf("%d..%d|%d..max", level, level+3, 30-level), fmt.Sprintf("min..%d", 50-level)})}
		}
		if b == "string" && s.r.Chance(2, 5) {
			n := 1 + s.r.Intn(2)
			for k := 0; k < n; k++ {
				st.Patterns = append(st.Patterns, c02Pat{gen.Pick(s.r, pats), s.r.Chance(1, 4)})
			}
		}
	}, func() string { return s.edgeText() })
	s.edgeLeaf = true
}

// c02EdgeTexts: texts a default or units statement of a string-like type may state. The empty string
// is a stated value: "states the empty string" and "states nothing" are different statements.
var c02EdgeTexts = []string{"", "", "", "", "", " ", "a b", "0", "abcd", "x;y", "a{b}", "none", "  ", "-"}

// units texts: a quoted argument with blanks or punctuation is one units value like any other
var c02EdgeUnits = []string{"m s", " ", "%", "a;b", "k", "1/s", "a{b}"}

// an argument written bare when it is a plain word, in double quotes otherwise
func c02Arg(a string) string {
	for _, c := range a {
		if !(c >= 'a' && c <= 'z' || c >= '0' && c <= '9') {
			return "\"" + a + "\""
		}
	}
	return a
}

func c02Count(k string) {
	if c02Hist != nil {
		c02Hist(k)
	}
}

func (s *c02Scenario) edgeText() string {
	d := gen.Pick(s.r, c02EdgeTexts)
	if c02Hist != nil {
		if d == "" {
			c02Hist("default text: a typedef states the empty string")
		} else {
			c02Hist("default text: a typedef states a non-empty text")
		}
	}
	return d
}

func (s *c02Scenario) genValued(prefix string, allowNeg bool) []c02Valued {
	n := 1 + s.r.Intn(5)
	out := make([]c02Valued, n)
	used := map[int]bool{}
	hi := -1
	for i := range out {
		out[i].Name = fmt.Sprintf("%s%d", prefix, i)
		v := hi + 1
		if s.r.Chance(2, 5) {
			// explicit: 0, below the highest, or a jump
			for try := 0; try < 8; try++ {
				c := s.r.Intn(12)
				if s.r.Chance(1, 4) {
					c = 0
				}
				if !used[c] {
					cc := c
					out[i].Val = &cc
					v = c
					break
				}
			}
		}
		if out[i].Val == nil && used[v] {
			v = hi + 1
		}
		used[v] = true
		if v > hi {
			hi = v
		}
	}
	if allowNeg {
		neg := -1 - s.r.Intn(3)
		out[0].Val = &neg
	}
	return out
}

// known assigns what RFC 7950 gives (used only to restate values in restricting statements)
func c02Assign(xs []c02Valued) map[string]int {
	m := map[string]int{}
	hi, first := 0, true
	for _, x := range xs {
		v := 0
		if x.Val != nil {
			v = *x.Val
		} else if !first {
			v = hi + 1
		}
		if first || v > hi {
			hi = v
		}
		first = false
		m[x.Name] = v
	}
	return m
}

func (s *c02Scenario) genEnumOrBits(bits bool, neg bool) {
	s.kind = "enumeration"
	b := "enumeration"
	if bits {
		b, s.kind = "bits", "bits"
	}
	var cur []c02Valued
	var vals map[string]int
	depth := s.depth()
	perLevel := make([][]c02Valued, depth+1)
	cur = s.genValued("e", neg)
	vals = c02Assign(cur)
	perLevel[depth] = cur
	for lvl := depth - 1; lvl >= 0; lvl-- {
		if s.r.Chance(1, 2) {
			var keep []c02Valued
			for _, x := range cur {
				if s.r.Chance(2, 3) {
					k := c02Valued{Name: x.Name}
					if s.r.Chance(1, 3) {
						v := vals[x.Name]
						k.Val = &v
					}
					keep = append(keep, k)
				}
			}
			if len(keep) > 0 {
				if s.r.Chance(1, 3) && len(keep) > 1 { // restricting statements may reorder
					keep[0], keep[len(keep)-1] = keep[len(keep)-1], keep[0]
				}
				perLevel[lvl] = keep
				cur = keep
			}
		}
	}
	s.leafType = s.chain(depth, b, func(level int, st *c02Stmt, isBase bool) {
		if bits {
			st.Bits = perLevel[level]
		} else {
			st.Enums = perLevel[level]
		}
	}, func() string { return cur[0].Name })
}

// small member / target types: a built-in with a restriction, or a fresh module-level typedef chain
func (s *c02Scenario) smallType(allowUnion bool, fromPlace int) *c02Stmt {
	switch s.r.Intn(7) {
	case 0:
		st := &c02Stmt{Ident: gen.Pick(s.r, c02Ints)}
		if s.r.Bool() {
			st.Ranges = []string{s.genRange(0)}
		}
		return st
	case 1:
		st := &c02Stmt{Ident: "string"}
		if s.r.Bool() {
			st.Lengths = []string{"1..9"}
		}
		if s.r.Bool() {
			st.Patterns = []c02Pat{{"[a-z]*", false}}
		}
		return st
	case 2:
		return &c02Stmt{Ident: "enumeration", Enums: s.genValued("m", false)}
	case 3:
		// typedef at module level of the module the statement is written in (or the import)
		to := plModule
		if s.modOf(fromPlace) == 0 && s.r.Chance(1, 3) {
			to = plImport
		}
		name := s.fresh("t")
		inner := &c02Stmt{Ident: gen.Pick(s.r, c02Ints), Ranges: []string{s.genRange(1)}}
		if s.r.Chance(1, 3) {
			inner = &c02Stmt{Ident: "enumeration", Enums: s.genValued("k", false)}
		}
		td := &c02Typedef{Name: name, Type: inner}
		if s.r.Bool() {
			d := "5"
			td.Default = &d
		}
		if s.modOf(fromPlace) == 1 {
			s.iTop = append(s.iTop, td)
		} else {
			s.addTd(to, td)
		}
		st := &c02Stmt{Ident: s.ref(fromPlace, to, name)}
		if inner.Ident != "enumeration" && s.r.Chance(1, 3) {
			st.Ranges = []string{s.genRange(2)}
		}
		return st
	case 4:
		return &c02Stmt{Ident: gen.Pick(s.r, c02Plain)}
	case 5:
		if allowUnion {
			n := 1 + s.r.Intn(2)
			u := &c02Stmt{Ident: "union"}
			for i := 0; i < n; i++ {
				u.Members = append(u.Members, s.smallType(false, fromPlace))
			}
			return u
		}
		return &c02Stmt{Ident: "boolean"}
	default:
		// absolute leafref to the top-level leaf of m (only meaningful in a statement written in m)
		if s.modOf(fromPlace) != 0 {
			return &c02Stmt{Ident: "boolean"}
		}
		p := "/m:top"
		if s.r.Bool() {
			p = "/top"
		}
		return &c02Stmt{Ident: "leafref", Path: p}
	}
}

func (s *c02Scenario) genUnion() {
	s.kind = "union"
	depth := s.r.Intn(3)
	var basePlace int
	s.leafType = s.chain(depth, "union", func(level int, st *c02Stmt, isBase bool) {}, func() string { return "1" })
	// find the base statement and where it is written
	st := s.leafType
	basePlace = plLocal
	for st.Ident != "union" {
		td, pl := s.findTd(st.Ident)
		st, basePlace = td.Type, pl
	}
	n := 1 + s.r.Intn(3)
	for i := 0; i < n; i++ {
		st.Members = append(st.Members, s.smallType(true, basePlace))
	}
	if s.r.Chance(1, 25) {
		st.Members = nil // a union without member types must be rejected
	}
}

func (s *c02Scenario) findTd(ref string) (*c02Typedef, int) {
	name := ref
	if i := strings.IndexByte(ref, ':'); i >= 0 {
		name = ref[i+1:]
	}
	for pl := 0; pl < 3; pl++ {
		for _, t := range s.frames[pl] {
			if t.Name == name {
				return t, pl
			}
		}
	}
	for _, t := range s.mTop {
		if t.Name == name {
			return t, plModule
		}
	}
	for _, t := range s.mSub {
		if t.Name == name {
			return t, plSub
		}
	}
	for _, t := range s.iTop {
		if t.Name == name {
			if s.home == 1 {
				return t, plModule
			}
			return t, plImport
		}
	}
	panic("typedef not found " + ref)
}

func (s *c02Scenario) genLeafref() {
	s.kind = "leafref"
	rel := s.r.Chance(1, 2) || s.home == 1
	viaTypedef := s.r.Chance(1, 3)
	s.noImport = true
	path := "../tgt"
	if !rel {
		path = "/m:top"
		if s.r.Bool() {
			path = "/top"
		}
	} else if s.r.Chance(1, 4) {
		path = "../m:tgt"
		if s.home == 1 {
			path = "../i:tgt"
		}
	}
	if s.r.Chance(1, 20) {
		path = "../nowhere" // must be rejected
	}
	depth := 0
	if viaTypedef {
		depth = 1 + s.r.Intn(2)
	}
	s.leafType = s.chain(depth, "leafref", func(level int, st *c02Stmt, isBase bool) {
		if isBase {
			st.Path = path
		}
	}, func() string { return "3" })
}

// Identity hierarchies over the two modules. The hierarchy of i is grown in one of four ways so that
// every shape an identityref can sit on turns up: a random forest, chains (deep, little branching),
// bushes (identities derived from one of the first few: siblings that have derivations of their own
// next to siblings that have none), and a complete binary tree (every identity with two derived
// identities, three levels deep with 8 identities). m adds identities derived from those of i and
// from each other, with up to two bases each. The statements are written in a random order one time
// in three (an identity may be written before its base).
func (s *c02Scenario) genIdentities() {
	ni := 2 + s.r.Intn(7)
	s.idShape = gen.Pick(s.r, []string{"forest", "chains", "bushes", "binary"})
	pickBase := func(k int) int {
		switch s.idShape {
		case "chains":
			if s.r.Chance(3, 4) {
				return k - 1
			}
		case "bushes":
			if k > 3 {
				return s.r.Intn(3)
			}
		case "binary":
			return (k - 1) / 2
		}
		return s.r.Intn(k)
	}
	for k := 0; k < ni; k++ {
		id := c02Ident{Name: fmt.Sprintf("ib%d", k)}
		if k > 0 && (s.idShape == "binary" || s.r.Chance(3, 4)) {
			id.Bases = append(id.Bases, fmt.Sprintf("ib%d", pickBase(k)))
			if k > 1 && s.r.Chance(1, 4) {
				o := fmt.Sprintf("ib%d", s.r.Intn(k))
				if o != id.Bases[0] {
					id.Bases = append(id.Bases, "i:"+o)
				}
			}
		}
		s.iIdents = append(s.iIdents, id)
	}
	nm := 1 + s.r.Intn(5)
	for k := 0; k < nm; k++ {
		id := c02Ident{Name: fmt.Sprintf("mb%d", k)}
		nb := s.r.Intn(3)
		seen := map[string]bool{}
		for j := 0; j < nb; j++ {
			var b string
			if k > 0 && s.r.Bool() {
				b = fmt.Sprintf("mb%d", s.r.Intn(k))
				if s.r.Chance(1, 4) {
					b = "m:" + b
				}
			} else {
				b = fmt.Sprintf("i:ib%d", s.r.Intn(ni))
			}
			key := b[strings.IndexByte(b, ':')+1:]
			if !seen[key] {
				seen[key] = true
				id.Bases = append(id.Bases, b)
			}
		}
		s.mIdents = append(s.mIdents, id)
	}
	order := func(n int) []int {
		o := make([]int, n)
		for i := range o {
			o[i] = i
		}
		if s.r.Chance(1, 3) {
			for i := n - 1; i > 0; i-- {
				j := s.r.Intn(i + 1)
				o[i], o[j] = o[j], o[i]
			}
		}
		return o
	}
	s.iOrder, s.mOrder = order(ni), order(nm)
	// every identity of the module set is tried as a value, some also qualified by their module
	for _, id := range s.iIdents {
		s.probes = append(s.probes, id.Name)
		if s.r.Chance(1, 3) {
			s.probes = append(s.probes, "i:"+id.Name)
		}
	}
	for _, id := range s.mIdents {
		s.probes = append(s.probes, id.Name)
		if s.r.Chance(1, 3) {
			s.probes = append(s.probes, "m:"+id.Name)
		}
	}
	s.probes = append(s.probes, "nosuch")
	if s.r.Chance(1, 2) {
		s.probes = append(s.probes, "i:nosuch")
	}
}

func (s *c02Scenario) genIdentityref() {
	s.kind = "identityref"
	s.genIdentities()
	depth := s.r.Intn(3)
	nb := 1
	if s.r.Chance(1, 4) {
		nb = 2
	}
	s.leafType = s.chain(depth, "identityref", func(level int, st *c02Stmt, isBase bool) {}, func() string { return "ib0" })
	st, basePlace := s.leafType, plLocal
	for st.Ident != "identityref" {
		td, pl := s.findTd(st.Ident)
		st, basePlace = td.Type, pl
	}
	seen := map[string]bool{}
	for j := 0; j < nb; j++ {
		var b string
		if basePlace == plSub {
			// a typedef in a submodule only finds identities through a prefix (see report)
			b = fmt.Sprintf("i:ib%d", s.r.Intn(len(s.iIdents)))
		} else if s.modOf(basePlace) == 1 {
			b = fmt.Sprintf("ib%d", s.r.Intn(len(s.iIdents)))
			if s.r.Chance(1, 4) {
				b = "i:" + b
			}
		} else if s.r.Bool() {
			b = fmt.Sprintf("mb%d", s.r.Intn(len(s.mIdents)))
		} else {
			b = fmt.Sprintf("i:ib%d", s.r.Intn(len(s.iIdents)))
		}
		if !seen[b] {
			seen[b] = true
			st.Bases = append(st.Bases, b)
		}
	}
	if s.r.Chance(1, 30) {
		st.Bases[0] = "nosuch"
	}
}

func (s *c02Scenario) genPlain() {
	s.kind = "plain"
	b := gen.Pick(s.r, c02Plain)
	s.leafType = s.chain(s.depth(), b, func(level int, st *c02Stmt, isBase bool) {}, func() string { return "true" })
}

// ---- sibling scope ----------------------------------------------------------------------------------

// a statement for a twin typedef: a restricted built-in, or a typedef of an enclosing scope that
// the twin sees too (none of these can be a name the twin redefines)
func (s *c02Scenario) twinType() (st *c02Stmt, dflt string) {
	type outer struct {
		place int
		td    *c02Typedef
	}
	var outers []outer
	add := func(place int, tds []*c02Typedef) {
		for _, td := range tds {
			outers = append(outers, outer{place, td})
		}
	}
	if s.twin.level == 0 {
		add(plAncestor, s.frames[plAncestor])
	}
	if s.grouping {
		add(plGrouping, s.frames[plGrouping])
	}
	if s.home == 0 {
		add(plModule, s.mTop)
		add(plSub, s.mSub)
		if !s.noImport {
			add(plImport, s.iTop)
		}
	} else {
		add(plModule, s.iTop)
	}
	switch k := s.r.Intn(6); {
	case k == 0 && len(outers) > 0:
		o := gen.Pick(s.r, outers)
		return &c02Stmt{Ident: s.ref(plLocal, o.place, o.td.Name)}, ""
	case k <= 1:
		st = &c02Stmt{Ident: "string"}
		if s.r.Bool() {
			st.Lengths = []string{fmt.Sprintf("%d..%d", 1+s.r.Intn(3), 60+s.r.Intn(9))}
		}
		if s.r.Chance(1, 3) {
			st.Patterns = []c02Pat{{"[a-w]*", false}}
		}
		return st, "twin"
	case k == 2:
		es := s.genValued("w", false)
		return &c02Stmt{Ident: "enumeration", Enums: es}, es[0].Name
	case k == 3:
		return &c02Stmt{Ident: "boolean"}, "false"
	case k == 4:
		return &c02Stmt{Ident: "decimal64", FD: 1 + s.r.Intn(6), Ranges: []string{"1.5..77.5"}}, "2.5"
	default:
		st = &c02Stmt{Ident: gen.Pick(s.r, c02Ints)}
		if s.r.Chance(2, 3) {
			st.Ranges = []string{fmt.Sprintf("%d..%d", 1+s.r.Intn(5), 100+s.r.Intn(20))}
		}
		return st, fmt.Sprint(7 + s.r.Intn(9))
	}
}

// genTwin fills the sibling scope once the leaf under test and its typedefs exist
func (s *c02Scenario) genTwin() {
	t := s.twin
	cands := append([]*c02Typedef{}, s.frames[plLocal]...)
	if t.level == 1 {
		cands = append(cands, s.frames[plAncestor]...)
	}
	for _, c := range cands {
		if !s.r.Chance(3, 4) {
			continue
		}
		st, d := s.twinType()
		td := &c02Typedef{Name: c.Name, Type: st}
		if d != "" && s.r.Chance(1, 2) {
			td.Default = &d
		}
		if s.r.Chance(1, 2) {
			td.Units = s.fresh("v")
		}
		t.tds = append(t.tds, td)
		t.reused++
	}
	if len(t.tds) == 0 || s.r.Chance(1, 4) {
		// a name of its own (also keeps the twin leaf meaningful when nothing is reused)
		st, d := s.twinType()
		td := &c02Typedef{Name: s.fresh("t"), Type: st}
		if d != "" && s.r.Chance(1, 2) {
			td.Default = &d
		}
		t.tds = append(t.tds, td)
	}
	if s.r.Bool() { // order inside the scope does not matter to the RFC
		t.tds[0], t.tds[len(t.tds)-1] = t.tds[len(t.tds)-1], t.tds[0]
	}
	// leaf y names a typedef of the twin; prefer a reused name
	pick := t.tds[s.r.Intn(len(t.tds))]
	if t.reused > 0 {
		for try := 0; try < 4 && s.isFreshTwinName(pick.Name); try++ {
			pick = t.tds[s.r.Intn(len(t.tds))]
		}
	}
	t.leafType = &c02Stmt{Ident: s.ref(plLocal, plLocal, pick.Name)}
	t.leafList = s.r.Chance(1, 4)
	if s.r.Chance(1, 5) {
		t.leafUnit = "twinunit"
	}
}

// statistics only: does the chain of x (resp. the type of y) go through a name that both sibling
// scopes define
func (s *c02Scenario) twinCollision() (xHit, yHit bool) {
	twinHas := func(ref string) bool {
		name := ref[strings.IndexByte(ref, ':')+1:]
		for _, td := range s.twin.tds {
			if td.Name == name {
				return true
			}
		}
		return false
	}
	st := s.leafType
	for {
		if _, builtin := val.TypeAsFormat(st.Ident); builtin {
			break
		}
		td, pl := s.findTd(st.Ident)
		if pl <= plAncestor && twinHas(st.Ident) {
			xHit = true
		}
		st = td.Type
	}
	return xHit, !s.isFreshTwinName(s.twin.leafType.Ident[strings.IndexByte(s.twin.leafType.Ident, ':')+1:])
}

func (s *c02Scenario) isFreshTwinName(name string) bool {
	for pl := 0; pl < 2; pl++ {
		for _, td := range s.frames[pl] {
			if td.Name == name {
				return false
			}
		}
	}
	return true
}

// ---- rendering ------------------------------------------------------------------------------------

func c02RenderIdents(ids []c02Ident, order []int, ind string) string {
	var b strings.Builder
	for _, k := range order {
		id := ids[k]
		if len(id.Bases) == 0 {
			fmt.Fprintf(&b, "%sidentity %s;\n", ind, id.Name)
			continue
		}
		fmt.Fprintf(&b, "%sidentity %s {", ind, id.Name)
		for _, x := range id.Bases {
			fmt.Fprintf(&b, " base %s;", x)
		}
		b.WriteString(" }\n")
	}
	return b.String()
}

func (s *c02Scenario) renderLeaf(ind string) string {
	var b strings.Builder
	kw := "leaf"
	if s.leafList {
		kw = "leaf-list"
	}
	fmt.Fprintf(&b, "%s%s x {\n%s", ind, kw, s.leafType.render(ind+"  "))
	for _, d := range s.leafDef {
		fmt.Fprintf(&b, "%s  default \"%s\";\n", ind, d)
	}
	if s.leafUnit != "" {
		fmt.Fprintf(&b, "%s  units %s;\n", ind, c02Arg(s.leafUnit))
	}
	fmt.Fprintf(&b, "%s}\n", ind)
	return b.String()
}

func c02RenderTarget(name string, st *c02Stmt, isList bool, ind string) string {
	kw := "leaf"
	if isList {
		kw = "leaf-list"
	}
	return fmt.Sprintf("%s%s %s {\n%s%s}\n", ind, kw, name, st.render(ind+"  "), ind)
}

func (s *c02Scenario) renderTwin(ind string) string {
	t := s.twin
	var b strings.Builder
	name := "c"
	if t.level == 1 {
		name = "a2"
	}
	kw := "leaf"
	if t.leafList {
		kw = "leaf-list"
	}
	fmt.Fprintf(&b, "%scontainer %s {\n%s", ind, name, c02RenderTds(t.tds, ind+"  "))
	fmt.Fprintf(&b, "%s  %s y {\n%s", ind, kw, t.leafType.render(ind+"    "))
	for _, d := range t.leafDef {
		fmt.Fprintf(&b, "%s    default \"%s\";\n", ind, d)
	}
	if t.leafUnit != "" {
		fmt.Fprintf(&b, "%s    units %s;\n", ind, c02Arg(t.leafUnit))
	}
	fmt.Fprintf(&b, "%s  }\n%s}\n", ind, ind)
	return b.String()
}

// the data nodes: container a { typedefs; container b { typedefs; leaf tgt; leaf x } }, with the
// sibling scope (if any) as container c next to b or container a2 next to a
func (s *c02Scenario) renderBody(ind string) string {
	var b strings.Builder
	at := func(level int, before bool, ind string) {
		if s.twin != nil && s.twin.level == level && s.twin.before == before {
			b.WriteString(s.renderTwin(ind))
		}
	}
	at(1, true, ind)
	fmt.Fprintf(&b, "%scontainer a {\n%s", ind, c02RenderTds(s.frames[plAncestor], ind+"  "))
	at(0, true, ind+"  ")
	fmt.Fprintf(&b, "%s  container b {\n%s", ind, c02RenderTds(s.frames[plLocal], ind+"    "))
	b.WriteString(c02RenderTarget("tgt", s.tgtSibling, s.tgtSibList, ind+"    "))
	b.WriteString(s.renderLeaf(ind + "    "))
	fmt.Fprintf(&b, "%s  }\n", ind)
	at(0, false, ind+"  ")
	fmt.Fprintf(&b, "%s}\n", ind)
	at(1, false, ind)
	return b.String()
}

func (s *c02Scenario) files() map[string]string {
	var m, i, sub strings.Builder
	m.WriteString("module m {\n  namespace \"urn:m\";\n  prefix m;\n  import i { prefix i; }\n")
	if len(s.mSub) > 0 {
		m.WriteString("  include s;\n")
	}
	m.WriteString("  revision 2020-01-01;\n")
	m.WriteString(c02RenderIdents(s.mIdents, s.mOrder, "  "))
	m.WriteString(c02RenderTds(s.mTop, "  "))
	m.WriteString(c02RenderTarget("top", s.tgtTop, s.tgtTopList, "  "))
	i.WriteString("module i {\n  namespace \"urn:i\";\n  prefix i;\n  revision 2020-01-01;\n")
	i.WriteString(c02RenderIdents(s.iIdents, s.iOrder, "  "))
	i.WriteString(c02RenderTds(s.iTop, "  "))
	grp := func(w *strings.Builder) {
		w.WriteString("  grouping g {\n")
		w.WriteString(c02RenderTds(s.frames[plGrouping], "    "))
		w.WriteString(s.renderBody("    "))
		w.WriteString("  }\n")
	}
	usesName := "g"
	if s.home == 1 {
		grp(&i)
		usesName = "i:g"
	} else if s.grouping {
		grp(&m)
	}
	if s.grouping {
		for k := 1; k <= s.uses; k++ {
			fmt.Fprintf(&m, "  container u%d {\n    uses %s;\n  }\n", k, usesName)
		}
	} else {
		m.WriteString("  container u1 {\n")
		m.WriteString(s.renderBody("    "))
		m.WriteString("  }\n")
	}
	m.WriteString("}\n")
	i.WriteString("}\n")
	out := map[string]string{"m": m.String(), "i": i.String()}
	if len(s.mSub) > 0 {
		sub.WriteString("submodule s {\n  belongs-to m { prefix m; }\n  import i { prefix i; }\n")
		sub.WriteString(c02RenderTds(s.mSub, "  "))
		sub.WriteString("}\n")
		out["s"] = sub.String()
	}
	return out
}

// ---- Gallina input -----------------------------------------------------------------------------------

func c02IdentsTerm(ids []c02Ident) string {
	items := make([]string, len(ids))
	for i, id := range ids {
		items[i] = emit.Pair(emit.Str(id.Name), c02Strs(id.Bases))
	}
	return emit.List(items)
}

func c02Path(xs ...string) string { return c02Strs(xs) }

// frames of the leaf: container b, container a (owners in the data tree under the first use), the grouping
func (s *c02Scenario) posTerm(frames ...[]*c02Typedef) string {
	owners := []string{emit.Some(c02Path("u1", "a", "b")), emit.Some(c02Path("u1", "a")), "None"}
	items := make([]string, len(frames))
	for i, f := range frames {
		items[i] = emit.Pair(owners[i], c02Frame(f))
	}
	return emit.Pair(emit.Nat(s.home), emit.List(items))
}

func (s *c02Scenario) leafFrames() [][]*c02Typedef {
	fr := [][]*c02Typedef{s.frames[plLocal], s.frames[plAncestor]}
	if s.grouping {
		fr = append(fr, s.frames[plGrouping])
	}
	return fr
}

// the sibling scope: its container's path, the leaf's lexical frames, the leaf
func (s *c02Scenario) twinPath() []string {
	if s.twin.level == 0 {
		return []string{"u1", "a", "c"}
	}
	return []string{"u1", "a2"}
}

func (s *c02Scenario) twinPosTerm() string {
	items := []string{emit.Pair(emit.Some(c02Path(s.twinPath()...)), c02Frame(s.twin.tds))}
	if s.twin.level == 0 {
		items = append(items, emit.Pair(emit.Some(c02Path("u1", "a")), c02Frame(s.frames[plAncestor])))
	}
	if s.grouping {
		items = append(items, emit.Pair("None", c02Frame(s.frames[plGrouping])))
	}
	return emit.Pair(emit.Nat(s.home), emit.List(items))
}

func (s *c02Scenario) twinLeafTerm() string {
	t := s.twin
	d := "None"
	if t.leafDef != nil {
		d = emit.Some(c02Strs(t.leafDef))
	}
	return emit.App("mkLeaf", s.twinPosTerm(), c02Path(append(s.twinPath(), "y")...), emit.Bool(t.leafList),
		t.leafType.term(), d, emit.Str(t.leafUnit))
}

func (s *c02Scenario) envTerm() string {
	mTds := append(append([]*c02Typedef{}, s.mTop...), s.mSub...)
	mods := emit.List([]string{
		emit.App("mkMod", emit.Str("m"), c02Frame(mTds), emit.List([]string{emit.Pair(emit.Str("i"), emit.Nat(1))}), c02IdentsTerm(s.mIdents)),
		emit.App("mkMod", emit.Str("i"), c02Frame(s.iTop), "[]", c02IdentsTerm(s.iIdents)),
	})
	lb := "false"
	if s.tgtSibList {
		lb = "true"
	}
	tb := "false"
	if s.tgtTopList {
		tb = "true"
	}
	lf := s.leafFrames()
	nodes := []string{
		emit.Pair(c02Path("u1"), "TCont"),
		emit.Pair(c02Path("u1", "a"), "TCont"),
		emit.Pair(c02Path("u1", "a", "b"), "TCont"),
		emit.Pair(c02Path("u1", "a", "b", "tgt"), emit.App("TLeaf", lb, s.posTerm(lf...), s.tgtSibling.term())),
		emit.Pair(c02Path("top"), emit.App("TLeaf", tb, emit.Pair("0%nat", "[]"), s.tgtTop.term())),
	}
	if s.twin != nil {
		nodes = append(nodes,
			emit.Pair(c02Path(s.twinPath()...), "TCont"),
			emit.Pair(c02Path(append(s.twinPath(), "y")...),
				emit.App("TLeaf", emit.Bool(s.twin.leafList), s.twinPosTerm(), s.twin.leafType.term())))
	}
	return emit.App("mkEnv", mods, emit.List(nodes))
}

func (s *c02Scenario) leafTerm() string {
	d := "None"
	if s.leafDef != nil {
		d = emit.Some(c02Strs(s.leafDef))
	}
	return emit.App("mkLeaf", s.posTerm(s.leafFrames()...), c02Path("u1", "a", "b", "x"), emit.Bool(s.leafList),
		s.leafType.term(), d, emit.Str(s.leafUnit))
}

// ---- observation ------------------------------------------------------------------------------------

func c02ModIdx(id *meta.Identity) int {
	if m, ok := id.Parent().(*meta.Module); ok && m.Ident() == "i" {
		return 1
	}
	return 0
}

func c02Iid(id *meta.Identity) string {
	return emit.Pair(emit.Nat(c02ModIdx(id)), emit.Str(id.Ident()))
}

type c02ObsType struct {
	Format   int
	Ranges   []string
	Lengths  []string
	Patterns []string
	FD       int
	Enums    []string
	Bits     []string
	Target   string
	Bases    []string
	Accepted []string
	Members  []*c02ObsType
	term     string
}

func c02Observe(t *meta.Type, top bool) *c02ObsType {
	o := &c02ObsType{FD: t.FractionDigits()}
	f := t.Format()
	if !top {
		f = f.Single()
	}
	o.Format = int(f)
	var rs, ls, ps, es, bs []string
	for _, r := range t.Range() {
		o.Ranges = append(o.Ranges, r.String())
		rs = append(rs, emit.Str(r.String()))
	}
	for _, r := range t.Length() {
		o.Lengths = append(o.Lengths, r.String())
		ls = append(ls, emit.Str(r.String()))
	}
	for _, p := range t.Patterns() {
		o.Patterns = append(o.Patterns, fmt.Sprintf("%s inverted=%v", p.Pattern, p.Inverted()))
		ps = append(ps, emit.Pair(emit.Str(p.Pattern), emit.Bool(p.Inverted())))
	}
	enums := t.Enums()
	for i, e := range t.Enum() {
		id := int64(e.Id)
		// Enum() and Enums() must tell the same story; a disagreement is made visible as a bogus id
		if i >= len(enums) || enums[i].Ident() != e.Label || enums[i].Value() != e.Id {
			id = -999
		}
		o.Enums = append(o.Enums, fmt.Sprintf("%s=%d", e.Label, id))
		es = append(es, emit.Pair(emit.Str(e.Label), emit.Z(id)))
	}
	if len(t.Enum()) != len(enums) && t.Format().Single() == val.FmtEnum {
		es = append(es, emit.Pair(emit.Str("?"), emit.Z(-998)))
	}
	if t.Format().Single() == val.FmtBits {
		for _, b := range t.Bits() {
			o.Bits = append(o.Bits, fmt.Sprintf("%s=%d", b.Ident(), b.Position))
			bs = append(bs, emit.Pair(emit.Str(b.Ident()), emit.Z(int64(b.Position))))
		}
	}
	target := "None"
	if t.Format().Single() == val.FmtLeafRef {
		tf := int(t.Resolve().Format())
		o.Target = fmt.Sprint(t.Resolve().Format())
		target = emit.Some(emit.Z(int64(tf)))
	}
	var bases, acc []string
	seen := map[*meta.Identity]bool{}
	var walk func(id *meta.Identity)
	walk = func(id *meta.Identity) {
		for _, d := range id.DerivedDirect() {
			if !seen[d] {
				seen[d] = true
				o.Accepted = append(o.Accepted, fmt.Sprintf("%d:%s", c02ModIdx(d), d.Ident()))
				acc = append(acc, c02Iid(d))
				walk(d)
			}
		}
	}
	for _, b := range t.Base() {
		o.Bases = append(o.Bases, fmt.Sprintf("%d:%s", c02ModIdx(b), b.Ident()))
		bases = append(bases, c02Iid(b))
	}
	for _, b := range t.Base() {
		walk(b)
	}
	sort.Strings(o.Accepted)
	sort.Strings(acc)
	var ms []string
	for _, u := range t.Union() {
		m := c02Observe(u, false)
		o.Members = append(o.Members, m)
		ms = append(ms, m.term)
	}
	o.term = emit.App("OType", emit.Z(int64(o.Format)), emit.List(rs), emit.List(ls), emit.List(ps), emit.Z(int64(o.FD)),
		emit.List(es), emit.List(bs), target, emit.List(bases), emit.List(acc), emit.List(ms))
	return o
}

type c02ObsLeaf struct {
	Where   string
	Type    *c02ObsType
	Default []string
	HasDef  bool
	Units   string
}

func c02Opener(files map[string]string) func(string, string) (io.Reader, error) {
	return func(src, ext string) (io.Reader, error) {
		if s, ok := files[src]; ok {
			return strings.NewReader(s), nil
		}
		return nil, os.ErrNotExist
	}
}

// loads the module set; a failure (or panic) is the observation of every leaf of the set
func c02Load(files map[string]string) (m *meta.Module, term string, desc interface{}, class string) {
	defer func() {
		if r := recover(); r != nil {
			m, term, desc, class = nil, "OPanic", fmt.Sprintf("panic: %v", r), "panic"
		}
	}()
	m, err := parser.LoadModule(c02Opener(files), "m")
	if err != nil {
		return nil, "OError", "error: " + err.Error(), "error"
	}
	return m, "", nil, "loaded"
}

// what the accessors return for the leaf at u<k>/<rel> for each of the n uses
func c02ObserveLeaf(m *meta.Module, rel string, n int) (term string, desc interface{}, class string) {
	defer func() {
		if r := recover(); r != nil {
			term, desc, class = "OPanic", fmt.Sprintf("panic: %v", r), "panic"
		}
	}()
	var leaves []c02ObsLeaf
	var terms []string
	for k := 1; k <= n; k++ {
		where := fmt.Sprintf("u%d/%s", k, rel)
		d := meta.Find(m, where)
		l, ok := d.(meta.Leafable)
		if !ok {
			return "OError", "leaf " + where + " missing", "error"
		}
		ot := c02Observe(l.Type(), true)
		ol := c02ObsLeaf{Where: where, Type: ot, HasDef: l.HasDefault(), Units: l.Units()}
		dt := "None"
		if l.HasDefault() {
			switch x := l.DefaultValue().(type) {
			case string:
				ol.Default = []string{x}
			case []string:
				ol.Default = x
			}
			dt = emit.Some(c02Strs(ol.Default))
		}
		leaves = append(leaves, ol)
		terms = append(terms, emit.Pair(emit.Pair(ot.term, dt), emit.Str(l.Units())))
	}
	return emit.App("OLoaded", emit.List(terms)), leaves, "loaded"
}

// ---- which identities an identityref accepts -----------------------------------------------------------

type c02ProbeObs struct {
	Text  string
	Found string `json:",omitempty"` // identity meta.FindIdentity(Type.Base(), Text) returned
	Value string `json:",omitempty"` // label of node.NewValue(Type, Text)
	Err   string `json:",omitempty"`
	Panic string `json:",omitempty"`
}

func c02ProbeOne(t *meta.Type, text string) (term string, d c02ProbeObs) {
	d.Text = text
	defer func() {
		if r := recover(); r != nil {
			term, d.Panic = emit.Pair(emit.Str(text), "PPanic"), fmt.Sprint(r)
		}
	}()
	found := "None"
	if id := meta.FindIdentity(t.Base(), text); id != nil {
		found = emit.Some(c02Iid(id))
		d.Found = fmt.Sprintf("%d:%s", c02ModIdx(id), id.Ident())
	}
	value := "None"
	v, err := node.NewValue(t, text)
	if err != nil {
		d.Err = err.Error()
	} else {
		label := fmt.Sprintf("?%T", v)
		switch x := v.(type) {
		case val.IdentRef:
			label = x.Label
		case val.IdentRefList:
			if len(x) == 1 {
				label = x[0].Label
			}
		}
		d.Value = label
		value = emit.Some(emit.Str(label))
	}
	return emit.Pair(emit.Str(text), emit.App("PObs", found, value)), d
}

// The texts of the scenario tried against the identityref type of the leaf under its use number
// `use`, as two tables: the texts that name one of the type's bases, and all the others.
func (s *c02Scenario) addFindCases(ctx *core.Ctx, m *meta.Module, use int, files map[string]string) {
	where := fmt.Sprintf("u%d/a/b/x", use)
	l, ok := meta.Find(m, where).(meta.Leafable)
	if !ok || l.Type().Format().Single() != val.FmtIdentityRef {
		return
	}
	t := l.Type()
	isBase := func(text string) bool {
		local := text[strings.IndexByte(text, ':')+1:]
		for _, b := range t.Base() {
			if b.Ident() == local {
				return true
			}
		}
		return false
	}
	var tables [2][]string
	var descs [2][]c02ProbeObs
	for _, text := range s.probes {
		k := 0
		if isBase(text) {
			k = 1
		}
		term, d := c02ProbeOne(t, text)
		tables[k] = append(tables[k], term)
		descs[k] = append(descs[k], d)
	}
	for k := range tables {
		if len(tables[k]) == 0 {
			continue
		}
		what := "texts that do not name a base"
		if k == 1 {
			what = "texts naming a base of the type"
		}
		if ctx.Explode == ctx.N() {
			for i := range tables[k] {
				ctx.Add(emit.App("CFind", s.envTerm(), s.leafTerm(), emit.List(tables[k][i:i+1])),
					map[string]interface{}{"kind": "identityref value", "leaf": where, "files": files, "observed": descs[k][i]}, true)
			}
			continue
		}
		ctx.Add(emit.App("CFind", s.envTerm(), s.leafTerm(), emit.List(tables[k])),
			map[string]interface{}{"kind": "table", "what": "identityref values: " + what, "leaf": where, "files": files,
				"hierarchy": s.idShape, "observed": descs[k]}, true)
		ctx.Count("identityref values: " + what)
		ctx.Count(fmt.Sprintf("identityref values: hierarchy=%s", s.idShape))
		for _, d := range descs[k] {
			if d.Value != "" {
				ctx.Count("identityref values: text accepted")
			} else {
				ctx.Count("identityref values: text rejected")
			}
		}
	}
}

// ---- driver -----------------------------------------------------------------------------------------

func c02Gen(r *gen.Rng, forceKind string) *c02Scenario {
	s := &c02Scenario{r: r}
	switch r.Intn(5) {
	case 0: // written directly in the tree of m
	case 1, 2, 3:
		s.grouping = true
	default:
		s.grouping, s.home = true, 1
	}
	s.uses = 1
	if s.grouping {
		s.uses = 1 + r.Intn(3)
	}
	s.leafList = r.Chance(1, 4)
	if r.Chance(1, 3) {
		s.twin = &c02Twin{level: r.Intn(2), before: r.Bool()}
	}
	// leafref targets (always present)
	s.tgtSibling = &c02Stmt{Ident: gen.Pick(r, c02Ints)}
	s.tgtTop = &c02Stmt{Ident: "string"}
	if r.Chance(1, 3) {
		name := s.fresh("t")
		s.addTd(plModule, &c02Typedef{Name: name, Type: &c02Stmt{Ident: gen.Pick(r, c02Ints)}})
		s.tgtSibling = &c02Stmt{Ident: name}
	}
	if r.Chance(1, 3) {
		name := s.fresh("t")
		s.mTop = append(s.mTop, &c02Typedef{Name: name, Type: &c02Stmt{Ident: "decimal64", FD: 2}})
		s.tgtTop = &c02Stmt{Ident: name}
	}
	s.tgtSibList, s.tgtTopList = r.Chance(1, 5), r.Chance(1, 5)
	kind := forceKind
	if kind == "" {
		kind = gen.Pick(r, []string{"numeric", "numeric", "string", "string", "enumeration", "enumeration", "bits",
			"union", "union", "leafref", "leafref", "identityref", "identityref", "decimal64", "plain", "negative"})
	}
	switch kind {
	case "numeric":
		s.genNumeric()
	case "string":
		s.genString()
	case "enumeration":
		s.genEnumOrBits(false, false)
	case "negative":
		s.genEnumOrBits(false, r.Chance(1, 2))
	case "bits":
		s.genEnumOrBits(true, false)
	case "union":
		s.genUnion()
	case "leafref":
		s.genLeafref()
	case "identityref":
		s.genIdentityref()
	case "decimal64":
		s.genDecimal()
	default:
		s.genPlain()
	}
	// decoys: typedefs that are never named
	if r.Chance(1, 3) {
		s.addTd(gen.Pick(r, s.allowedPlaces()), &c02Typedef{Name: s.fresh("zz"), Type: &c02Stmt{Ident: "int8"}})
	}
	// the leaf's own default / units
	if r.Chance(1, 3) {
		if s.leafList {
			s.leafDef = []string{"11", "12"}[:1+r.Intn(2)]
		} else {
			s.leafDef = []string{"11"}
		}
		if s.edgeLeaf {
			// string-like leaf: the leaf's own statement(s) range over the edge texts too
			for i := range s.leafDef {
				s.leafDef[i] = gen.Pick(r, c02EdgeTexts)
			}
			if s.leafDef[0] == "" {
				c02Count("default text: the leaf states the empty string")
			}
		}
	}
	if r.Chance(1, 3) {
		s.leafUnit = "leafunit"
		if r.Chance(1, 3) {
			s.leafUnit = gen.Pick(r, c02EdgeUnits)
		}
	}
	if s.twin != nil {
		s.genTwin()
	}
	return s
}

func C02(ctx *core.Ctx) error {
	ctx.Imports = "Typed.Model Typed.Spec Typed.FindId Check.C02Check"
	ctx.Rule = "a case is non-trivial when the leaf's type names at least one typedef, or is a union, leafref, identityref, enumeration or bits, or the enclosing grouping is used more than once (the leaf of a sibling scope always names a typedef); every loaded identityref leaf adds two table cases (always non-trivial): each identity name of the module set, some qualified by the module, and unknown names, tried through meta.FindIdentity and node.NewValue, split into texts naming a base of the type and the rest"
	c02Hist = ctx.Count
	defer func() { c02Hist = nil }()
	r := gen.New(ctx.Seed)
	n := ctx.Scale(300, 3000)
	if ctx.Tier == "search" {
		n = 6000
	}
	for k := 0; k < n; k++ {
		s := c02Gen(r.Fork(uint64(k)), "")
		files := s.files()
		uses := 1
		if s.grouping {
			uses = s.uses
		}
		m, obs, odesc, class := c02Load(files)
		if m != nil {
			obs, odesc, class = c02ObserveLeaf(m, "a/b/x", uses)
		}
		term := emit.App("CLeaf", s.envTerm(), s.leafTerm(), emit.Nat(uses), obs)
		desc := map[string]interface{}{"kind": s.kind, "leaf": "a/b/x", "uses": uses, "files": files, "observed": odesc}
		_, builtin := val.TypeAsFormat(s.leafType.Ident)
		nontrivial := !builtin || uses > 1 || s.kind != "numeric" && s.kind != "string" && s.kind != "plain" && s.kind != "decimal64"
		ctx.Add(term, desc, nontrivial)
		if m != nil && s.kind == "identityref" {
			s.addFindCases(ctx, m, 1+k%uses, files)
		}
		ctx.Count("kind=" + s.kind)
		ctx.Count("outcome=" + class)
		ctx.Count(fmt.Sprintf("uses=%d", uses))
		if s.home == 1 {
			ctx.Count("home=imported-grouping")
		} else if s.grouping {
			ctx.Count("home=grouping")
		} else {
			ctx.Count("home=direct")
		}
		if s.leafList {
			ctx.Count("leaf-list")
		}
		if t := s.twin; t != nil {
			ctx.Count(fmt.Sprintf("sibling-scope level=%d before=%v", t.level, t.before))
			if t.reused > 0 {
				ctx.Count("sibling-scope reusing a typedef name")
			}
			xHit, yHit := s.twinCollision()
			if xHit {
				ctx.Count("sibling-scope: name in the chain of x redefined next door")
			}
			if yHit {
				ctx.Count("sibling-scope: name used by y redefined next door")
			}
			// the second leaf of the set, judged against its own frames. When the set does not load,
			// the case of x above already judges the failure (y's own chain is always loadable).
			if m != nil {
				rel := strings.Join(append(s.twinPath()[1:], "y"), "/")
				tobs, tdesc, tclass := c02ObserveLeaf(m, rel, uses)
				tterm := emit.App("CLeaf", s.envTerm(), s.twinLeafTerm(), emit.Nat(uses), tobs)
				ctx.Add(tterm, map[string]interface{}{"kind": "sibling-scope", "leaf": rel, "uses": uses, "files": files,
					"observed": tdesc}, true)
				ctx.Count("kind=sibling-scope")
				ctx.Count("outcome(sibling)=" + tclass)
			}
		}
	}
	return nil
}
