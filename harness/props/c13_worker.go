package props

// C13 worker: executes one request per input line against a fresh clone of a world's store, inside
// recover and under a wall-clock limit. The parent (c13.go) re-executes os.Args[0] with the hidden
// property name "c13worker"; a worker that dies (stack overflow, os.Exit inside the library) or does
// not answer within the limit is killed and restarted, the request is classified Fatal / Timeout.

import (
	"bufio"
	"encoding/json"
	"fmt"
	"math"
	"net/url"
	"os"
	"runtime"
	"strings"
	"time"

	"github.com/freeconf/yang/meta"
	"github.com/freeconf/yang/node"
	"github.com/freeconf/yang/nodeutil"
	"github.com/freeconf/yang/parser"
	"github.com/freeconf/yang/val"

	"yvh/core"
	"yvh/gen"
	"yvh/tree"
)

func init() { Registry["C13WORKER"] = c13Worker }

// ---- worlds --------------------------------------------------------------------------------------

type c13World struct {
	Idx      int
	Yang     string
	M        *meta.Module
	Root     *tree.SNode
	Data     *tree.Cont
	Export   *tree.Cont // what a reader of Data sees (schema order, defaults of unset leaves)
	ExpDesc  string
	Choices  bool
	DataJSON string
	ImplJSON string // the data as the JSON-reader and reflection backends hold it ("" : DataJSON)
	Keys     bool   // the fixed world of multi-key lists and of nodes without definitions (c13KeysYang)
}

// c13KeysYang: lists with one, two and three keys (also nested, also below a container) and every kind of node
// that holds no definitions: leaf, leaf-list, choice, anydata, anyxml, action, rpc. The reference store and the
// flat schema view (tree.SNode) do not know anydata / anyxml / actions: no request on this world names such a node
// as the last segment of a path, the data of the store leaves them out (c13KeysData) and the JSON-reader /
// reflection backends hold c13KeysImplData.
const c13KeysYang = `module k { namespace "urn:k"; prefix k; revision 2020-01-01;
 list l1 { key a; leaf a { type string; } leaf v { type int32; } anydata extra; }
 list l2 { key "a b"; leaf a { type int32; } leaf b { type string; } leaf v { type int32; }
   list in3 { key "x y z"; leaf x { type string; } leaf y { type uint8; } leaf z { type string; } leaf w { type string; } } }
 list l3 { key "a b c"; leaf a { type string; } leaf b { type int64; } leaf c { type string; }
   container d { leaf e { type string; } anyxml doc; } }
 container c { leaf l { type string; } leaf-list ll { type string; } anydata blob; anyxml doc;
   choice ch { case one { leaf l1 { type string; } } case two { leaf l2x { type string; } } }
   action reset { input { leaf x { type string; } } }
   list m2 { key "p q"; leaf p { type string; } leaf q { type string; } anydata extra; } }
 rpc doit { input { leaf x { type string; } } }
}`

const c13KeysData = `{"l1":[{"a":"x","v":1},{"a":"y"}],"l2":[{"a":1,"b":"x","v":2,"in3":[{"x":"p","y":2,"z":"q","w":"r"}]},{"a":2,"b":"y"}],"l3":[{"a":"a","b":5,"c":"c","d":{"e":"f"}}],"c":{"l":"hello","ll":["q"],"l1":"one","m2":[{"p":"p1","q":"q1"}]}}`

const c13KeysImplData = `{"l1":[{"a":"x","v":1,"extra":{"x":{"y":2}}},{"a":"y"}],"l2":[{"a":1,"b":"x","v":2,"in3":[{"x":"p","y":2,"z":"q","w":"r"}]},{"a":2,"b":"y"}],"l3":[{"a":"a","b":5,"c":"c","d":{"e":"f","doc":{"x":1}}}],"c":{"l":"hello","ll":["q"],"blob":{"x":1},"doc":{"x":{"y":[1,2]}},"l1":"one","m2":[{"p":"p1","q":"q1","extra":{"x":1}}]}}`

func (w *c13World) implJSON() string {
	if w.ImplJSON != "" {
		return w.ImplJSON
	}
	return w.DataJSON
}

const c13FixedYang = `module m { namespace "urn:m"; prefix m; revision 2020-01-01;
 container c { leaf z { type string; } leaf-list ll { type int32; }
   list q { key k; leaf k { type string; } leaf v { type int32; } leaf s { type string; }
            container in { leaf w { type int32; } } leaf-list tags { type string; } }
   container d { container e { leaf f { type int32; } } }
 }
 leaf top { type int32; }
 leaf flag { type boolean; }
 list l2 { key "a b"; leaf a { type int32; } leaf b { type string; } leaf v { type int32; } }
 container a { container b { container c { container d { container e { leaf x { type int32; } } } } } }
}`

const c13FixedData = `{"c":{"z":"hi","ll":[1,2],"q":[{"k":"a","v":3,"s":"x","in":{"w":1},"tags":["t1","t2"]},{"k":"b"},{"k":"c d","v":1}],"d":{"e":{"f":1}}},"top":4,"flag":true,"l2":[{"a":1,"b":"x","v":2},{"a":2,"b":"y"}],"a":{"b":{"c":{"d":{"e":{"x":7}}}}}}`

func c13Export(w *c13World, data *tree.Cont) (out *tree.Cont, err error, panicked string) {
	defer func() {
		if r := recover(); r != nil {
			panicked = fmt.Sprintf("%v", r)
			out = nil
		}
	}()
	b := node.NewBrowser(w.M, data.Node(w.Root, nil, ""))
	capt := tree.NewCont()
	err = b.Root().UpsertInto(capt.Node(w.Root, nil, ""))
	return capt, err, ""
}

func c13Worlds(seed uint64, n int) ([]*c13World, error) {
	var worlds []*c13World
	finish := func(w *c13World) error {
		exp, err, p := c13Export(w, w.Data)
		if err != nil || p != "" {
			return fmt.Errorf("world %d: export of generated data failed: %v %s", w.Idx, err, p)
		}
		w.Export = exp
		w.ExpDesc = exp.Desc(w.Root)
		w.DataJSON = w.Data.JSON(w.Root)
		return nil
	}
	// world 0: fixed schema and data (every confirmed crash of DESIGN.md C13 has its position here)
	{
		m, err := parser.LoadModuleFromString(nil, c13FixedYang)
		if err != nil {
			return nil, err
		}
		w := &c13World{Idx: 0, Yang: c13FixedYang, M: m, Root: tree.Root(m), Data: tree.NewCont()}
		src, err := nodeutil.ReadJSON(c13FixedData)
		if err != nil {
			return nil, err
		}
		b := node.NewBrowser(m, w.Data.Node(w.Root, nil, ""))
		if err := b.Root().UpsertFrom(src); err != nil {
			return nil, err
		}
		if err := finish(w); err != nil {
			return nil, err
		}
		worlds = append(worlds, w)
	}
	base := gen.New(seed)
	for i := 1; i < n; i++ {
		var w *c13World
		for try := 0; try < 50 && w == nil; try++ {
			r := base.Fork(uint64(1000*i + try))
			choices := i%2 == 0
			o := tree.GenOpts{MaxDepth: 3, MaxKids: 4, Choices: choices, Lists: true, Defaults: i%3 == 0, LeafLists: true,
				KeyTypes: []string{"string", "int32", "uint32", "int64", "uint8"}}
			y, m, root, err := tree.GenSchema(r, o)
			if err != nil || root == nil {
				continue
			}
			hasList, hasCont, hasLeaf := false, false, false
			for _, k := range root.Kids {
				switch k.Kind {
				case tree.KList:
					hasList = true
				case tree.KCont:
					hasCont = true
				default:
					hasLeaf = true
				}
			}
			if !(hasList && hasCont && hasLeaf) && try < 40 {
				continue
			}
			data := tree.GenData(r, root, 80, 3)
			cand := &c13World{Idx: i, Yang: y, M: m, Root: root, Data: data, Choices: choices}
			if err := finish(cand); err != nil {
				continue
			}
			w = cand
		}
		if w == nil {
			return nil, fmt.Errorf("no usable world %d", i)
		}
		worlds = append(worlds, w)
	}
	// last world: fixed, multi-key lists and nodes without definitions
	{
		m, err := parser.LoadModuleFromString(nil, c13KeysYang)
		if err != nil {
			return nil, err
		}
		w := &c13World{Idx: n, Yang: c13KeysYang, M: m, Root: tree.Root(m), Data: tree.NewCont(), ImplJSON: c13KeysImplData, Keys: true, Choices: true}
		src, err := nodeutil.ReadJSON(c13KeysData)
		if err != nil {
			return nil, err
		}
		b := node.NewBrowser(m, w.Data.Node(w.Root, nil, ""))
		if err := b.Root().UpsertFrom(src); err != nil {
			return nil, err
		}
		if err := finish(w); err != nil {
			return nil, err
		}
		worlds = append(worlds, w)
	}
	return worlds, nil
}

// ---- requests ------------------------------------------------------------------------------------

type c13Req struct {
	W    int      `json:"w"`
	Kind string   `json:"kind"`
	Tag  string   `json:"tag"`
	Text string   `json:"text"`           // document / path / query / xpath text
	At   string   `json:"at,omitempty"`   // (valid) path of the selection the request is applied to
	Sel  string   `json:"sel,omitempty"`  // match: selector
	Base []string `json:"base,omitempty"` // match: schema idents of the base path from the root
	Cand []string `json:"cand,omitempty"` // match: schema idents of the candidate path from the root
	Val  int      `json:"val,omitempty"`  // setvalue: index in c13SetPool
	// path applied at a selection below the root (At != ""): schema idents of At from the root, and whether the
	// selection is a list entry (the model rebuilds the chain of parent selections from these)
	AtNames []string `json:"at_names,omitempty"`
	AtRow   bool     `json:"at_row,omitempty"`
	// node implementation the browser of a path request stands on: "" the reference store, "json" the library's
	// JSON reader over the world's data, "reflect" nodeutil.Reflect over the decoded data (maps and slices)
	Impl string `json:"impl,omitempty"`
}

// c13MustErr: the mismatch classes the property names (an object where a list is declared, a scalar where a
// container is declared, a list entry without its key, a key on a non-list, a step below a leaf) must be
// reported as an error; the other mutations may be accepted or rejected
func c13MustErr(tag string) bool {
	switch {
	case strings.HasPrefix(tag, "json-shape/cont/"):
		return !strings.HasSuffix(tag, "/obj0") && !strings.HasSuffix(tag, "/obj1")
	case strings.HasPrefix(tag, "json-shape/list/"):
		return !strings.HasSuffix(tag, "/arr0")
	case strings.HasPrefix(tag, "json-shape/entry/"):
		return true
	case tag == "json-nokey", tag == "json-shape/key/null", tag == "xml-nokey", tag == "xml-shape/cont/text":
		return true
	case strings.HasPrefix(tag, "path-key-on-"), strings.HasPrefix(tag, "path-below-"):
		return true
	case strings.HasPrefix(tag, "json-at-list/"), strings.HasPrefix(tag, "json-insert-at-list/"):
		// the edit starts at the list selection, the body is { list : v }: anything but an array is "an object /
		// a scalar where a list is declared", an array of non-entries is rejected like json-shape/list/*
		return !strings.HasSuffix(tag, "/arr0")
	case strings.HasPrefix(tag, "json-at-entry/"):
		// the edit starts at a list entry, the body is v: an array or a scalar where the entry object is expected
		return !strings.HasSuffix(tag, "/obj0") && !strings.HasSuffix(tag, "/obj1") && !strings.HasSuffix(tag, "/null")
	}
	return false
}

type c13Resp struct {
	Class     string `json:"class"` // Ok Err Panic Timeout Fatal
	Frame     string `json:"frame,omitempty"`
	Msg       string `json:"msg,omitempty"`
	Preserved bool   `json:"preserved"`
	Changed   bool   `json:"changed"`           // store differs from the original (informational)
	Match     int    `json:"match,omitempty"`   // match kind: 1 false, 2 true; path at a sub-selection with a query: 1 differs from / 2 same as the Find without the query
	NoQuery   string `json:"noquery,omitempty"` // path at a sub-selection with a query: what the Find without the query did
}

type c13PoolVal struct {
	Name string
	V    interface{}
}

type c13Stringer struct{}

func (c13Stringer) String() string { return "stringer" }

func c13SetPool() []c13PoolVal {
	var nilPtr *int
	seven := 7
	return []c13PoolVal{
		{"nil", nil}, {"int", 5}, {"int-neg", -5}, {"int64-max", int64(math.MaxInt64)}, {"int64-min", int64(math.MinInt64)},
		{"uint64-max", uint64(math.MaxUint64)}, {"uint8", uint8(200)}, {"int8", int8(-100)},
		{"float-nan", math.NaN()}, {"float-inf", math.Inf(1)}, {"float-big", 1e300}, {"float32", float32(1.5)},
		{"string", "str"}, {"string-empty", ""}, {"string-num", "12"}, {"string-long", strings.Repeat("x", 5000)},
		{"bool", true}, {"ints", []int{1, 2}}, {"ints-empty", []int{}}, {"strings", []string{"a", "b"}},
		{"ifaces", []interface{}{1, "a"}}, {"ifaces-nil", []interface{}{nil}}, {"ifaces-nested", []interface{}{[]interface{}{1}}},
		{"map", map[string]interface{}{"a": 1}}, {"struct", struct{ A int }{1}}, {"ptr", &seven}, {"ptr-nil", nilPtr},
		{"bytes", []byte{1, 2}}, {"json-number", json.Number("12")}, {"stringer", c13Stringer{}},
		{"func", func() {}}, {"chan", make(chan int)}, {"complex", complex(1, 2)}, {"time", time.Unix(0, 0)},
		{"val-int32", val.Int32(3)}, {"val-string", val.String("v")}, {"val-strlist", val.StringList([]string{"a"})},
		{"floats", []float64{1.5}}, {"bools", []bool{true}}, {"rune", 'x'}, {"uintptr", uintptr(3)},
	}
}

func c13TopFrame() (lib string, top string) {
	pcs := make([]uintptr, 64)
	n := runtime.Callers(3, pcs)
	fr := runtime.CallersFrames(pcs[:n])
	for {
		f, more := fr.Next()
		if top == "" && !strings.HasPrefix(f.Function, "runtime.") {
			top = f.Function
		}
		if strings.Contains(f.Function, "freeconf/yang/") {
			fn := f.Function[strings.Index(f.Function, "freeconf/yang/")+len("freeconf/yang/"):]
			return fn, top
		}
		if !more {
			break
		}
	}
	return "none", top
}

func c13SchemaPath(w *c13World, names []string) *node.Path {
	p := &node.Path{Meta: w.M}
	var cur meta.Definition = w.M
	for _, n := range names {
		hd, ok := cur.(meta.HasDefinitions)
		if !ok {
			return p
		}
		d := hd.Definition(n)
		if d == nil {
			return p
		}
		p = &node.Path{Meta: d, Parent: p}
		cur = d
	}
	return p
}

// c13Run executes the request proper; what it returns is folded into Ok/Err, a panic is recovered by the caller.
func c13Run(w *c13World, rq *c13Req, b *node.Browser, resp *c13Resp) error {
	root := b.Root()
	at := func() (*node.Selection, error) {
		if rq.At == "" {
			return root, nil
		}
		s, err := root.Find(rq.At)
		if err != nil {
			return nil, fmt.Errorf("harness: target %q: %w", rq.At, err)
		}
		if s == nil {
			return nil, fmt.Errorf("harness: target %q not found", rq.At)
		}
		return s, nil
	}
	read := func(s *node.Selection) error {
		if s == nil {
			return nil
		}
		if meta.IsLeaf(s.Meta()) {
			_, err := s.Get()
			return err
		}
		_, err := nodeutil.WriteJSON(s)
		return err
	}
	switch rq.Kind {
	case "json":
		n, err := nodeutil.ReadJSON(rq.Text)
		if err != nil {
			return err
		}
		s, err := at()
		if err != nil {
			return err
		}
		switch {
		case strings.HasPrefix(rq.Tag, "json-insert"):
			return s.InsertFrom(n)
		case strings.HasPrefix(rq.Tag, "json-update"):
			return s.UpdateFrom(n)
		case strings.HasPrefix(rq.Tag, "json-replace"):
			return s.ReplaceFrom(n)
		}
		return s.UpsertFrom(n)
	case "xml":
		n, err := nodeutil.ReadXMLDoc(strings.NewReader(rq.Text))
		if err != nil {
			return err
		}
		return root.UpsertFrom(n)
	case "path":
		if rq.At != "" {
			return c13RunRel(rq, at, read, resp)
		}
		s, err := root.Find(rq.Text)
		if err != nil {
			return err
		}
		if s != nil {
			_ = s.Path.String()
		}
		return read(s)
	case "query":
		s, err := at()
		if err != nil {
			return err
		}
		s2, err := s.Find("?" + rq.Text)
		if strings.HasPrefix(rq.Tag, "query-constrain") {
			s2, err = s.Constrain(rq.Text)
		}
		if err != nil {
			return err
		}
		return read(s2)
	case "xparse":
		_, err := node.NewWhere(rq.Text)
		return err
	case "xpath":
		s, err := at()
		if err != nil {
			return err
		}
		if rq.Tag == "xpath-filter" {
			f, err := node.NewFilterConstraint(rq.Text)
			if err != nil {
				return err
			}
			_, err = f.CheckNotifyFilterConstraints(s)
			return err
		}
		if meta.IsList(s.Meta()) && !s.InsideList {
			s2, err := s.Find("?where=" + url.QueryEscape(rq.Text))
			if err != nil {
				return err
			}
			return read(s2)
		}
		// a container or a list entry: the predicate machinery directly
		f, err := node.NewFilterConstraint(rq.Text)
		if err != nil {
			return err
		}
		_, err = f.CheckNotifyFilterConstraints(s)
		return err
	case "set":
		s, err := at()
		if err != nil {
			return err
		}
		return s.SetValue(c13SetPool()[rq.Val].V)
	case "match":
		pe, err := node.ParsePathExpression(rq.Sel)
		if err != nil {
			return err
		}
		if pe.PathMatches(c13SchemaPath(w, rq.Base), c13SchemaPath(w, rq.Cand)) {
			resp.Match = 2
		} else {
			resp.Match = 1
		}
		return nil
	}
	return fmt.Errorf("harness: unknown request kind %q", rq.Kind)
}

// c13FindObs: what Find did, as far as the property looks: class and the path of the selection found
func c13FindObs(s *node.Selection, err error) string {
	switch {
	case err != nil:
		return "Err"
	case s == nil:
		return "Ok nil"
	}
	return "Ok " + s.Path.String()
}

// c13RunRel: Find(text) on the selection at rq.At; text may start with "../" steps and may carry a query. When it
// carries one, the same Find without the query part is made first (on a selection of its own, inside a recover of
// its own) and resp.Match says whether both ended alike.
func c13RunRel(rq *c13Req, at func() (*node.Selection, error), read func(*node.Selection) error, resp *c13Resp) error {
	q := strings.IndexByte(rq.Text, '?')
	if q >= 0 {
		func() {
			defer func() {
				if r := recover(); r != nil {
					resp.NoQuery = fmt.Sprintf("Panic %v", r)
				}
			}()
			ref, err := at()
			if err != nil {
				resp.NoQuery = "harness: " + err.Error()
				return
			}
			resp.NoQuery = c13FindObs(ref.Find(rq.Text[:q]))
		}()
	}
	start, err := at()
	if err != nil {
		return err
	}
	s, err := start.Find(rq.Text)
	if q >= 0 {
		resp.Match = 1
		if c13FindObs(s, err) == resp.NoQuery {
			resp.Match = 2
		}
	}
	if err != nil {
		return err
	}
	if s != nil {
		_ = s.Path.String()
	}
	return read(s)
}

// subset: every leaf, container and row of a is in b with the same value (rows by key)
func c13Subset(s *tree.SNode, a, b *tree.Cont) bool {
	if a == nil {
		return true
	}
	if b == nil {
		return false
	}
	for k, v := range a.Leaves {
		w, ok := b.Leaves[k]
		if !ok || w == nil || v.String() != w.String() {
			return false
		}
	}
	for _, kid := range s.Kids {
		switch kid.Kind {
		case tree.KCont:
			if ac, ok := a.Conts[kid.Name]; ok {
				if !c13Subset(kid, ac, b.Conts[kid.Name]) {
					return false
				}
			}
		case tree.KList:
			al, ok := a.Lists[kid.Name]
			if !ok {
				continue
			}
			bl := b.Lists[kid.Name]
			if bl == nil {
				return false
			}
			keyOf := func(r *tree.Cont) string {
				var ks []string
				for _, ki := range kid.Keys {
					if v, ok := r.Leaves[kid.Kids[ki].Name]; ok && v != nil {
						ks = append(ks, v.String())
					} else {
						ks = append(ks, "\x01nil")
					}
				}
				return strings.Join(ks, "\x00")
			}
			for _, ar := range al.Rows {
				found := false
				for _, br := range bl.Rows {
					if keyOf(ar) == keyOf(br) && c13Subset(kid, ar, br) {
						found = true
						break
					}
				}
				if !found {
					return false
				}
			}
		}
	}
	return true
}

func c13IsEdit(kind string) bool { return kind == "json" || kind == "xml" || kind == "set" }

func c13Exec(w *c13World, rq *c13Req) (resp c13Resp) {
	store := w.Data.Clone()
	func() {
		defer func() {
			if r := recover(); r != nil {
				resp.Class = "Panic"
				resp.Frame, _ = c13TopFrame()
				resp.Msg = fmt.Sprintf("%v", r)
				if len(resp.Msg) > 200 {
					resp.Msg = resp.Msg[:200]
				}
			}
		}()
		var n node.Node
		var err error
		switch rq.Impl {
		case "json":
			n, err = nodeutil.ReadJSON(w.implJSON())
		case "reflect":
			var doc map[string]interface{}
			if err = json.Unmarshal([]byte(w.implJSON()), &doc); err == nil {
				n = nodeutil.ReflectChild(doc)
			}
		default:
			n = store.Node(w.Root, nil, "")
		}
		if err != nil {
			panic("harness: backend " + rq.Impl + ": " + err.Error())
		}
		b := node.NewBrowser(w.M, n)
		err = c13Run(w, rq, b, &resp)
		if err != nil {
			resp.Class = "Err"
			resp.Msg = err.Error()
			if len(resp.Msg) > 200 {
				resp.Msg = resp.Msg[:200]
			}
		} else {
			resp.Class = "Ok"
		}
	}()
	// the data stored before the request is read again through a fresh browser
	after, err, p := c13Export(w, store)
	if err != nil || p != "" || after == nil {
		resp.Preserved = false
		resp.Changed = true
		if resp.Msg == "" {
			resp.Msg = fmt.Sprintf("re-read failed: %v %s", err, p)
		}
		return
	}
	same := after.Desc(w.Root) == w.ExpDesc
	resp.Changed = !same
	if c13IsEdit(rq.Kind) {
		// an accepted edit may overwrite values: the tree must merely be readable (it was: the export
		// succeeded); a rejected one may have been applied in part: what was there before must still be there
		// (insert / update / replace of a whole document fail after they wrote the mutated member: readable is all
		// that can be asked of them)
		partial := strings.HasPrefix(rq.Tag, "json-insert") || strings.HasPrefix(rq.Tag, "json-update") || strings.HasPrefix(rq.Tag, "json-replace")
		resp.Preserved = resp.Class == "Ok" || same || partial || c13Subset(w.Root, w.Export, after)
	} else {
		resp.Preserved = same
	}
	return
}

// wall-clock limit of one request inside the worker. The slowest legitimate requests are deeply nested XML
// documents: patch/xml recurses once per level up to its own limit of 10000 levels ("exceeded max depth"),
// which needs a goroutine stack of a few hundred MB - 0.4 s on an idle machine, close to 10 s the first time
// in a process on a loaded one; the streams therefore stay at 5000 levels and the limit is generous.
const c13ReqLimit = 20 * time.Second

func c13Worker(ctx *core.Ctx) error {
	nw := 6
	if ctx.Thorough() {
		nw = 12
	}
	worlds, err := c13Worlds(ctx.Seed, nw)
	if err != nil {
		fmt.Println("R-FAIL " + err.Error())
		os.Exit(3)
	}
	out := bufio.NewWriter(os.Stdout)
	fmt.Fprintln(out, "R-READY")
	out.Flush()
	in := bufio.NewReaderSize(os.Stdin, 1<<20)
	for {
		line, err := in.ReadString('\n')
		if len(line) == 0 && err != nil {
			os.Exit(0)
		}
		var rq c13Req
		if jerr := json.Unmarshal([]byte(line), &rq); jerr != nil || rq.W < 0 || rq.W >= len(worlds) {
			fmt.Fprintln(out, `R {"class":"Fatal","msg":"bad request line"}`)
			out.Flush()
			continue
		}
		done := make(chan c13Resp, 1)
		go func() { done <- c13Exec(worlds[rq.W], &rq) }()
		select {
		case resp := <-done:
			b, _ := json.Marshal(resp)
			fmt.Fprintln(out, "R "+string(b))
			out.Flush()
		case <-time.After(c13ReqLimit):
			fmt.Fprintln(out, `R {"class":"Timeout"}`)
			out.Flush()
			os.Exit(0) // the stuck goroutine cannot be stopped: the parent starts a new worker
		}
		if err != nil {
			os.Exit(0)
		}
	}
}
