package props

import (
	"fmt"
	"strings"

	"github.com/freeconf/yang/node"
	"github.com/freeconf/yang/parser"

	"yvh/core"
	"yvh/emit"
	"yvh/gen"
	"yvh/tree"
)

// ---- groups behind prefixes of every length -----------------------------------------------------------
//
// node/path_matcher.go keeps every path of an expression as a Go slice; addSegment appends to it in
// place and expandPaths multiplies the paths by the alternatives of a group.  How many plain
// segments precede a group decides the spare capacity of the slice the group is expanded from
// (Coq: Tree/PathMem.v), so the expression generators of c07.go (paths of at most three segments
// over schemas of depth three) are complemented by
//   c07DeepCases : reads of a chain of eight nested containers, fields / fc.xfields with a group
//                  behind a prefix of every length, and random expression trees over that schema;
//   c07ParseCases: the parser alone on expression trees of any shape (case C07Check.CParse).

const c07DeepLevels = 8

func c07DeepSchema() string {
	var b strings.Builder
	b.WriteString("module deep { namespace \"urn:deep\"; prefix d; revision 2020-01-01;\n")
	for k := 1; k <= c07DeepLevels; k++ {
		fmt.Fprintf(&b, "%scontainer c%d { leaf x { type string; } leaf y { type string; } leaf z { type int32; default 4; } leaf s { type string; config false; }\n", strings.Repeat(" ", k), k)
	}
	for k := c07DeepLevels; k >= 1; k-- {
		b.WriteString(strings.Repeat(" ", k) + "}\n")
	}
	b.WriteString("}")
	return b.String()
}

var c07DeepLeaves = []string{"x", "y", "z", "s"}

func deepPrefix(from, to int) []string { // c<from+1> .. c<to>
	var p []string
	for k := from + 1; k <= to; k++ {
		p = append(p, fmt.Sprintf("c%d", k))
	}
	return p
}

// a random expression tree below level k (the names that exist there: the leaves and c<k+1>)
func deepExpr(r *gen.Rng, k int, budget int) *pexpr {
	leaf := func() *pexpr {
		if r.Chance(1, 20) {
			return xseg("zz")
		}
		return xseg(gen.Pick(r, c07DeepLeaves))
	}
	if k >= c07DeepLevels || budget <= 0 {
		return leaf()
	}
	switch r.Intn(8) {
	case 0:
		return leaf()
	case 1:
		return xseg(fmt.Sprintf("c%d", k+1))
	case 2, 3, 4:
		// a run of plain segments, then whatever follows
		to := k + 1 + r.Intn(c07DeepLevels-k)
		e := xpathOf(deepPrefix(k, to)...)
		if r.Bool() || to-1 <= k {
			return xseq(e, deepExpr(r, to, budget-1)) // left-nested: prefix first
		}
		return xseq(xpathOf(deepPrefix(k, to-1)...), xseq(xseg(fmt.Sprintf("c%d", to)), deepExpr(r, to, budget-1)))
	case 5:
		return xalt(deepExpr(r, k, budget-1), xalt(deepExpr(r, k, budget-2), deepExpr(r, k, budget-2)))
	}
	return xalt(deepExpr(r, k, budget-1), deepExpr(r, k, budget-1))
}

func c07DeepCases(ctx *core.Ctx, r *gen.Rng) error {
	yang := c07DeepSchema()
	m, err := parser.LoadModuleFromString(nil, yang)
	if err != nil {
		return fmt.Errorf("deep schema: %v", err)
	}
	root := tree.Root(m)
	data := tree.GenData(r.Fork(1), root, 100, 1) // every node present
	t := c07target{path: "", s: root, data: data}
	g := &c07gen{r: r.Fork(2), t: t}
	kidsName, dataName := c07Shared(t)
	add := func(label string, name string, e *pexpr, more ...qparam) error {
		ps := append([]qparam{{name: name, value: e.print(false), ast: e, kind: name}}, more...)
		return c07Case(ctx, g.r, m, root, yang, data, t, kidsName, dataName, ps, label)
	}
	names := []string{"fields", "fc.xfields"}
	// a group behind a prefix of every length
	for L := 1; L < c07DeepLevels; L++ {
		pre := xpathOf(deepPrefix(0, L)...)
		next := fmt.Sprintf("c%d", L+1)
		a, b := gen.Pick(r, c07DeepLeaves), gen.Pick(r, c07DeepLeaves)
		for a == b {
			b = gen.Pick(r, c07DeepLeaves)
		}
		shapes := []*pexpr{
			xseq(pre, xalt(xseg(a), xseg(b))),                                  // p/(a;b)
			xseq(pre, xalt(xseg(a), xalt(xseg(next), xseg(b)))),                // p/(a;c;b)
			xseq(pre, xalt(xpathOf(next, a), xseg(b))),                         // p/(c/a;b)
			xseq(xseq(pre, xalt(xseg(next), xseg(a))), xseg(b)),                // p/(c;a)/b
			xseq(pre, xalt(xseg(a), xseq(xseg(next), xalt(xseg(a), xseg(b))))), // p/(a;c/(a;b))
		}
		if L+2 <= c07DeepLevels {
			nn := fmt.Sprintf("c%d", L+2)
			shapes = append(shapes, xseq(xseq(pre, xalt(xseg(next), xseg(a))), xalt(xseg(nn), xseg(b)))) // p/(c;a)/(cc;b)
		}
		for i, e := range shapes {
			if !ctx.Thorough() && i >= 2 && (i+L+int(ctx.Seed))%2 == 0 {
				continue
			}
			name := names[(i+L)%2]
			if i == 0 {
				// the plain shape under both parameters
				if err := add("deep-group", names[0], e); err != nil {
					return err
				}
				name = names[1]
			}
			if err := add("deep-group", name, e); err != nil {
				return err
			}
		}
	}
	for i := 0; i < ctx.Scale(12, 60); i++ {
		e := deepExpr(r, 0, 4)
		var more []qparam
		if r.Chance(1, 4) {
			more = append(more, g.byKind(gen.Pick(r, []int{0, 1, 2, 6})))
		}
		if err := add("deep-expr", names[r.Intn(2)], e, more...); err != nil {
			return err
		}
	}
	return nil
}

// ---- the parser alone ---------------------------------------------------------------------------------

var c07Idents = []string{"a", "b", "c", "dd", "e-1", "f_g", "h", "k9"}

func parseRun(r *gen.Rng, n int) *pexpr {
	names := make([]string, n)
	for i := range names {
		names[i] = gen.Pick(r, c07Idents)
	}
	return xpathOf(names...)
}

// any shape: runs of 1..12 plain segments, groups of 2..4 alternatives in any position, nested
func parseExpr(r *gen.Rng, budget int) *pexpr {
	if budget <= 0 {
		return parseRun(r, 1+r.Intn(3))
	}
	switch r.Intn(6) {
	case 0:
		return parseRun(r, 1+r.Intn(12))
	case 1:
		return xalt(parseExpr(r, budget-1), parseExpr(r, budget-1))
	case 2:
		return xalt(parseExpr(r, budget-2), xalt(parseExpr(r, budget-2), xalt(parseExpr(r, budget-2), parseExpr(r, budget-2))))
	case 3:
		return xseq(parseRun(r, 1+r.Intn(9)), parseExpr(r, budget-1))
	case 4:
		return xseq(parseExpr(r, budget-1), parseRun(r, 1+r.Intn(4)))
	}
	return xseq(parseExpr(r, budget-1), parseExpr(r, budget-1))
}

var c07ParseRaw = []string{"", "/", "a", "a//b", "/a/b/", "()", "a/()", "a/()/b", "(;)", "a/(;)", "a/(b;)", "a/(;b)", ";", "a;", ";a", "a;;b",
	"a(b;c)", "a/b/c(d;e)", "((a))", "((a;b))/c", "a/((b;c);d)/e", "a/b/c/((d;e))",
	"(", ")", "a/(b", "a)b", "a/(b;c))", "((", "a/(b;(c)", ")(", "a/b/c/(d;e"}

func c07ParseCases(ctx *core.Ctx, r *gen.Rng) {
	one := func(label string, e *pexpr, s string) {
		var obs, obsDesc string
		func() {
			defer func() {
				if rec := recover(); rec != nil {
					obs, obsDesc = "PObsPanic", fmt.Sprintf("panic: %v", rec)
				}
			}()
			pe, err := node.ParsePathExpression(s)
			if err != nil {
				obs, obsDesc = emit.App("PObsErr", c07ErrClass(err)), c07ErrClass(err)+": "+err.Error()
				return
			}
			// String(): "[a,b],[c]" (the idents used here hold neither ',' nor brackets)
			str := pe.String()
			var paths []string
			if str != "" {
				for _, p := range strings.Split(strings.TrimSuffix(strings.TrimPrefix(str, "["), "]"), "],[") {
					var segs []string
					if p != "" {
						for _, x := range strings.Split(p, ",") {
							segs = append(segs, emit.Str(x))
						}
					}
					paths = append(paths, emit.List(segs))
				}
			}
			obs, obsDesc = emit.App("PObsPaths", emit.List(paths)), str
		}()
		ast := "None"
		if e != nil {
			ast = emit.Some(e.term())
		}
		ctx.Add(emit.App("CParse", ast, emit.Str(s), obs),
			map[string]interface{}{"expression": s, "observed": obsDesc, "stream": label, "call": "node.ParsePathExpression(expression).String()"}, s != "")
		ctx.Count("stream:" + label)
	}
	// a group of 2 and of 3 alternatives behind a run of every length, alone / with a tail / behind another group
	for L := 1; L <= 12; L++ {
		pre := parseRun(r, L)
		g2 := xalt(parseRun(r, 1), parseRun(r, 1+r.Intn(2)))
		g3 := xalt(parseRun(r, 1), xalt(parseRun(r, 2), parseRun(r, 1)))
		for i, e := range []*pexpr{xseq(pre, g2), xseq(pre, g3), xseq(xseq(pre, g2), parseRun(r, 1+r.Intn(3))),
			xseq(xseq(g2, pre), g3), xseq(pre, xalt(xseq(parseRun(r, 1+r.Intn(3)), g2), parseRun(r, 1)))} {
			if !ctx.Thorough() && i >= 2 && (i+L+int(ctx.Seed))%3 != 0 {
				continue
			}
			one("parse-group", e, e.print(false))
		}
	}
	for i := 0; i < ctx.Scale(40, 300); i++ {
		e := parseExpr(r, 1+r.Intn(4))
		s := e.print(false)
		if len(s) > 400 {
			continue
		}
		one("parse-expr", e, s)
	}
	for _, s := range c07ParseRaw {
		one("parse-raw", nil, s)
	}
}
