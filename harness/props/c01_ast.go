package props

// C01: the harness' own AST of a module set. ONE AST produces (a) the YANG text of every file for
// the real parser, (b) the Gallina `modset` term for the Coq model. `uses` statements point at
// their grouping object; the printed name/prefix is derived from where the grouping lives, so the
// refactorings (c01_refactor.go) only move objects.

import (
	"fmt"
	"sort"
	"strings"

	"github.com/freeconf/yang/meta"

	"yvh/emit"
)

const (
	kLeaf = iota
	kLeafList
	kCont
	kList
	kChoice
	kCase
	// operations: rpc/action (members: input, output) and notification
	kAction
	kInput
	kOutput
	kNotif
)

var c01KindName = []string{"leaf", "leaf-list", "container", "list", "choice", "case", "action", "input", "output", "notification"}
var c01KindTerm = []string{"KLeaf", "KLeafList", "KCont", "KList", "KChoice", "KCase", "KAction", "KInput", "KOutput", "KNotif"}

// c01IsOp: rpc/action or notification (kept beside the data definitions of the parent)
func c01IsOp(s *c01Stmt) bool { return s.T == tNode && (s.K == kAction || s.K == kNotif) }

// c01IsOpPart: any statement of the operation kinds (action, input, output, notification)
func c01IsOpPart(s *c01Stmt) bool { return s.T == tNode && s.K >= kAction }

const (
	tNode = iota
	tUses
	tGrouping
	tAugment
)

type c01Props struct {
	Config   *bool
	Mand     *bool
	Dflt     []string
	Desc     string
	When     *string
	Musts    []string
	Min, Max *int
	Presence string
}

type c01Refine struct {
	Path   []string
	Desc   string
	Dflt   []string
	Config *bool
	Mand   *bool
	Min    *int
	Max    *int
	Musts  []string
}

type c01Stmt struct {
	T    int
	K    int    // tNode
	Name string // tNode, tGrouping
	P    c01Props
	Keys []string
	Grps []*c01Stmt // tNode (container/list), tGrouping: scoped groupings
	Kids []*c01Stmt // tNode kids, tGrouping body, tAugment body
	Orig *c01Stmt   // set on copies: the statement this one was (transitively) copied from
	// tUses
	Target *c01Stmt
	OwnPfx bool // print the own-module prefix when the target is local and module-level
	W      *string
	Refs   []*c01Refine
	Augs   []*c01Stmt
	// tAugment
	Path    []string
	PathPfx bool // print module prefixes in an absolute path
}

type c01Module struct {
	Name, Prefix string
	Grps         []*c01Stmt
	Body         []*c01Stmt
	Augs         []*c01Stmt
}

type c01Imp struct {
	Prefix string
	M      *c01Module
}

type c01Modset struct {
	Main *c01Module
	Subs []*c01Module
	Imps []*c01Imp
}

// ---------- ownership ----------

// ownerOf: module whose top level defines g (nil for scoped groupings)
func (ms *c01Modset) ownerOf(g *c01Stmt) *c01Module {
	for _, m := range ms.files() {
		for _, x := range m.Grps {
			if x == g {
				return m
			}
		}
	}
	return nil
}

func (ms *c01Modset) files() []*c01Module {
	out := []*c01Module{ms.Main}
	out = append(out, ms.Subs...)
	for _, i := range ms.Imps {
		out = append(out, i.M)
	}
	return out
}

func (ms *c01Modset) isLocal(m *c01Module) bool {
	if m == ms.Main {
		return true
	}
	for _, s := range ms.Subs {
		if s == m {
			return true
		}
	}
	return false
}

func (ms *c01Modset) impPrefix(m *c01Module) string {
	for _, i := range ms.Imps {
		if i.M == m {
			return i.Prefix
		}
	}
	return ""
}

// usesRef: the (prefix, name) a uses written in file `file` prints for its target
func (ms *c01Modset) usesRef(u *c01Stmt, file *c01Module) (pfx string, name string) {
	owner := ms.ownerOf(u.Target)
	name = u.Target.Name
	if owner == nil {
		return "", name
	}
	fileLocal := ms.isLocal(file)
	ownerLocal := ms.isLocal(owner)
	switch {
	case fileLocal && ownerLocal, file == owner:
		if u.OwnPfx {
			return file.Prefix, name
		}
		return "", name
	case fileLocal && !ownerLocal:
		return ms.impPrefix(owner), name
	}
	return "?", name // not expressible: callers check visibility first
}

// ---------- YANG text ----------

func c01Quote(s string) string { return "\"" + s + "\"" }

func (ms *c01Modset) printProps(b *strings.Builder, ind string, k int, p *c01Props) {
	if p.When != nil {
		fmt.Fprintf(b, "%swhen %s;\n", ind, c01Quote(*p.When))
	}
	if k == kLeaf || k == kLeafList {
		fmt.Fprintf(b, "%stype string;\n", ind)
	}
	for _, m := range p.Musts {
		fmt.Fprintf(b, "%smust %s;\n", ind, c01Quote(m))
	}
	if p.Presence != "" {
		fmt.Fprintf(b, "%spresence %s;\n", ind, c01Quote(p.Presence))
	}
	for _, d := range p.Dflt {
		fmt.Fprintf(b, "%sdefault %s;\n", ind, c01Quote(d))
	}
	if p.Config != nil {
		fmt.Fprintf(b, "%sconfig %v;\n", ind, *p.Config)
	}
	if p.Mand != nil {
		fmt.Fprintf(b, "%smandatory %v;\n", ind, *p.Mand)
	}
	if p.Min != nil {
		fmt.Fprintf(b, "%smin-elements %d;\n", ind, *p.Min)
	}
	if p.Max != nil {
		fmt.Fprintf(b, "%smax-elements %d;\n", ind, *p.Max)
	}
	if p.Desc != "" {
		fmt.Fprintf(b, "%sdescription %s;\n", ind, c01Quote(p.Desc))
	}
}

func (ms *c01Modset) printStmt(b *strings.Builder, ind string, s *c01Stmt, file *c01Module) {
	in2 := ind + "  "
	switch s.T {
	case tNode:
		switch {
		case s.K == kAction && ind == "  ":
			// an action written at module level is an rpc
			fmt.Fprintf(b, "%srpc %s {\n", ind, s.Name)
		case s.K == kInput || s.K == kOutput:
			fmt.Fprintf(b, "%s%s {\n", ind, c01KindName[s.K])
		default:
			fmt.Fprintf(b, "%s%s %s {\n", ind, c01KindName[s.K], s.Name)
		}
		if s.K == kList && len(s.Keys) > 0 {
			fmt.Fprintf(b, "%skey %s;\n", in2, c01Quote(strings.Join(s.Keys, " ")))
		}
		ms.printProps(b, in2, s.K, &s.P)
		for _, g := range s.Grps {
			ms.printStmt(b, in2, g, file)
		}
		for _, k := range s.Kids {
			ms.printStmt(b, in2, k, file)
		}
		fmt.Fprintf(b, "%s}\n", ind)
	case tGrouping:
		fmt.Fprintf(b, "%sgrouping %s {\n", ind, s.Name)
		for _, g := range s.Grps {
			ms.printStmt(b, in2, g, file)
		}
		for _, k := range s.Kids {
			ms.printStmt(b, in2, k, file)
		}
		fmt.Fprintf(b, "%s}\n", ind)
	case tUses:
		pfx, name := ms.usesRef(s, file)
		if pfx != "" {
			name = pfx + ":" + name
		}
		if s.W == nil && len(s.Refs) == 0 && len(s.Augs) == 0 {
			fmt.Fprintf(b, "%suses %s;\n", ind, name)
			return
		}
		fmt.Fprintf(b, "%suses %s {\n", ind, name)
		if s.W != nil {
			fmt.Fprintf(b, "%swhen %s;\n", in2, c01Quote(*s.W))
		}
		for _, r := range s.Refs {
			fmt.Fprintf(b, "%srefine %s {\n", in2, c01Quote(strings.Join(r.Path, "/")))
			in3 := in2 + "  "
			for _, m := range r.Musts {
				fmt.Fprintf(b, "%smust %s;\n", in3, c01Quote(m))
			}
			for _, d := range r.Dflt {
				fmt.Fprintf(b, "%sdefault %s;\n", in3, c01Quote(d))
			}
			if r.Config != nil {
				fmt.Fprintf(b, "%sconfig %v;\n", in3, *r.Config)
			}
			if r.Mand != nil {
				fmt.Fprintf(b, "%smandatory %v;\n", in3, *r.Mand)
			}
			if r.Min != nil {
				fmt.Fprintf(b, "%smin-elements %d;\n", in3, *r.Min)
			}
			if r.Max != nil {
				fmt.Fprintf(b, "%smax-elements %d;\n", in3, *r.Max)
			}
			// a refine needs at least one sub-statement for this parser
			fmt.Fprintf(b, "%sdescription %s;\n", in3, c01Quote(r.Desc))
			fmt.Fprintf(b, "%s}\n", in2)
		}
		for _, a := range s.Augs {
			ms.printStmt(b, in2, a, file)
		}
		fmt.Fprintf(b, "%s}\n", ind)
	case tAugment:
		path := strings.Join(s.Path, "/")
		if s.PathPfx {
			segs := make([]string, len(s.Path))
			for i, p := range s.Path {
				segs[i] = ms.Main.Prefix + ":" + p
			}
			path = strings.Join(segs, "/")
		}
		if ind == "  " { // module level: absolute
			path = "/" + path
		}
		fmt.Fprintf(b, "%saugment %s {\n", ind, c01Quote(path))
		if s.W != nil {
			fmt.Fprintf(b, "%swhen %s;\n", in2, c01Quote(*s.W))
		}
		for _, k := range s.Kids {
			ms.printStmt(b, in2, k, file)
		}
		fmt.Fprintf(b, "%s}\n", ind)
	}
}

// texts: file name -> YANG text; the main module's text is returned separately
func (ms *c01Modset) texts() (main string, others map[string]string) {
	others = map[string]string{}
	for _, m := range ms.files() {
		var b strings.Builder
		isSub := m != ms.Main && ms.isLocal(m)
		if isSub {
			fmt.Fprintf(&b, "submodule %s {\n  yang-version 1.1;\n  belongs-to %s {\n    prefix %s;\n  }\n", m.Name, ms.Main.Name, m.Prefix)
		} else {
			fmt.Fprintf(&b, "module %s {\n  yang-version 1.1;\n  namespace \"urn:%s\";\n  prefix %s;\n", m.Name, m.Name, m.Prefix)
		}
		if m == ms.Main {
			for _, i := range ms.Imps {
				fmt.Fprintf(&b, "  import %s {\n    prefix %s;\n  }\n", i.M.Name, i.Prefix)
			}
			for _, s := range ms.Subs {
				fmt.Fprintf(&b, "  include %s;\n", s.Name)
			}
		}
		fmt.Fprintf(&b, "  revision 2020-01-01;\n")
		for _, g := range m.Grps {
			ms.printStmt(&b, "  ", g, m)
		}
		for _, s := range m.Body {
			ms.printStmt(&b, "  ", s, m)
		}
		for _, a := range m.Augs {
			ms.printStmt(&b, "  ", a, m)
		}
		b.WriteString("}\n")
		if m == ms.Main {
			main = b.String()
		} else {
			others[m.Name] = b.String()
		}
	}
	return
}

// ---------- Gallina terms ----------

func c01OptBool(b *bool) string {
	if b == nil {
		return "None"
	}
	return emit.Some(emit.Bool(*b))
}

func c01OptInt(i *int) string {
	if i == nil {
		return "None"
	}
	return emit.Some(emit.Z(int64(*i)))
}

func c01StrList(l []string) string {
	items := make([]string, len(l))
	for i, s := range l {
		items[i] = emit.Str(s)
	}
	return emit.List(items)
}

func c01PropsTerm(p *c01Props) string {
	return emit.App("mkProps", c01OptBool(p.Config), c01OptBool(p.Mand), c01StrList(p.Dflt), emit.Str(p.Desc),
		emit.OptStr(p.When), c01StrList(p.Musts), c01OptInt(p.Min), c01OptInt(p.Max), emit.Str(p.Presence))
}

func (ms *c01Modset) stmtsTerm(l []*c01Stmt, file *c01Module) string {
	items := make([]string, len(l))
	for i, s := range l {
		items[i] = ms.stmtTerm(s, file)
	}
	return emit.List(items)
}

func (ms *c01Modset) stmtTerm(s *c01Stmt, file *c01Module) string {
	switch s.T {
	case tNode:
		return emit.App("SNode", c01KindTerm[s.K], emit.Str(s.Name), c01PropsTerm(&s.P), c01StrList(s.Keys),
			ms.stmtsTerm(s.Grps, file), ms.stmtsTerm(s.Kids, file))
	case tGrouping:
		return emit.App("SGrouping", emit.Str(s.Name), ms.stmtsTerm(s.Grps, file), ms.stmtsTerm(s.Kids, file))
	case tUses:
		pfx, name := ms.usesRef(s, file)
		pt := "None"
		if pfx != "" {
			pt = emit.Some(emit.Str(pfx))
		}
		refs := make([]string, len(s.Refs))
		for i, r := range s.Refs {
			refs[i] = emit.App("mkRefine", c01StrList(r.Path), emit.Str(r.Desc), c01StrList(r.Dflt), c01OptBool(r.Config),
				c01OptBool(r.Mand), c01OptInt(r.Min), c01OptInt(r.Max), c01StrList(r.Musts))
		}
		return emit.App("SUses", pt, emit.Str(name), emit.OptStr(s.W), emit.List(refs), ms.stmtsTerm(s.Augs, file))
	default:
		return emit.App("SAugment", c01StrList(s.Path), emit.OptStr(s.W), ms.stmtsTerm(s.Kids, file))
	}
}

func (ms *c01Modset) moduleTerm(m *c01Module) string {
	return emit.App("mkModule", emit.Str(m.Name), emit.Str(m.Prefix), ms.stmtsTerm(m.Grps, m), ms.stmtsTerm(m.Body, m),
		ms.stmtsTerm(m.Augs, m))
}

func (ms *c01Modset) term() string {
	subs := make([]string, len(ms.Subs))
	for i, s := range ms.Subs {
		subs[i] = ms.moduleTerm(s)
	}
	imps := make([]string, len(ms.Imps))
	for i, im := range ms.Imps {
		imps[i] = emit.Pair(emit.Str(im.Prefix), ms.moduleTerm(im.M))
	}
	return emit.App("mkModset", ms.moduleTerm(ms.Main), emit.List(subs), emit.List(imps))
}

// ---------- dump of the real compiled module through public accessors ----------

// c01Dump walks one loaded module; residue is set when a definition that is no schema node (a uses
// statement left in the compiled tree) is met anywhere
type c01Dump struct{ residue string }

func (dp *c01Dump) defs(defs []meta.Definition) []string {
	items := make([]string, 0, len(defs))
	for _, d := range defs {
		items = append(items, dp.def(d))
	}
	return items
}

// members as the accessors deliver them: DataDefinitions() in order, then Actions() and
// Notifications() (maps) by name
func (dp *c01Dump) members(x interface{}) string {
	var items []string
	if hd, ok := x.(meta.HasDataDefinitions); ok {
		items = dp.defs(hd.DataDefinitions())
	}
	if ha, ok := x.(meta.HasActions); ok {
		acts := ha.Actions()
		names := make([]string, 0, len(acts))
		for n := range acts {
			names = append(names, n)
		}
		sort.Strings(names)
		for _, n := range names {
			items = append(items, dp.def(acts[n]))
		}
	}
	if hn, ok := x.(meta.HasNotifications); ok {
		nts := hn.Notifications()
		names := make([]string, 0, len(nts))
		for n := range nts {
			names = append(names, n)
		}
		sort.Strings(names)
		for _, n := range names {
			items = append(items, dp.def(nts[n]))
		}
	}
	return emit.List(items)
}

func (dp *c01Dump) def(d meta.Definition) string {
	var p c01Props
	k := -1
	var keys []string
	kids := "[]"
	zero := 0
	f := false
	p.Mand, p.Min, p.Max = &f, &zero, &zero
	if hc, ok := d.(meta.HasConfig); ok {
		c := hc.Config()
		p.Config = &c
	}
	if hd, ok := d.(meta.Describable); ok {
		p.Desc = hd.Description()
	}
	if hw, ok := d.(meta.HasWhen); ok && hw.When() != nil {
		w := hw.When().Expression()
		p.When = &w
	}
	if hm, ok := d.(meta.HasMusts); ok {
		for _, m := range hm.Musts() {
			p.Musts = append(p.Musts, m.Expression())
		}
	}
	if hm, ok := d.(meta.HasMandatory); ok {
		m := hm.Mandatory()
		p.Mand = &m
	}
	if hm, ok := d.(meta.HasMinMax); ok {
		mn, mx := hm.MinElements(), hm.MaxElements()
		p.Min, p.Max = &mn, &mx
	}
	switch x := d.(type) {
	case *meta.Leaf:
		k = kLeaf
		if x.HasDefault() {
			p.Dflt = []string{x.Default()}
		}
	case *meta.LeafList:
		k = kLeafList
		p.Dflt = append(p.Dflt, x.Default()...)
	case *meta.Container:
		k = kCont
		p.Presence = x.Presence()
		kids = dp.members(x)
	case *meta.List:
		k = kList
		for _, km := range x.KeyMeta() {
			keys = append(keys, km.Ident())
		}
		kids = dp.members(x)
	case *meta.Choice:
		k = kChoice
		if x.HasDefault() {
			p.Dflt = []string{x.Default()}
		}
		cs := make([]string, 0)
		for _, id := range x.CaseIdents() {
			cs = append(cs, dp.def(x.Cases()[id]))
		}
		kids = emit.List(cs)
	case *meta.ChoiceCase:
		k = kCase
		kids = dp.members(x)
	case *meta.Rpc:
		k = kAction
		var io []string
		if in := x.Input(); in != nil {
			io = append(io, dp.def(in))
		}
		if out := x.Output(); out != nil {
			io = append(io, dp.def(out))
		}
		kids = emit.List(io)
	case *meta.RpcInput:
		k = kInput
		kids = dp.members(x)
	case *meta.RpcOutput:
		k = kOutput
		kids = dp.members(x)
	case *meta.Notification:
		k = kNotif
		kids = dp.members(x)
	default:
		// no schema node (e.g. an unresolved uses left in the tree)
		if dp.residue == "" {
			dp.residue = fmt.Sprintf("%T %s under %s", d, d.Ident(), meta.SchemaPath(d.Parent()))
		}
		return emit.App("ENode", "KLeaf", emit.Str("?"+d.Ident()), c01PropsTerm(&c01Props{}), "[]", "[]")
	}
	return emit.App("ENode", c01KindTerm[k], emit.Str(d.Ident()), c01PropsTerm(&p), c01StrList(keys), kids)
}

// ---------- deep copy keeping uses->grouping pointers consistent ----------

// c01Root: the statement s was first copied from (s itself when it is no copy). Refactorings only
// ever copy statements and rewrite them meaning-preservingly, so two groupings with one root have
// the same meaning; two groupings with different roots are different definitions even when they
// carry the same NAME (names of scoped groupings are only unique within their scope chain).
func c01Root(s *c01Stmt) *c01Stmt {
	if s != nil && s.Orig != nil {
		return s.Orig
	}
	return s
}

func c01Same(a, b *c01Stmt) bool { return c01Root(a) == c01Root(b) }

type c01Cloner struct{ m map[*c01Stmt]*c01Stmt }

func (c *c01Cloner) stmts(l []*c01Stmt) []*c01Stmt {
	if l == nil {
		return nil
	}
	out := make([]*c01Stmt, len(l))
	for i, s := range l {
		out[i] = c.stmt(s)
	}
	return out
}

func c01CopyProps(p c01Props) c01Props {
	q := p
	q.Dflt = append([]string(nil), p.Dflt...)
	q.Musts = append([]string(nil), p.Musts...)
	return q
}

func (c *c01Cloner) stmt(s *c01Stmt) *c01Stmt {
	if n, ok := c.m[s]; ok {
		return n
	}
	n := &c01Stmt{}
	c.m[s] = n
	*n = *s
	n.Orig = c01Root(s)
	n.P = c01CopyProps(s.P)
	n.Keys = append([]string(nil), s.Keys...)
	n.Path = append([]string(nil), s.Path...)
	n.Grps = c.stmts(s.Grps)
	n.Kids = c.stmts(s.Kids)
	n.Augs = c.stmts(s.Augs)
	n.Refs = nil
	for _, r := range s.Refs {
		rr := *r
		rr.Path = append([]string(nil), r.Path...)
		n.Refs = append(n.Refs, &rr)
	}
	return n
}

// fix target pointers after all groupings have been copied
func (c *c01Cloner) retarget(l []*c01Stmt) {
	for _, s := range l {
		if s.T == tUses {
			if n, ok := c.m[s.Target]; ok {
				s.Target = n
			}
		}
		c.retarget(s.Grps)
		c.retarget(s.Kids)
		c.retarget(s.Augs)
	}
}

func (ms *c01Modset) clone() (*c01Modset, *c01Cloner) {
	c := &c01Cloner{m: map[*c01Stmt]*c01Stmt{}}
	cm := func(m *c01Module) *c01Module {
		return &c01Module{Name: m.Name, Prefix: m.Prefix, Grps: c.stmts(m.Grps), Body: c.stmts(m.Body), Augs: c.stmts(m.Augs)}
	}
	out := &c01Modset{Main: cm(ms.Main)}
	for _, s := range ms.Subs {
		out.Subs = append(out.Subs, cm(s))
	}
	for _, i := range ms.Imps {
		out.Imps = append(out.Imps, &c01Imp{Prefix: i.Prefix, M: cm(i.M)})
	}
	for _, m := range out.files() {
		c.retarget(m.Grps)
		c.retarget(m.Body)
		c.retarget(m.Augs)
	}
	return out, c
}

// copy of a statement list that keeps pointing at the same groupings (used when a grouping body
// is inlined)
func c01CopyBody(l []*c01Stmt) []*c01Stmt {
	c := &c01Cloner{m: map[*c01Stmt]*c01Stmt{}}
	return c.stmts(l)
}

// ---------- walking ----------

// c01Walk calls f on every statement (pre-order) with the file it is written in
func c01WalkList(l []*c01Stmt, f func(s *c01Stmt)) {
	for _, s := range l {
		f(s)
		c01WalkList(s.Grps, f)
		c01WalkList(s.Kids, f)
		c01WalkList(s.Augs, f)
	}
}

func (m *c01Module) walk(f func(s *c01Stmt)) {
	c01WalkList(m.Grps, f)
	c01WalkList(m.Body, f)
	c01WalkList(m.Augs, f)
}

// c01PathInfo: a schema path (choice and case named) through the EXPANSION of a statement list
type c01PathInfo struct {
	Path []string
	K    int
	Node *c01Stmt // the defining node statement
	Expl bool     // reached through explicit nodes only (no uses on the way)
	InOp bool     // lies inside a notification
}

func c01Paths(l []*c01Stmt, prefix []string, expl bool, inChoice bool, depth int, out *[]c01PathInfo) {
	c01PathsIn(l, prefix, expl, inChoice, depth, false, out)
}

func c01PathsIn(l []*c01Stmt, prefix []string, expl bool, inChoice bool, depth int, inOp bool, out *[]c01PathInfo) {
	if depth > 12 {
		return
	}
	for _, s := range l {
		switch s.T {
		case tNode:
			if s.K == kAction || s.K == kInput || s.K == kOutput {
				// meta.Find does not step from an rpc/action to its input/output: nothing in there
				// is addressable by a refine or augment path
				continue
			}
			p := append(append([]string(nil), prefix...), s.Name)
			if inChoice && s.K != kCase {
				// implied case
				*out = append(*out, c01PathInfo{Path: p, K: kCase, Node: nil, Expl: false, InOp: inOp})
				p = append(p, s.Name)
			}
			*out = append(*out, c01PathInfo{Path: p, K: s.K, Node: s, Expl: expl, InOp: inOp})
			c01PathsIn(s.Kids, p, expl, s.K == kChoice, depth+1, inOp || s.K == kNotif, out)
		case tUses:
			c01PathsIn(s.Target.Kids, prefix, false, inChoice, depth+1, inOp, out)
		}
	}
}

func c01SortedKeys(m map[string]string) []string {
	keys := make([]string, 0, len(m))
	for k := range m {
		keys = append(keys, k)
	}
	sort.Strings(keys)
	return keys
}
