package props

// C05 - No write stores a value outside the leaf's effective type.
//
// Generates a module with one leaf / leaf-list whose type is a typedef chain (depth 0-3) carrying
// restriction expressions printed from a generated abstract syntax, loads it with the real parser,
// and writes candidate values (every bound and its neighbours, type extremes, random) through the
// write paths of the real library into a map-backed node. Records accepted / rejected / panic and
// what the leaf holds afterwards. Coq (Check/C05Check.v) runs the model on the restriction TEXT and
// the spec on the abstract syntax.
//
// A second family (c5genShared) puts 2-4 string leaves into ONE module; their pattern statements
// repeat the same generated regular expression with differing invert-match modifiers (on the leaf's
// type, on its own typedefs or on a typedef chain shared with the first leaf). Every leaf is a case
// of its own, judged on its own chain: whatever another statement with the same text says must not
// leak into it. The values include strings sampled from the expression's language and near misses.

import (
	"bytes"
	"encoding/json"
	"encoding/xml"
	"fmt"
	"math/big"
	"regexp"
	"sort"
	"strconv"
	"strings"

	"github.com/freeconf/yang/meta"
	"github.com/freeconf/yang/node"
	"github.com/freeconf/yang/nodeutil"
	"github.com/freeconf/yang/parser"
	"github.com/freeconf/yang/val"

	"yvh/core"
	"yvh/emit"
	"yvh/gen"
)

func init() { Registry["C05"] = C05 }

// ---- abstract syntax of restrictions ---------------------------------------------------------

type c5bound struct {
	kw int      // 0 number, 1 min, 2 max
	m  *big.Int // number = m / 10^k
	k  int
}

type c5alt struct {
	lo, hi c5bound
	single bool // printed as one number / keyword
}

type c5pat struct {
	re     string
	invert bool
	rx     *c5rx // the syntax a generated expression was printed from (nil: taken from c5patPool)
}

type c5level struct {
	rng     []c5alt // nil: no range statement
	rngTxt  string
	length  []c5alt
	lenTxt  string
	pats    []c5pat
	invalid bool // rngTxt / lenTxt made unparsable on purpose
	badRng  bool // the range statement is the invalid one
	badLen  bool
}

type c5enum struct {
	name string
	v    int64
}

type c5type struct {
	base   string // int8.. uint64, decimal64, string, enumeration, bits
	fd     int
	enums  []c5enum
	bits   []string
	isList bool
	levels []c5level // leaf's own type statement first
	// the leaf's identifier ("" = "l") and the names of the typedefs of levels 1..n-1 (nil = t1..);
	// noDecl: the typedefs are declared by another leaf of the same module (shared typedef chain)
	name    string
	tdNames []string
	noDecl  bool
}

func (t *c5type) ident() string {
	if t.name == "" {
		return "l"
	}
	return t.name
}

func (t *c5type) tdName(i int) string { // name of the typedef that carries level i (1-based)
	if t.tdNames != nil {
		return t.tdNames[i-1]
	}
	return fmt.Sprintf("t%d", i)
}

var c5kinds = []string{"int8", "int16", "int32", "int64", "uint8", "uint16", "uint32", "uint64"}

func c5dom(kind string) (*big.Int, *big.Int) {
	one := big.NewInt(1)
	bitsOf := map[string]uint{"int8": 8, "int16": 16, "int32": 32, "int64": 64, "uint8": 8, "uint16": 16, "uint32": 32, "uint64": 64}
	w := bitsOf[kind]
	if strings.HasPrefix(kind, "u") {
		hi := new(big.Int).Lsh(one, w)
		return big.NewInt(0), hi.Sub(hi, one)
	}
	hi := new(big.Int).Lsh(one, w-1)
	lo := new(big.Int).Neg(hi)
	return lo, new(big.Int).Sub(hi, one)
}

func c5kindCoq(kind string) string {
	return map[string]string{"int8": "I8", "int16": "I16", "int32": "I32", "int64": "I64", "uint8": "U8", "uint16": "U16", "uint32": "U32", "uint64": "U64"}[kind]
}

func c5isInt(base string) bool {
	return strings.HasPrefix(base, "int") || strings.HasPrefix(base, "uint")
}

// ---- printing ------------------------------------------------------------------------------

func c5decText(m *big.Int, k int) string {
	if k == 0 {
		return m.String()
	}
	neg := m.Sign() < 0
	d := new(big.Int).Abs(m).String()
	for len(d) <= k {
		d = "0" + d
	}
	s := d[:len(d)-k] + "." + d[len(d)-k:]
	if neg {
		s = "-" + s
	}
	return s
}

func c5boundText(r *gen.Rng, b c5bound) string {
	switch b.kw {
	case 1:
		return "min"
	case 2:
		return "max"
	}
	s := c5decText(b.m, b.k)
	// "+" only on small numbers: "+n" with n above MaxInt64 is read by ParseFloat (ParseUint takes
	// no sign) and rounds to 53 bits - outside the exact-decimal domain of the model
	if b.m.Sign() >= 0 && b.m.BitLen() < 48 && r.Chance(1, 25) {
		s = "+" + s
	} else if b.k == 0 && r.Chance(1, 25) {
		if b.m.Sign() < 0 {
			s = "-0" + s[1:]
		} else {
			s = "0" + s
		}
	}
	return s
}

func c5sp(r *gen.Rng) string {
	switch r.Intn(6) {
	case 0:
		return " "
	case 1:
		return "  "
	}
	return ""
}

func c5exprText(r *gen.Rng, alts []c5alt) string {
	var parts []string
	for _, a := range alts {
		if a.single {
			parts = append(parts, c5sp(r)+c5boundText(r, a.lo)+c5sp(r))
		} else {
			parts = append(parts, c5sp(r)+c5boundText(r, a.lo)+c5sp(r)+".."+c5sp(r)+c5boundText(r, a.hi)+c5sp(r))
		}
	}
	return strings.Join(parts, "|")
}

func (t *c5type) yang() string { return c5moduleText([]*c5type{t}) }

// one module holding the typedef chains and leaves of all the types, in order
func c5moduleText(ts []*c5type) string {
	var b strings.Builder
	b.WriteString("module m { prefix \"\"; namespace \"\"; revision 0;\n")
	for _, t := range ts {
		t.body(&b)
	}
	b.WriteString("}\n")
	return b.String()
}

func (t *c5type) body(b *strings.Builder) {
	n := len(t.levels)
	typeStmt := func(i int) string {
		name := t.base
		if i < n-1 {
			name = t.tdName(i + 1)
		}
		var sub []string
		if i == n-1 {
			switch t.base {
			case "decimal64":
				sub = append(sub, fmt.Sprintf("fraction-digits %d;", t.fd))
			case "enumeration":
				for _, e := range t.enums {
					sub = append(sub, fmt.Sprintf("enum %s { value %d; }", e.name, e.v))
				}
			case "bits":
				for _, bn := range t.bits {
					sub = append(sub, fmt.Sprintf("bit %s;", bn))
				}
			}
		}
		l := t.levels[i]
		if l.hasRangeText() {
			sub = append(sub, fmt.Sprintf("range %q;", l.rngTxt))
		}
		if l.hasLenText() {
			sub = append(sub, fmt.Sprintf("length %q;", l.lenTxt))
		}
		for _, p := range l.pats {
			if p.invert {
				sub = append(sub, fmt.Sprintf("pattern %q { modifier invert-match; }", p.re))
			} else {
				sub = append(sub, fmt.Sprintf("pattern %q;", p.re))
			}
		}
		if len(sub) == 0 {
			return "type " + name + ";"
		}
		return "type " + name + " { " + strings.Join(sub, " ") + " }"
	}
	for i := n - 1; i >= 1 && !t.noDecl; i-- {
		fmt.Fprintf(b, "  typedef %s { %s }\n", t.tdName(i), typeStmt(i))
	}
	kw := "leaf"
	if t.isList {
		kw = "leaf-list"
	}
	fmt.Fprintf(b, "  %s %s { %s }\n", kw, t.ident(), typeStmt(0))
}

// a level carries a range (length) statement when it has syntax or an (invalid) text
func (l c5level) hasRangeText() bool { return l.rng != nil || l.badRng }
func (l c5level) hasLenText() bool   { return l.length != nil || l.badLen }

// ---- Coq terms -----------------------------------------------------------------------------

func c5boundTerm(b c5bound) string {
	switch b.kw {
	case 1:
		return "BdMin"
	case 2:
		return "BdMax"
	}
	return emit.App("BdNum", emit.ZBig(b.m), emit.Nat(b.k))
}

func c5altsTerm(alts []c5alt, present bool) string {
	if !present {
		return "None"
	}
	items := make([]string, len(alts))
	for i, a := range alts {
		hi := a.hi
		if a.single {
			hi = a.lo
		}
		items[i] = emit.App("mkAlt", c5boundTerm(a.lo), c5boundTerm(hi))
	}
	return emit.Some(emit.List(items))
}

func c5patsTerm(ps []c5pat) string {
	items := make([]string, len(ps))
	for i, p := range ps {
		items[i] = emit.Pair(emit.Str(p.re), emit.Bool(p.invert))
	}
	return emit.List(items)
}

func c5optText(present bool, s string) string {
	if !present {
		return "None"
	}
	return emit.Some(emit.Str(s))
}

func (t *c5type) chainTerm() string {
	items := make([]string, len(t.levels))
	for i, l := range t.levels {
		items[i] = emit.App("mkT", c5optText(l.hasRangeText(), l.rngTxt), c5optText(l.hasLenText(), l.lenTxt), c5patsTerm(l.pats))
	}
	return emit.List(items)
}

func (t *c5type) astTerm() string {
	for _, l := range t.levels {
		if l.invalid {
			return "None"
		}
	}
	items := make([]string, len(t.levels))
	for i, l := range t.levels {
		items[i] = emit.App("mkS", c5altsTerm(l.rng, l.rng != nil), c5altsTerm(l.length, l.length != nil), c5patsTerm(l.pats))
	}
	return emit.Some(emit.List(items))
}

func (t *c5type) baseTerm() string {
	switch t.base {
	case "decimal64":
		return emit.App("BDec", emit.Nat(t.fd))
	case "string":
		return "BStr"
	case "enumeration":
		items := make([]string, len(t.enums))
		for i, e := range t.enums {
			items[i] = emit.Pair(emit.Str(e.name), emit.Z(e.v))
		}
		return emit.App("BEnum", emit.List(items))
	case "bits":
		items := make([]string, len(t.bits))
		for i, b := range t.bits {
			items[i] = emit.Str(b)
		}
		return emit.App("BBits", emit.List(items))
	}
	return emit.App("BNum", c5kindCoq(t.base))
}

// ---- candidate values -----------------------------------------------------------------------

type c5scalar struct {
	kind  string // num dec str ename eval bits
	z     *big.Int
	k     int
	s     string
	names []string
}

type c5value struct {
	list  bool
	items []c5scalar
}

func (s c5scalar) term() string {
	switch s.kind {
	case "num":
		return emit.App("SNum", emit.ZBig(s.z))
	case "dec":
		return emit.App("SDec", emit.ZBig(s.z), emit.Nat(s.k))
	case "str":
		return emit.App("SStr", emit.Str(s.s))
	case "ename":
		return emit.App("SEnumName", emit.Str(s.s))
	case "eval":
		return emit.App("SEnumVal", emit.ZBig(s.z))
	}
	items := make([]string, len(s.names))
	for i, n := range s.names {
		items[i] = emit.Str(n)
	}
	return emit.App("SBits", emit.List(items))
}

func (v c5value) term() string {
	if !v.list {
		return emit.App("VOne", v.items[0].term())
	}
	items := make([]string, len(v.items))
	for i, s := range v.items {
		items[i] = s.term()
	}
	return emit.App("VMany", emit.List(items))
}

func (s c5scalar) text() string {
	switch s.kind {
	case "num", "eval":
		return s.z.String()
	case "dec":
		return c5decText(s.z, s.k)
	case "bits":
		return strings.Join(s.names, " ")
	}
	return s.s
}

func (v c5value) desc() string {
	if !v.list {
		return fmt.Sprintf("%q", v.items[0].text())
	}
	parts := make([]string, len(v.items))
	for i, s := range v.items {
		parts[i] = fmt.Sprintf("%q", s.text())
	}
	return "[" + strings.Join(parts, ", ") + "]"
}

func (v c5value) key() string { return v.desc() }

var c5two53 = new(big.Int).Lsh(big.NewInt(1), 53)

// JSON encoding of one scalar; quoted = RFC 7951 string form for numbers
func (s c5scalar) json(quoted bool) string {
	switch s.kind {
	case "num":
		if quoted || new(big.Int).Abs(s.z).Cmp(c5two53) >= 0 {
			return "\"" + s.z.String() + "\""
		}
		return s.z.String()
	case "eval":
		return s.z.String()
	case "dec":
		if quoted {
			return "\"" + s.text() + "\""
		}
		return s.text()
	}
	b, _ := json.Marshal(s.text())
	return string(b)
}

func (v c5value) json(quoted bool) string {
	if !v.list {
		return v.items[0].json(quoted)
	}
	parts := make([]string, len(v.items))
	for i, s := range v.items {
		parts[i] = s.json(quoted)
	}
	return "[" + strings.Join(parts, ",") + "]"
}

// Go native handed to SetValue / a reflect source node
func (s c5scalar) native(t *c5type) interface{} {
	switch s.kind {
	case "num":
		if strings.HasPrefix(t.base, "u") && s.z.IsUint64() {
			return s.z.Uint64()
		}
		if s.z.IsInt64() {
			return s.z.Int64()
		}
		if s.z.IsUint64() {
			return s.z.Uint64()
		}
		return s.z.String()
	case "eval":
		return int(s.z.Int64())
	case "dec":
		f, _ := strconv.ParseFloat(s.text(), 64)
		return f
	}
	return s.text()
}

func (v c5value) native(t *c5type) interface{} {
	if !v.list {
		return v.items[0].native(t)
	}
	l := make([]interface{}, len(v.items))
	for i, s := range v.items {
		l[i] = s.native(t)
	}
	return l
}

func (v c5value) xml(ident string) (string, bool) {
	var b bytes.Buffer
	b.WriteString("<m>")
	if len(v.items) == 0 {
		return "", false
	}
	for _, s := range v.items {
		if s.text() == "" {
			return "", false
		}
		b.WriteString("<" + ident + ">")
		xml.EscapeText(&b, []byte(s.text()))
		b.WriteString("</" + ident + ">")
	}
	b.WriteString("</m>")
	return b.String(), true
}

func c5inDom(t *c5type, s c5scalar) bool {
	if s.kind != "num" {
		return true
	}
	lo, hi := c5dom(t.base)
	return s.z.Cmp(lo) >= 0 && s.z.Cmp(hi) <= 0
}

// the typed value an accepted write stores (nil when the candidate has no such value)
func c5want(t *c5type, m *meta.Type, v c5value) val.Value {
	for _, s := range v.items {
		if !c5inDom(t, s) {
			return nil
		}
	}
	switch t.base {
	case "enumeration":
		s := v.items[0]
		for _, e := range t.enums {
			if (s.kind == "ename" && e.name == s.s) || (s.kind == "eval" && s.z.IsInt64() && e.v == s.z.Int64()) {
				return val.Enum{Id: int(e.v), Label: e.name}
			}
		}
		return nil
	case "bits":
		var mask uint64
		for _, n := range v.items[0].names {
			found := false
			for i, b := range t.bits {
				if b == n {
					mask |= 1 << uint(i)
					found = true
				}
			}
			if !found && n != "" {
				return nil
			}
		}
		return val.Bits{Positions: mask}
	}
	w, err := val.Conv(m.Format(), v.native(t))
	if err != nil {
		return nil
	}
	return w
}

// the typed value the harness hands to Selection.Set; for enumeration / bits it is built by hand
// and need not be declared
func c5typed(t *c5type, m *meta.Type, v c5value) val.Value {
	switch t.base {
	case "enumeration":
		s := v.items[0]
		if w := c5want(t, m, v); w != nil {
			return w
		}
		if s.kind == "ename" {
			return val.Enum{Id: 99, Label: s.s}
		}
		return val.Enum{Id: int(s.z.Int64()), Label: "undeclared"}
	case "bits":
		if w := c5want(t, m, v); w != nil {
			b := w.(val.Bits)
			b.Labels = v.items[0].names
			return b
		}
		var mask uint64
		for _, n := range v.items[0].names {
			found := false
			for i, b := range t.bits {
				if b == n {
					mask |= 1 << uint(i)
					found = true
				}
			}
			if !found && n != "" {
				mask |= 1 << 40
			}
		}
		return val.Bits{Positions: mask, Labels: v.items[0].names}
	}
	return c5want(t, m, v)
}

func c5same(got, want val.Value) bool {
	if got == nil || want == nil {
		return got == nil && want == nil
	}
	if wb, ok := want.(val.Bits); ok {
		gb, ok2 := got.(val.Bits)
		return ok2 && gb.Positions == wb.Positions
	}
	if we, ok := want.(val.Enum); ok {
		ge, ok2 := got.(val.Enum)
		return ok2 && ge.Id == we.Id && ge.Label == we.Label
	}
	if l, ok := want.(val.Listable); ok && l.Len() == 0 {
		gl, ok2 := got.(val.Listable)
		return ok2 && gl.Len() == 0
	}
	return val.Equal(got, want)
}

// ---- write paths ----------------------------------------------------------------------------

var c5pathNames = []string{"UpsertFrom(JSON)", "SetValue(native)", "Set(val.Value)", "UpsertFrom(XML)", "UpsertFrom(reflect node)", "UpdateFrom(JSON)", "InsertFrom(JSON quoted numbers)", "SetValue(val.Value)"}

// returns applicable=false when the path cannot express the value
func c5write(path int, t *c5type, m *meta.Module, b *node.Browser, v c5value) (applicable bool, err error) {
	id := t.ident()
	switch path {
	case 0, 5, 6:
		n, e := nodeutil.ReadJSON(`{"` + id + `":` + v.json(path == 6) + `}`)
		if e != nil {
			return false, nil
		}
		switch path {
		case 0:
			return true, b.Root().UpsertFrom(n)
		case 5:
			return true, b.Root().UpdateFrom(n)
		}
		return true, b.Root().InsertFrom(n)
	case 1:
		sel, e := b.Root().Find(id)
		if e != nil || sel == nil {
			return false, nil
		}
		return true, sel.SetValue(v.native(t))
	case 2:
		lm := meta.Find(m, id).(meta.Leafable)
		w := c5typed(t, lm.Type(), v)
		if w == nil {
			return false, nil
		}
		sel, e := b.Root().Find(id)
		if e != nil || sel == nil {
			return false, nil
		}
		return true, sel.Set(w)
	case 7:
		// SetValue handed a value that already is a val.Value of the leaf's format (a value obtained
		// with GetValue from another leaf, or built by the caller): NewValue converts it again
		lm := meta.Find(m, id).(meta.Leafable)
		w := c5typed(t, lm.Type(), v)
		if w == nil {
			return false, nil
		}
		sel, e := b.Root().Find(id)
		if e != nil || sel == nil {
			return false, nil
		}
		return true, sel.SetValue(w)
	case 3:
		x, ok := v.xml(id)
		if !ok {
			return false, nil
		}
		n, e := nodeutil.ReadXMLDoc(strings.NewReader(x))
		if e != nil {
			return false, nil
		}
		return true, b.Root().UpsertFrom(n)
	case 4:
		src := map[string]interface{}{id: v.native(t)}
		return true, b.Root().UpsertFrom(nodeutil.ReflectChild(src))
	}
	return false, nil
}

type c5obs struct {
	path, outcome, store int
	errText              string
}

// one write of v through path onto a store that holds pre (nil = absent)
func c5observe(path int, t *c5type, m *meta.Module, pre *c5value, v c5value) (o c5obs, applicable bool) {
	id := t.ident()
	data := map[string]interface{}{}
	b := node.NewBrowser(m, nodeutil.ReflectChild(data))
	lm := meta.Find(m, id).(meta.Leafable)
	var preWant val.Value
	if pre != nil {
		func() {
			defer func() { recover() }()
			c5write(0, t, m, b, *pre)
		}()
		preWant = c5want(t, lm.Type(), *pre)
		got, _ := b.Root().GetValue(id)
		if !c5same(got, preWant) || preWant == nil {
			return o, false // the pre-state could not be established
		}
	}
	o.path = path
	func() {
		defer func() {
			if r := recover(); r != nil {
				o.outcome = 2
				o.errText = fmt.Sprint(r)
				applicable = true
			}
		}()
		ok, err := c5write(path, t, m, b, v)
		applicable = ok
		if err != nil {
			o.outcome = 1
			o.errText = err.Error()
		}
	}()
	if !applicable {
		return o, false
	}
	var got val.Value
	func() {
		defer func() {
			if r := recover(); r != nil {
				o.store = 2
			}
		}()
		got, _ = b.Root().GetValue(id)
	}()
	want := c5want(t, lm.Type(), v)
	if path == 2 || path == 7 {
		want = c5typed(t, lm.Type(), v)
		// an undeclared enum / bits value cannot be read back through the library (the read
		// converts again); look at what the map holds
		if raw, ok := data[id].(val.Value); ok && (t.base == "enumeration" || t.base == "bits") {
			got = raw
		}
		if u, ok := data[id].(uint64); ok && t.base == "bits" {
			got = val.Bits{Positions: u}
		}
	}
	switch {
	case o.store == 2:
	case want != nil && c5same(got, want):
		o.store = 1
	case c5same(got, preWant):
		o.store = 0
	default:
		o.store = 2
	}
	if len(o.errText) > 100 {
		o.errText = o.errText[:100]
	}
	return o, true
}

// ---- generators -----------------------------------------------------------------------------

func c5bigRand(r *gen.Rng, lo, hi *big.Int) *big.Int {
	span := new(big.Int).Sub(hi, lo)
	span.Add(span, big.NewInt(1))
	if span.Sign() <= 0 {
		return new(big.Int).Set(lo)
	}
	x := new(big.Int).SetUint64(r.U64())
	x.Lsh(x, 64).Add(x, new(big.Int).SetUint64(r.U64()))
	x.Mod(x, span)
	return x.Add(x, lo)
}

// sorted distinct cut points inside a region of [lo,hi]
func c5points(r *gen.Rng, lo, hi *big.Int, n int) []*big.Int {
	rlo, rhi := new(big.Int).Set(lo), new(big.Int).Set(hi)
	w := big.NewInt(int64(20 + r.Intn(200)))
	switch r.Intn(10) {
	case 0, 1, 2, 3: // around zero (or the low end of an unsigned type)
		c := big.NewInt(int64(r.Intn(60) - 30))
		rlo = new(big.Int).Sub(c, w)
		rhi = new(big.Int).Add(c, w)
	case 4, 5, 6: // near the top of the type
		rlo = new(big.Int).Sub(hi, w)
	case 7: // near the bottom
		rhi = new(big.Int).Add(lo, w)
	default: // anywhere
	}
	if rlo.Cmp(lo) < 0 {
		rlo.Set(lo)
	}
	if rhi.Cmp(hi) > 0 {
		rhi.Set(hi)
	}
	seen := map[string]bool{}
	var pts []*big.Int
	for i := 0; i < n*3 && len(pts) < n; i++ {
		p := c5bigRand(r, rlo, rhi)
		if r.Chance(1, 5) {
			p = new(big.Int).Set(gen.Pick(r, []*big.Int{lo, hi, rlo, rhi, big.NewInt(0)}))
			if p.Cmp(lo) < 0 || p.Cmp(hi) > 0 {
				p = new(big.Int).Set(lo)
			}
		}
		if !seen[p.String()] {
			seen[p.String()] = true
			pts = append(pts, p)
		}
	}
	sort.Slice(pts, func(i, j int) bool { return pts[i].Cmp(pts[j]) < 0 })
	return pts
}

// alternatives over the cut points, ascending and disjoint; k = decimal scale of the numbers
func c5alts(r *gen.Rng, pts []*big.Int, k int, kwOK bool) []c5alt {
	var alts []c5alt
	num := func(p *big.Int) c5bound { return c5bound{m: p, k: k} }
	for i := 0; i < len(pts); {
		if r.Chance(1, 4) { // skip a point
			i++
			continue
		}
		if i+1 >= len(pts) || r.Chance(1, 3) {
			alts = append(alts, c5alt{lo: num(pts[i]), hi: num(pts[i]), single: true})
			i++
			continue
		}
		j := i + 1
		if j+1 < len(pts) && r.Chance(1, 4) {
			j++
		}
		alts = append(alts, c5alt{lo: num(pts[i]), hi: num(pts[j])})
		i = j + 1
	}
	if len(alts) == 0 {
		p := pts[r.Intn(len(pts))]
		alts = append(alts, c5alt{lo: num(p), hi: num(p), single: true})
	}
	if kwOK {
		if !alts[0].single && r.Chance(1, 4) {
			alts[0].lo = c5bound{kw: 1}
		}
		last := len(alts) - 1
		if !alts[last].single && r.Chance(1, 4) {
			alts[last].hi = c5bound{kw: 2}
		}
		if len(alts) == 1 && alts[0].single && r.Chance(1, 10) { // "5" -> "5..max" / "min..5"
			alts[0].single = false
			if r.Bool() {
				alts[0].hi = c5bound{kw: 2}
			} else {
				alts[0].lo = c5bound{kw: 1}
			}
		}
	}
	return alts
}

var c5invalid = []string{"", "..", "1..", "..5", "a", "1..b", "1..2..3", "1 2", "--1", "1.2.3", "|", "1|", "5..|7", "mix..3", "MAX"}

var c5patPool = []string{"[a-z]+", "a.*", ".*z", "[0-9]{2,4}", "x.*x", "(ab)*", "[^0-9]*", "a|zz", ".{2,3}", "[a-zé]*", "b"}

var c5alphabet = []string{"a", "b", "z", "x", "1", "7", "é", "€", "😀", "-"}

func c5genType(r *gen.Rng) *c5type {
	t := &c5type{}
	switch x := r.Intn(20); {
	case x < 9:
		t.base = gen.Pick(r, c5kinds)
	case x < 12:
		t.base = "decimal64"
		t.fd = 1 + r.Intn(4)
	case x < 17:
		t.base = "string"
	case x < 19:
		t.base = "enumeration"
	default:
		t.base = "bits"
	}
	depth := r.Intn(4)
	t.levels = make([]c5level, depth+1)
	switch t.base {
	case "enumeration":
		names := []string{"a", "b", "up", "down", "x-y", "Z"}
		n := 2 + r.Intn(3)
		// strictly increasing values: compileType treats an explicit "value 0" as unset and the
		// grammar rejects negative values (both belong to the schema properties C01/C02)
		v := int64(r.Intn(3))
		for i := 0; i < n; i++ {
			t.enums = append(t.enums, c5enum{names[i], v})
			v += 1 + int64(r.Intn(4))
		}
		return t
	case "bits":
		t.bits = []string{"a", "b", "cc", "d-e"}[:2+r.Intn(3)]
		return t
	}
	t.isList = r.Chance(1, 4)
	restrictAt := func() []bool {
		on := make([]bool, depth+1)
		any := false
		for i := range on {
			on[i] = r.Chance(3, 5)
			any = any || on[i]
		}
		if !any {
			on[r.Intn(depth+1)] = true
		}
		return on
	}
	if t.base == "string" {
		onLen := restrictAt()
		if r.Chance(1, 4) {
			onLen = make([]bool, depth+1)
		}
		pts := c5points(r, big.NewInt(0), big.NewInt(12), 2+r.Intn(4))
		for i := range t.levels {
			if onLen[i] {
				t.levels[i].length = c5alts(r, pts, 0, true)
			}
		}
		// patterns: mostly at most one in the whole chain (outside the known-finding regions)
		switch x := r.Intn(20); {
		case x < 9:
			t.levels[r.Intn(depth+1)].pats = []c5pat{{re: gen.Pick(r, c5patPool), invert: r.Chance(1, 4)}}
		case x < 12:
			t.levels[r.Intn(depth+1)].pats = []c5pat{{re: gen.Pick(r, c5patPool), invert: r.Chance(1, 5)}, {re: gen.Pick(r, c5patPool), invert: r.Chance(1, 5)}}
		case x < 15 && depth > 0:
			i := r.Intn(depth)
			t.levels[i].pats = []c5pat{{re: gen.Pick(r, c5patPool), invert: r.Chance(1, 5)}}
			t.levels[i+1+r.Intn(depth-i)].pats = []c5pat{{re: gen.Pick(r, c5patPool), invert: r.Chance(1, 5)}}
		}
	} else {
		var lo, hi *big.Int
		k := 0
		if t.base == "decimal64" {
			lo, hi = big.NewInt(-2000000), big.NewInt(2000000)
			if r.Chance(1, 4) {
				lo, hi = big.NewInt(-900000000000), big.NewInt(900000000000)
			}
			k = t.fd
		} else {
			lo, hi = c5dom(t.base)
		}
		on := restrictAt()
		pts := c5points(r, lo, hi, 2+r.Intn(6))
		for i := range t.levels {
			if on[i] {
				kk := k
				p := pts
				if t.base == "decimal64" && r.Chance(1, 4) { // integer-spelled bounds on a decimal leaf
					kk = 0
					p = c5points(r, big.NewInt(-200), big.NewInt(200), 2+r.Intn(4))
				}
				t.levels[i].rng = c5alts(r, p, kk, true)
			}
		}
		// finding 4: a keyword as single value or on the wrong side, only on the innermost
		// restricting level of an integer type (where min / max are the type's extremes)
		if c5isInt(t.base) && r.Chance(1, 12) {
			for i := depth; i >= 0; i-- {
				if t.levels[i].rng != nil {
					a := &t.levels[i].rng[r.Intn(len(t.levels[i].rng))]
					switch r.Intn(4) {
					case 0:
						*a = c5alt{lo: c5bound{kw: 2}, hi: c5bound{kw: 2}, single: true}
					case 1:
						*a = c5alt{lo: c5bound{kw: 1}, hi: c5bound{kw: 1}, single: true}
					case 2:
						a.single = false
						a.hi = c5bound{kw: 1}
					default:
						a.single = false
						a.lo = c5bound{kw: 2}
					}
					break
				}
			}
		}
	}
	for i := range t.levels {
		if t.levels[i].rng != nil {
			t.levels[i].rngTxt = c5exprText(r, t.levels[i].rng)
		}
		if t.levels[i].length != nil {
			t.levels[i].lenTxt = c5exprText(r, t.levels[i].length)
		}
	}
	if r.Chance(1, 12) { // an expression that must not load
		i := r.Intn(depth + 1)
		t.levels[i].invalid = true
		if t.base == "string" {
			t.levels[i].length = nil
			t.levels[i].badLen = true
			t.levels[i].lenTxt = gen.Pick(r, c5invalid)
		} else {
			t.levels[i].rng = nil
			t.levels[i].badRng = true
			t.levels[i].rngTxt = gen.Pick(r, c5invalid)
		}
	}
	return t
}

// ---- generated regular expressions ------------------------------------------------------------
//
// A small family inside the common subset of XSD and Go regular expressions: alternatives of
// sequences of (atom, quantifier). Generated rather than drawn from c5patPool so that an expression
// is (almost always) new to the process, and so that members of its language can be sampled.

type c5rxItem struct {
	atom     string   // text of the atom
	chars    []string // strings the atom matches (a sample of them)
	quant    string
	min, max int // repetitions to sample
}

type c5rx struct{ alts [][]c5rxItem }

var c5rxAtoms = []c5rxItem{
	{atom: "a", chars: []string{"a"}}, {atom: "b", chars: []string{"b"}}, {atom: "z", chars: []string{"z"}},
	{atom: "x", chars: []string{"x"}}, {atom: "1", chars: []string{"1"}}, {atom: "7", chars: []string{"7"}},
	{atom: "[a-z]", chars: []string{"a", "b", "z", "x"}},
	{atom: "[0-9]", chars: []string{"1", "7"}},
	{atom: ".", chars: c5alphabet},
	{atom: "[^0-9]", chars: []string{"a", "b", "z", "x", "é", "€", "😀", "-"}},
	{atom: "[a-zé]", chars: []string{"a", "b", "z", "x", "é"}},
	{atom: "[abx]", chars: []string{"a", "b", "x"}},
	{atom: "(ab)", chars: []string{"ab"}},
	{atom: "(z|17)", chars: []string{"z", "17"}},
}

var c5rxQuants = []struct {
	q        string
	min, max int
}{{"", 1, 1}, {"", 1, 1}, {"*", 0, 3}, {"+", 1, 3}, {"?", 0, 1}, {"{2,3}", 2, 3}, {"{2}", 2, 2}}

func c5genRx(r *gen.Rng) *c5rx {
	x := &c5rx{}
	nAlts := 1
	if r.Chance(1, 5) {
		nAlts = 2
	}
	for a := 0; a < nAlts; a++ {
		var seq []c5rxItem
		for i, n := 0, 1+r.Intn(3); i < n; i++ {
			it := gen.Pick(r, c5rxAtoms)
			q := c5rxQuants[r.Intn(len(c5rxQuants))]
			it.quant, it.min, it.max = q.q, q.min, q.max
			seq = append(seq, it)
		}
		x.alts = append(x.alts, seq)
	}
	return x
}

func (x *c5rx) text() string {
	parts := make([]string, len(x.alts))
	for i, seq := range x.alts {
		for _, it := range seq {
			parts[i] += it.atom + it.quant
		}
	}
	return strings.Join(parts, "|")
}

func (x *c5rx) sample(r *gen.Rng) string {
	var b strings.Builder
	for _, it := range x.alts[r.Intn(len(x.alts))] {
		for i, n := 0, it.min+r.Intn(it.max-it.min+1); i < n; i++ {
			b.WriteString(gen.Pick(r, it.chars))
		}
	}
	return b.String()
}

// one character dropped, replaced or added
func c5mutate(r *gen.Rng, s string) string {
	rs := []rune(s)
	c := []rune(gen.Pick(r, c5alphabet))
	switch k := r.Intn(3); {
	case k == 0 && len(rs) > 0:
		i := r.Intn(len(rs))
		return string(rs[:i]) + string(rs[i+1:])
	case k == 1 && len(rs) > 0:
		i := r.Intn(len(rs))
		return string(rs[:i]) + string(c) + string(rs[i+1:])
	}
	i := r.Intn(len(rs) + 1)
	return string(rs[:i]) + string(c) + string(rs[i:])
}

// ---- modules that repeat one expression in several pattern statements ---------------------------
//
// 2-4 string leaves / leaf-lists in ONE module. Every leaf has a pattern statement with the same
// generated expression; the invert-match modifiers differ between the leaves (the assignment is
// random but never constant). The statement sits on the leaf's own type or on a typedef of its
// chain; a later leaf may use the typedef chain of the first. Each leaf is a case of its own: the
// modifier (and every other restriction) of a pattern statement belongs to that statement alone.

func c5sharedLevelTexts(r *gen.Rng, t *c5type) {
	for i := range t.levels {
		if t.levels[i].length != nil && t.levels[i].lenTxt == "" {
			t.levels[i].lenTxt = c5exprText(r, t.levels[i].length)
		}
	}
}

func c5genShared(r *gen.Rng) []*c5type {
	rxs := []*c5rx{c5genRx(r)}
	if r.Chance(1, 3) {
		rxs = append(rxs, c5genRx(r))
	}
	pat := func(x *c5rx, inv bool) c5pat { return c5pat{re: x.text(), invert: inv, rx: x} }
	k := 2 + r.Intn(2)
	if r.Chance(1, 4) {
		k++
	}
	flags := make([]bool, k)
	for constant := true; constant; {
		for i := range flags {
			flags[i] = r.Bool()
			constant = constant && flags[i] == flags[0]
		}
	}
	var ts []*c5type
	for i := 0; i < k; i++ {
		t := &c5type{base: "string", name: fmt.Sprintf("l%d", i+1), isList: r.Chance(1, 4)}
		if i > 0 && len(ts[0].levels) > 1 && r.Chance(1, 4) {
			// the typedef chain of the first leaf, with or without a pattern statement of its own
			t.levels = append([]c5level{{}}, ts[0].levels[1:]...)
			t.tdNames, t.noDecl = ts[0].tdNames, true
			if r.Chance(1, 2) {
				t.levels[0].pats = []c5pat{pat(rxs[0], flags[i])}
			}
		} else {
			depth := r.Intn(3)
			t.levels = make([]c5level, depth+1)
			for j := 1; j <= depth; j++ {
				t.tdNames = append(t.tdNames, fmt.Sprintf("l%dt%d", i+1, j))
			}
			at := r.Intn(depth + 1)
			t.levels[at].pats = []c5pat{pat(rxs[0], flags[i])}
			if r.Chance(1, 5) { // a second statement: same or other level, same or other expression
				j := r.Intn(depth + 1)
				t.levels[j].pats = append(t.levels[j].pats, pat(gen.Pick(r, rxs), r.Bool()))
			}
		}
		if r.Chance(1, 2) {
			pts := c5points(r, big.NewInt(0), big.NewInt(8), 2+r.Intn(2))
			t.levels[0].length = c5alts(r, pts, 0, true)
		}
		c5sharedLevelTexts(r, t)
		ts = append(ts, t)
	}
	return ts
}

func c5fixedShared() [][]*c5type {
	lit := func(c string) c5rxItem { return c5rxItem{atom: c, chars: []string{c}, min: 1, max: 1} }
	az := c5rxItem{atom: "[a-z]", chars: []string{"a", "b", "z", "x"}, quant: "+", min: 1, max: 3}
	d := c5rxItem{atom: "[0-9]", chars: []string{"1", "7"}, quant: "{2}", min: 2, max: 2}
	sys := &c5rx{alts: [][]c5rxItem{{lit("s"), lit("y"), lit("s"), lit("-"), az}}}
	id := &c5rx{alts: [][]c5rxItem{{lit("i"), lit("d"), d}}}
	p := func(x *c5rx, inv bool) []c5pat { return []c5pat{{re: x.text(), invert: inv, rx: x}} }
	return [][]*c5type{{
		// anything but a reserved name / only a reserved name; the other expression the other way round
		{base: "string", name: "free", levels: []c5level{{pats: p(sys, true)}}},
		{base: "string", name: "reserved", levels: []c5level{{pats: p(sys, false)}}},
		{base: "string", name: "reserved-list", isList: true, levels: []c5level{{}, {pats: p(sys, false)}}, tdNames: []string{"reserved-name"}},
		{base: "string", name: "ident", levels: []c5level{{}, {pats: p(id, false)}}, tdNames: []string{"ident-t"}},
		{base: "string", name: "other", levels: []c5level{{pats: p(id, true)}}},
	}}
}

// ---- fixed edge types included in every run ---------------------------------------------------

func c5n(dec string) c5bound { // "12", "-0.5", "min", "max"
	switch dec {
	case "min":
		return c5bound{kw: 1}
	case "max":
		return c5bound{kw: 2}
	}
	k := 0
	if i := strings.IndexByte(dec, '.'); i >= 0 {
		k = len(dec) - i - 1
		dec = dec[:i] + dec[i+1:]
	}
	m, _ := new(big.Int).SetString(dec, 10)
	return c5bound{m: m, k: k}
}

// "a..b" or "a"
func c5a(parts ...string) []c5alt {
	var out []c5alt
	for _, p := range parts {
		if i := strings.Index(p, ".."); i >= 0 {
			out = append(out, c5alt{lo: c5n(p[:i]), hi: c5n(p[i+2:])})
		} else {
			out = append(out, c5alt{lo: c5n(p), hi: c5n(p), single: true})
		}
	}
	return out
}

func c5fixedTypes() []*c5type {
	rg := func(alts ...[]c5alt) []c5level {
		ls := make([]c5level, len(alts))
		for i, a := range alts {
			ls[i].rng = a
		}
		return ls
	}
	ln := func(alts ...[]c5alt) []c5level {
		ls := make([]c5level, len(alts))
		for i, a := range alts {
			ls[i].length = a
		}
		return ls
	}
	return []*c5type{
		{base: "uint64", levels: rg(c5a("0", "5..max"))},
		{base: "uint64", levels: rg(c5a("min..0", "18446744073709551615"))},
		{base: "uint64", levels: rg(c5a("-5..10"), c5a("0..9223372036854775808"))},
		{base: "uint64", isList: true, levels: rg(c5a("0..1", "9223372036854775807..9223372036854775808"))},
		{base: "int32", levels: rg(c5a("0..9223372036854775808"), nil, c5a("min..100"))},
		{base: "int64", levels: rg(c5a("min..-9223372036854775807", "0", "9223372036854775807"))},
		{base: "int64", levels: rg(c5a("-9223372036854775808", "9223372036854775806..max"))},
		{base: "int8", levels: rg(c5a("-5.0..10.0", "20.00"))},
		{base: "uint8", levels: rg(c5a("1..10"), c5a("0..100"))},
		{base: "int16", isList: true, levels: rg(c5a("1..10", "40..60"))},
		{base: "decimal64", fd: 2, levels: rg(c5a("-0.01..0.01", "1.5", "2..max"))},
		{base: "decimal64", fd: 1, levels: rg(c5a("min..-1", "0.0..0.5"), c5a("-3.5..0.4"))},
		{base: "string", levels: ln(c5a("0", "2..3", "10..max"))},
		{base: "string", levels: ln(c5a("3..5"), c5a("2..8"), c5a("min..10"))},
		{base: "string", isList: true, levels: ln(c5a("1..2"))},
		{base: "enumeration", enums: []c5enum{{"red", 0}, {"green", 5}, {"blue", 6}}, levels: make([]c5level, 2)},
		{base: "bits", bits: []string{"up", "down"}, levels: make([]c5level, 1)},
	}
}

func c5strOfLen(r *gen.Rng, n int) string {
	var b strings.Builder
	for i := 0; i < n; i++ {
		b.WriteString(gen.Pick(r, c5alphabet))
	}
	return b.String()
}

func c5scalars(r *gen.Rng, t *c5type) []c5scalar {
	var out []c5scalar
	seen := map[string]bool{}
	add := func(s c5scalar) {
		if s.kind == "num" && !c5inDom(t, s) {
			// one beyond the type: only for the kinds whose conversion checks the range (int32
			// and uint64 wrap in val/conv.go - property C10)
			switch t.base {
			case "int8", "int16", "uint8", "uint16", "uint32":
			default:
				return
			}
		}
		k := s.kind + ":" + s.text()
		if !seen[k] {
			seen[k] = true
			out = append(out, s)
		}
	}
	one := big.NewInt(1)
	switch t.base {
	case "enumeration":
		for _, e := range t.enums {
			add(c5scalar{kind: "ename", s: e.name})
			add(c5scalar{kind: "eval", z: big.NewInt(e.v)})
			add(c5scalar{kind: "eval", z: big.NewInt(e.v + 1)})
		}
		add(c5scalar{kind: "ename", s: "zz"})
		add(c5scalar{kind: "ename", s: "A"})
		add(c5scalar{kind: "eval", z: big.NewInt(77)})
		add(c5scalar{kind: "eval", z: big.NewInt(-9)})
	case "bits":
		pool := append(append([]string{}, t.bits...), "zz", "A")
		add(c5scalar{kind: "bits", names: []string{t.bits[0]}})
		add(c5scalar{kind: "bits", names: []string{"zz"}})
		add(c5scalar{kind: "bits", names: []string{t.bits[0], "zz"}})
		add(c5scalar{kind: "bits", names: []string{t.bits[1], "", t.bits[0]}})
		add(c5scalar{kind: "bits", names: append([]string{}, t.bits...)})
		for i := 0; i < 6; i++ {
			n := 1 + r.Intn(3)
			var names []string
			for j := 0; j < n; j++ {
				names = append(names, gen.Pick(r, pool))
			}
			add(c5scalar{kind: "bits", names: names})
		}
	case "string":
		for _, l := range t.levels {
			for _, a := range l.length {
				for _, b := range []c5bound{a.lo, a.hi} {
					if b.kw == 0 && b.m.IsInt64() {
						for d := int64(-1); d <= 1; d++ {
							if n := b.m.Int64() + d; n >= 0 && n < 40 {
								add(c5scalar{kind: "str", s: c5strOfLen(r, int(n))})
								// the same number of characters, all multi-byte / all ASCII
								add(c5scalar{kind: "str", s: strings.Repeat(gen.Pick(r, []string{"é", "€", "😀", "a", "z"}), int(n))})
							}
						}
					}
				}
			}
		}
		for _, s := range []string{"", "a", "abc", "az", "zz", "xyzx", "123", "12", "aéz", "€", "abab", "a1", "b", "xx"} {
			if r.Chance(1, 2) {
				add(c5scalar{kind: "str", s: s})
			}
		}
		for i := 0; i < 4; i++ {
			add(c5scalar{kind: "str", s: c5strOfLen(r, r.Intn(14))})
		}
		// strings of the language of a generated expression, and near misses
		for _, l := range t.levels {
			for _, p := range l.pats {
				if p.rx == nil {
					continue
				}
				for i := 0; i < 3; i++ {
					add(c5scalar{kind: "str", s: p.rx.sample(r)})
				}
				for i := 0; i < 2; i++ {
					add(c5scalar{kind: "str", s: c5mutate(r, p.rx.sample(r))})
				}
			}
		}
	case "decimal64":
		for _, l := range t.levels {
			for _, a := range l.rng {
				for _, b := range []c5bound{a.lo, a.hi} {
					if b.kw == 0 {
						m := new(big.Int).Set(b.m)
						for i := b.k; i < t.fd; i++ {
							m.Mul(m, big.NewInt(10))
						}
						for d := int64(-1); d <= 1; d++ {
							add(c5scalar{kind: "dec", z: new(big.Int).Add(m, big.NewInt(d)), k: t.fd})
						}
					}
				}
			}
		}
		for i := 0; i < 3; i++ {
			add(c5scalar{kind: "dec", z: big.NewInt(int64(r.Intn(400000) - 200000)), k: t.fd})
		}
		add(c5scalar{kind: "dec", z: big.NewInt(0), k: 0})
	default:
		lo, hi := c5dom(t.base)
		for _, l := range t.levels {
			for _, a := range l.rng {
				for _, b := range []c5bound{a.lo, a.hi} {
					if b.kw == 0 {
						q := new(big.Int).Set(b.m)
						for i := 0; i < b.k; i++ {
							q.Quo(q, big.NewInt(10))
						}
						for d := int64(-1); d <= 1; d++ {
							add(c5scalar{kind: "num", z: new(big.Int).Add(q, big.NewInt(d))})
						}
					}
				}
			}
		}
		add(c5scalar{kind: "num", z: lo})
		add(c5scalar{kind: "num", z: hi})
		add(c5scalar{kind: "num", z: new(big.Int).Sub(lo, one)})
		add(c5scalar{kind: "num", z: new(big.Int).Add(hi, one)})
		add(c5scalar{kind: "num", z: big.NewInt(0)})
		for i := 0; i < 3; i++ {
			add(c5scalar{kind: "num", z: c5bigRand(r, lo, hi)})
		}
	}
	return out
}

func c5values(r *gen.Rng, t *c5type, max int) []c5value {
	sc := c5scalars(r, t)
	// shuffle deterministically
	for i := len(sc) - 1; i > 0; i-- {
		j := r.Intn(i + 1)
		sc[i], sc[j] = sc[j], sc[i]
	}
	var out []c5value
	if !t.isList {
		for _, s := range sc {
			if len(out) < max {
				out = append(out, c5value{items: []c5scalar{s}})
			}
		}
		return out
	}
	out = append(out, c5value{list: true})
	for len(out) < max {
		n := 1 + r.Intn(3)
		v := c5value{list: true}
		for j := 0; j < n; j++ {
			v.items = append(v.items, gen.Pick(r, sc))
		}
		out = append(out, v)
	}
	return out
}

// ---- the property ---------------------------------------------------------------------------

func c5rxTable(t *c5type, vals []c5value) (string, error) {
	var items []string
	seen := map[string]bool{}
	for _, l := range t.levels {
		for _, p := range l.pats {
			re, err := regexp.Compile("^(?:" + p.re + ")$")
			if err != nil {
				return "", err
			}
			for _, v := range vals {
				for _, s := range v.items {
					if s.kind != "str" {
						continue
					}
					k := p.re + "\x00" + s.s
					if seen[k] {
						continue
					}
					seen[k] = true
					items = append(items, emit.Pair(emit.Pair(emit.Str(p.re), emit.Str(s.s)), emit.Bool(re.MatchString(s.s))))
				}
			}
		}
	}
	return emit.List(items), nil
}

// ---- unions of integer types ------------------------------------------------------------------

type c5member struct {
	kind string
	rng  []c5alt
	txt  string
}

// member kinds whose conversion checks the range (see c5scalars)
var c5unionKinds = []string{"int8", "int16", "uint8", "uint16", "uint32"}

func c5union(ctx *core.Ctx, r *gen.Rng) {
	n := 1 + r.Intn(3)
	ms := make([]c5member, n)
	restricted := r.Chance(1, 2)
	for i := range ms {
		ms[i].kind = gen.Pick(r, c5unionKinds)
		if restricted && r.Chance(2, 3) {
			lo, hi := c5dom(ms[i].kind)
			ms[i].rng = c5alts(r, c5points(r, lo, hi, 2+r.Intn(4)), 0, true)
			ms[i].txt = c5exprText(r, ms[i].rng)
		}
	}
	var y strings.Builder
	y.WriteString("module m { prefix \"\"; namespace \"\"; revision 0;\n  leaf l { type union {")
	for _, m := range ms {
		if m.rng != nil {
			fmt.Fprintf(&y, " type %s { range %q; }", m.kind, m.txt)
		} else {
			fmt.Fprintf(&y, " type %s;", m.kind)
		}
	}
	y.WriteString(" } }\n}\n")
	var mod *meta.Module
	var loadErr error
	func() {
		defer func() {
			if rec := recover(); rec != nil {
				loadErr = fmt.Errorf("panic: %v", rec)
			}
		}()
		mod, loadErr = parser.LoadModuleFromString(nil, y.String())
	}()
	loaded := loadErr == nil && mod != nil
	// candidates: bounds and neighbours, extremes of every member and one beyond, zero
	seen := map[string]bool{}
	var cands []*big.Int
	add := func(z *big.Int) {
		if !seen[z.String()] {
			seen[z.String()] = true
			cands = append(cands, z)
		}
	}
	one := big.NewInt(1)
	for _, m := range ms {
		lo, hi := c5dom(m.kind)
		for _, z := range []*big.Int{lo, hi, new(big.Int).Sub(lo, one), new(big.Int).Add(hi, one)} {
			add(z)
		}
		for _, a := range m.rng {
			for _, b := range []c5bound{a.lo, a.hi} {
				if b.kw == 0 {
					for d := int64(-1); d <= 1; d++ {
						add(new(big.Int).Add(b.m, big.NewInt(d)))
					}
				}
			}
		}
	}
	add(big.NewInt(0))
	for i := len(cands) - 1; i > 0; i-- {
		j := r.Intn(i + 1)
		cands[i], cands[j] = cands[j], cands[i]
	}
	if len(cands) > 12 {
		cands = cands[:12]
	}
	mterms := make([]string, len(ms))
	for i, m := range ms {
		mterms[i] = emit.Pair(emit.Pair(c5kindCoq(m.kind), c5optText(m.rng != nil, m.txt)), c5altsTerm(m.rng, m.rng != nil))
	}
	type urow struct {
		z    *big.Int
		obs  []c5obs
		term string
	}
	var rows []urow
	if loaded {
		for _, z := range cands {
			row := urow{z: z}
			// the format ConvOneOf picks: first member whose domain holds z
			var want val.Value
			for _, m := range ms {
				lo, hi := c5dom(m.kind)
				if z.Cmp(lo) >= 0 && z.Cmp(hi) <= 0 {
					f, _ := val.TypeAsFormat(m.kind)
					want, _ = val.Conv(f, z.Int64())
					break
				}
			}
			for p, write := range []func(b *node.Browser) error{
				func(b *node.Browser) error {
					n, _ := nodeutil.ReadJSON(`{"l":` + z.String() + `}`)
					return b.Root().UpsertFrom(n)
				},
				func(b *node.Browser) error {
					sel, err := b.Root().Find("l")
					if err != nil {
						return err
					}
					return sel.SetValue(z.Int64())
				},
				func(b *node.Browser) error {
					n, err := nodeutil.ReadXMLDoc(strings.NewReader("<m><l>" + z.String() + "</l></m>"))
					if err != nil {
						return err
					}
					return b.Root().UpsertFrom(n)
				},
				func(b *node.Browser) error {
					return b.Root().UpsertFrom(nodeutil.ReflectChild(map[string]interface{}{"l": z.Int64()}))
				},
			} {
				data := map[string]interface{}{}
				b := node.NewBrowser(mod, nodeutil.ReflectChild(data))
				o := c5obs{path: p}
				func() {
					defer func() {
						if rec := recover(); rec != nil {
							o.outcome = 2
							o.errText = fmt.Sprint(rec)
						}
					}()
					if err := write(b); err != nil {
						o.outcome = 1
						o.errText = err.Error()
					}
				}()
				// look at the map itself: reading a union leaf back through the library converts
				// the stored native again (and uint16 -> int16 wraps there, property C10)
				raw, present := data["l"]
				switch {
				case want != nil && present && fmt.Sprint(raw) == z.String() && fmt.Sprintf("%T", raw) == fmt.Sprintf("%T", want.Value()):
					o.store = 1
				case !present:
					o.store = 0
				default:
					o.store = 2
				}
				row.obs = append(row.obs, o)
				ctx.Count(fmt.Sprintf("union-path%d:outcome%d", p, o.outcome))
			}
			obsT := make([]string, len(row.obs))
			for i, o := range row.obs {
				obsT[i] = emit.Pair(emit.Z(int64(o.outcome)), emit.Z(int64(o.store)))
			}
			row.term = emit.Pair(emit.ZBig(z), emit.List(obsT))
			rows = append(rows, row)
		}
	}
	rowDesc := func(row urow) map[string]interface{} {
		var obs []string
		for _, o := range row.obs {
			obs = append(obs, fmt.Sprintf("%s: outcome=%d store=%d %s", []string{"UpsertFrom(JSON)", "SetValue(int64)", "UpsertFrom(XML)", "UpsertFrom(reflect node)"}[o.path], o.outcome, o.store, o.errText))
		}
		return map[string]interface{}{"value": row.z.String(), "observations": obs,
			"codes": "outcome 0 accepted / 1 rejected / 2 panic; store 0 absent as before / 1 holds the written number / 2 other"}
	}
	ctx.Count("base:union")
	idx := ctx.N()
	if ctx.Explode == idx && len(rows) > 0 {
		for _, row := range rows {
			ctx.Add(emit.App("CUnion", emit.List(mterms), emit.Bool(loaded), emit.List([]string{row.term})),
				map[string]interface{}{"kind": "row", "module": y.String(), "write": rowDesc(row)}, true)
		}
		return
	}
	terms := make([]string, len(rows))
	for i, row := range rows {
		terms[i] = row.term
	}
	desc := map[string]interface{}{"kind": "table", "module": y.String(), "loaded": loaded, "values": len(rows)}
	if loadErr != nil {
		desc["load_error"] = loadErr.Error()
	}
	ctx.Add(emit.App("CUnion", emit.List(mterms), emit.Bool(loaded), emit.List(terms)), desc, len(rows) > 0)
	ctx.Hist["rows"] += len(rows)
	ctx.Hist["writes"] += 4 * len(rows)
}

// writes the candidate values of one leaf of a loaded module (nil = did not load) through every
// write path and records the case
func c5runType(ctx *core.Ctx, tr *gen.Rng, t *c5type, m *meta.Module, y string, loadErr error) error {
	const maxVals = 14
	loaded := loadErr == nil && m != nil
	ctx.Count("base:" + t.base)
	ctx.Count(fmt.Sprintf("depth:%d", len(t.levels)-1))
	ctx.Count(fmt.Sprintf("leaf-list:%v", t.isList))
	ctx.Count(fmt.Sprintf("loaded:%v", loaded))
	var vals []c5value
	if loaded {
		vals = c5values(tr, t, maxVals)
	}
	// a value the store holds before the write: the first candidate the library accepted
	type rowT struct {
		pre  *c5value
		v    c5value
		obs  []c5obs
		term string
	}
	var rows []rowT
	var accepted []c5value
	if loaded {
		for _, v := range vals {
			if o, ok := c5observe(0, t, m, nil, v); ok && o.outcome == 0 && o.store == 1 {
				accepted = append(accepted, v)
			}
		}
		for vi, v := range vals {
			var pre *c5value
			if len(accepted) > 0 && vi%2 == 1 {
				for k := 0; k < len(accepted); k++ {
					c := accepted[(vi+k)%len(accepted)]
					// another value, also as stored ("b a" and "b  a" are one bits value)
					lt := meta.Find(m, t.ident()).(meta.Leafable).Type()
					wv := c5want(t, lt, v)
					if c.key() != v.key() && (wv == nil || !c5same(c5want(t, lt, c), wv)) {
						pre = &c
						break
					}
				}
			}
			row := rowT{pre: pre, v: v}
			for p := range c5pathNames {
				if o, ok := c5observe(p, t, m, pre, v); ok {
					row.obs = append(row.obs, o)
					ctx.Count(fmt.Sprintf("path%d:outcome%d", p, o.outcome))
					if p == 0 && t.name != "" {
						ctx.Count(fmt.Sprintf("shared-pattern-leaf-rows:outcome%d", o.outcome))
					}
				}
			}
			if len(row.obs) == 0 {
				continue
			}
			var obsT, tobsT, sobsT []string
			for _, o := range row.obs {
				p := emit.Pair(emit.Z(int64(o.outcome)), emit.Z(int64(o.store)))
				switch o.path {
				case 2:
					tobsT = append(tobsT, p)
				case 7:
					sobsT = append(sobsT, p)
				default:
					obsT = append(obsT, p)
				}
			}
			preT := "None"
			if pre != nil {
				preT = emit.Some(pre.term())
			}
			row.term = emit.App("Row", preT, v.term(), emit.List(obsT), emit.List(tobsT), emit.List(sobsT))
			rows = append(rows, row)
		}
	}
	allVals := append([]c5value{}, vals...)
	rxt, err := c5rxTable(t, allVals)
	if err != nil {
		return err
	}
	head := []string{t.baseTerm(), emit.Bool(t.isList), t.chainTerm(), t.astTerm(), rxt, emit.Bool(loaded)}
	rowDesc := func(row rowT) map[string]interface{} {
		var obs []string
		for _, o := range row.obs {
			obs = append(obs, fmt.Sprintf("%s: outcome=%d store=%d %s", c5pathNames[o.path], o.outcome, o.store, o.errText))
		}
		d := map[string]interface{}{"value": row.v.desc(), "observations": obs,
			"codes": "outcome 0 accepted / 1 rejected / 2 panic; store 0 unchanged / 1 holds the written value / 2 other"}
		if row.pre != nil {
			d["stored_before"] = row.pre.desc()
		}
		return d
	}
	idx := ctx.N()
	if ctx.Explode == idx && len(rows) > 0 {
		for _, row := range rows {
			ctx.Add(emit.App("CType", append(append([]string{}, head...), emit.List([]string{row.term}))...),
				map[string]interface{}{"kind": "row", "module": y, "leaf": t.ident(), "write": rowDesc(row)}, true)
		}
		return nil
	}
	terms := make([]string, len(rows))
	for i, row := range rows {
		terms[i] = row.term
	}
	desc := map[string]interface{}{"kind": "table", "module": y, "leaf": t.ident(), "loaded": loaded, "values": len(rows)}
	if loadErr != nil {
		desc["load_error"] = loadErr.Error()
	}
	if len(rows) > 0 {
		desc["first_row"] = rowDesc(rows[0])
	}
	ctx.Add(emit.App("CType", append(append([]string{}, head...), emit.List(terms))...), desc, len(rows) > 0 || !loaded)
	ctx.Hist["rows"] += len(rows)
	for _, row := range rows {
		ctx.Hist["writes"] += len(row.obs)
	}
	return nil
}

func c5load(y string) (m *meta.Module, loadErr error) {
	defer func() {
		if rec := recover(); rec != nil {
			m, loadErr = nil, fmt.Errorf("panic: %v", rec)
		}
	}()
	return parser.LoadModuleFromString(nil, y)
}

func C05(ctx *core.Ctx) error {
	ctx.Imports = "Restrict.RangeParse Restrict.Model Restrict.Spec Restrict.Member Check.C05Check"
	ctx.Rule = "one case per generated leaf (leaf or leaf-list, typedef chain depth 0-3, restriction expressions printed from generated syntax; alone in its module, or one of 2-4 string leaves of one module whose pattern statements repeat the same generated expression with differing invert-match modifiers, own or shared typedefs); rows = candidate values (every bound and its neighbours, type extremes and one beyond, strings sampled from a generated expression and their mutations, random) x write paths " + strings.Join(c5pathNames, ", ") + "; plus one case per generated leaf / leaf-list of enumeration or bits (innermost type of a typedef chain of depth 0-3 whose levels may restrict it to a subset) or identityref (3-7 identities, base statements forming a DAG), rows = declared / restricted-away / undeclared names and values, the base identity itself, lists of 0-3 of them x the same write paths, the typed paths handing over val.Enum / EnumList / Bits / BitsList / IdentRef / IdentRefList, and a list of one also as its single value (SetValue, JSON scalar); distinct = by SHA-256 of the case term; non-trivial = the module loaded and at least one value was written, or the expression was invalid on purpose"
	r := gen.New(ctx.Seed)
	nTypes := ctx.Scale(40, 600)
	if ctx.Tier == "search" {
		nTypes = 960
	}
	fixed := c5fixedTypes()
	for ti := 0; ti < nTypes+len(fixed); ti++ {
		tr := r.Fork(uint64(ti) + 1)
		var t *c5type
		if ti < len(fixed) {
			t = fixed[ti]
			for i := range t.levels {
				if t.levels[i].rng != nil {
					t.levels[i].rngTxt = c5exprText(tr, t.levels[i].rng)
				}
				if t.levels[i].length != nil {
					t.levels[i].lenTxt = c5exprText(tr, t.levels[i].length)
				}
			}
			ctx.Count("fixed-edge-types")
		} else {
			t = c5genType(tr)
		}
		y := t.yang()
		m, loadErr := c5load(y)
		if err := c5runType(ctx, tr, t, m, y, loadErr); err != nil {
			return err
		}
	}
	ur := r.Fork(777)
	for i := 0; i < ctx.Scale(6, 80); i++ {
		c5union(ctx, ur.Fork(uint64(i)+1))
	}
	// modules whose leaves repeat one expression in several pattern statements
	sr := r.Fork(888)
	nShared := ctx.Scale(6, 90)
	if ctx.Tier == "search" {
		nShared = 150
	}
	fixedShared := c5fixedShared()
	for i := 0; i < nShared+len(fixedShared); i++ {
		mr := sr.Fork(uint64(i) + 1)
		var ts []*c5type
		if i < len(fixedShared) {
			ts = fixedShared[i]
			ctx.Count("fixed-edge-types")
		} else {
			ts = c5genShared(mr)
		}
		y := c5moduleText(ts)
		m, loadErr := c5load(y)
		ctx.Count("shared-pattern-modules")
		ctx.Count(fmt.Sprintf("shared-pattern-leaves:%d", len(ts)))
		for li, t := range ts {
			if err := c5runType(ctx, mr.Fork(uint64(li)+1), t, m, y, loadErr); err != nil {
				return err
			}
		}
	}
	// enumeration / bits (restricted through typedef levels) / identityref, leaf and leaf-list
	c5members(ctx, r.Fork(999))
	return nil
}
