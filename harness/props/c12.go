package props

import (
	"errors"
	"fmt"
	"strings"

	"github.com/freeconf/yang/meta"
	"github.com/freeconf/yang/node"

	"yvh/core"
	"yvh/emit"
	"yvh/gen"
	"yvh/tree"
)

func init() { Registry["C12"] = C12 }

type c12Event struct {
	kind   string // begin end read write
	target bool
	path   string
	ok     bool
	root   bool // begin/end: EditRoot flag
	detail string
}

var errInjected = errors.New("injected node failure")

// recorder records every callback of both stores and fails the k-th (k<0: none)
type recorder struct {
	events []c12Event
	failAt int
}

func (rec *recorder) hooks(target bool) *tree.Hooks {
	return &tree.Hooks{Event: func(kind, path, detail string) error {
		ev := c12Event{target: target, path: path, ok: true, detail: kind + " " + detail}
		switch kind {
		case "begin":
			ev.kind = "begin"
			ev.root = strings.Contains(detail, "root=true")
		case "end":
			ev.kind = "end"
			ev.root = strings.Contains(detail, "root=true")
		case "field-write":
			ev.kind = "write"
		case "child", "next":
			if strings.Contains(detail, "new=true") || strings.Contains(detail, "delete=true") {
				ev.kind = "write"
			} else {
				ev.kind = "read"
			}
		default:
			ev.kind = "read"
		}
		idx := len(rec.events)
		if idx == rec.failAt {
			ev.ok = false
		}
		rec.events = append(rec.events, ev)
		if !ev.ok {
			return errInjected
		}
		return nil
	}}
}

var c12Kinds = map[string]string{"begin": "KBegin", "end": "KEnd", "read": "KRead", "write": "KWrite"}

func (e c12Event) term() string {
	return emit.App("mkEv", c12Kinds[e.kind], emit.Bool(e.target), emit.Str(e.path), emit.Bool(e.ok))
}

func eventsTerm(evs []c12Event) string {
	items := make([]string, len(evs))
	for i, e := range evs {
		items[i] = e.term()
	}
	return emit.List(items)
}

func eventsDesc(evs []c12Event) []string {
	out := make([]string, len(evs))
	for i, e := range evs {
		side := "src"
		if e.target {
			side = "tgt"
		}
		ok := ""
		if !e.ok {
			ok = " FAILS"
		}
		out[i] = fmt.Sprintf("%d %s %q %s%s", i, side, e.path, e.detail, ok)
	}
	return out
}

// parseFrames rebuilds the frame tree of a fault-free trace; ok=false if it is not frame shaped
func parseFrames(evs []c12Event) (term string, ok bool) {
	pos := 0
	var parse func() (string, bool)
	parse = func() (string, bool) {
		e := evs[pos]
		if e.kind != "begin" {
			pos++
			return emit.App("Ev", e.term()), true
		}
		chain := []string{e.path}
		tg := e.target
		pos++
		if e.root {
			for pos < len(evs) && evs[pos].kind == "begin" && !evs[pos].root && evs[pos].target == tg &&
				strings.HasPrefix(chain[len(chain)-1], evs[pos].path) && evs[pos].path != chain[len(chain)-1] {
				chain = append(chain, evs[pos].path)
				pos++
			}
		}
		var body []string
		for {
			if pos >= len(evs) {
				return "", false
			}
			if evs[pos].kind == "end" && evs[pos].target == tg && evs[pos].path == chain[0] {
				break
			}
			if evs[pos].kind == "end" {
				return "", false
			}
			t, ok := parse()
			if !ok {
				return "", false
			}
			body = append(body, t)
		}
		for _, p := range chain {
			if pos >= len(evs) || evs[pos].kind != "end" || evs[pos].path != p || evs[pos].target != tg {
				return "", false
			}
			pos++
		}
		paths := make([]string, len(chain))
		for i, p := range chain {
			paths[i] = emit.Str(p)
		}
		return emit.App("Frame", emit.List(paths), emit.Bool(tg), emit.List(body)), true
	}
	var tops []string
	for pos < len(evs) {
		t, ok := parse()
		if !ok {
			return "", false
		}
		tops = append(tops, t)
	}
	// the whole run as one pseudo frame without chain
	return emit.App("Frame", "[]", "true", emit.List(tops)), true
}

type c12Scenario struct {
	yang     string
	m        *meta.Module
	root     *tree.SNode
	src, tgt *tree.Cont
	op       string // Upsert Insert Update Delete
	fromDir  bool
	path     string // entry path ("" = root)
}

// run executes the scenario on clones with the k-th callback failing
func (sc *c12Scenario) run(failAt int) (evs []c12Event, errored, wrapped bool, panicked string) {
	rec := &recorder{failAt: failAt}
	src, tgt := sc.src.Clone(), sc.tgt.Clone()
	srcB := node.NewBrowser(sc.m, src.Node(sc.root, rec.hooks(false), ""))
	tgtB := node.NewBrowser(sc.m, tgt.Node(sc.root, rec.hooks(true), ""))
	var err error
	func() {
		defer func() {
			if r := recover(); r != nil {
				panicked = fmt.Sprintf("%v", r)
			}
		}()
		srcSel, tgtSel := srcB.Root(), tgtB.Root()
		if sc.path != "" {
			// navigation happens before the operation under test: not recorded, never failed
			saved, savedFail := rec.events, rec.failAt
			rec.failAt = -1
			tgtSel, err = tgtB.Root().Find(sc.path)
			if err == nil && !sc.fromDir && sc.op != "Delete" {
				srcSel, err = srcB.Root().Find(sc.path)
			}
			rec.events, rec.failAt = saved, savedFail
			if err != nil || tgtSel == nil || srcSel == nil {
				err = fmt.Errorf("navigation failed: %v", err)
				return
			}
		}
		switch sc.op {
		case "Delete":
			err = tgtSel.Delete()
		default:
			st := map[string]int{"Upsert": 0, "Insert": 1, "Update": 2}[sc.op]
			var srcNode, tgtNode node.Node
			if sc.fromDir {
				srcNode = c12EntryNode(sc, src, rec.hooks(false))
			} else {
				tgtNode = c12EntryNode(sc, tgt, rec.hooks(true))
			}
			var p string
			err, p = applyEdit(st, sc.fromDir, srcSel, tgtSel, srcNode, tgtNode)
			if p != "" {
				panic(p)
			}
		}
	}()
	return rec.events, err != nil, err != nil && errors.Is(err, errInjected), panicked
}

// the node handed to XFrom / XInto at a non-root entry point: the store content at that path
func c12EntryNode(sc *c12Scenario, data *tree.Cont, h *tree.Hooks) node.Node {
	cur, s := data, sc.root
	path := ""
	if sc.path != "" {
		for _, seg := range strings.Split(sc.path, "/") {
			kid := s.Kids[s.KidIndex(seg)]
			next := cur.Conts[seg]
			if next == nil {
				next = tree.NewCont()
				cur.Conts[seg] = next
			}
			cur, s = next, kid
			path += "/" + seg
		}
	}
	return cur.Node(s, h, path)
}

// C12: for every scenario, every callback position k is made to fail once.
func C12(ctx *core.Ctx) error {
	ctx.Imports = "Tree.Trace Check.C12Check"
	ctx.Rule = "scenario = small choice-free schema x source/target pair x operation (Upsert/Insert/Update From/Into at root or at a container, Delete of a container or list entry); the fault-free callback trace (both stores) is recorded and parsed into frames, then EVERY position k of it is run again with the k-th callback returning an error (exhaustive per scenario); one case per (scenario, k) + one for the clean run; distinct by SHA-256; non-trivial = the clean trace has at least 4 callbacks"
	r := gen.New(ctx.Seed)
	opts := tree.GenOpts{MaxDepth: 2, MaxKids: 4, Lists: true, Defaults: true, KeyTypes: []string{"string", "int32"},
		Types: []string{"int32", "string", "boolean"}}
	nsc := ctx.Scale(24, 400)
	maxFaults := ctx.Scale(70, 400)
	for n := 0; n < nsc; n++ {
		yang, m, root, err := tree.GenSchema(r.Fork(uint64(n)), opts)
		if err != nil {
			return fmt.Errorf("schema: %v", err)
		}
		dr := r.Fork(uint64(900 + n))
		universe := tree.GenData(dr, root, 85, 2)
		sc := &c12Scenario{yang: yang, m: m, root: root,
			src: tree.Subsample(dr, root, universe, 85, 30), tgt: tree.Subsample(dr, root, universe, 75, 30),
			op: gen.Pick(dr, []string{"Upsert", "Upsert", "Upsert", "Insert", "Update", "Update", "Delete", "Delete"}), fromDir: dr.Bool()}
		if sc.op == "Insert" && dr.Chance(2, 3) {
			sc.tgt = tree.NewCont() // an insert that can succeed
		}
		// entry point: root, or a first/second level container present in the target
		if sc.op == "Delete" || dr.Chance(1, 2) {
			var paths []string
			for _, kid := range root.Kids {
				if kid.Kind == tree.KCont && sc.tgt.Conts[kid.Name] != nil {
					paths = append(paths, kid.Name)
					for _, k2 := range kid.Kids {
						if k2.Kind == tree.KCont && sc.tgt.Conts[kid.Name].Conts[k2.Name] != nil {
							paths = append(paths, kid.Name+"/"+k2.Name)
						}
					}
				}
				if kid.Kind == tree.KList && sc.op == "Delete" && sc.tgt.Lists[kid.Name] != nil {
					for _, row := range sc.tgt.Lists[kid.Name].Rows {
						if kp, ok := keyPath(kid, row); ok {
							paths = append(paths, kid.Name+"="+kp)
						}
					}
				}
			}
			if len(paths) > 0 {
				sc.path = gen.Pick(dr, paths)
			} else if sc.op == "Delete" {
				sc.op = "Upsert"
			}
		}
		if strings.Contains(sc.path, "=") && sc.op != "Delete" {
			sc.path = ""
		}
		if sc.path != "" && sc.op != "Delete" && !sc.fromDir {
			// XInto needs the entry to exist in the source as well
			cur := sc.src
			for _, seg := range strings.Split(sc.path, "/") {
				if cur != nil {
					cur = cur.Conts[seg]
				}
			}
			if cur == nil {
				sc.fromDir = true
			}
		}
		rootPath := ""
		if sc.path != "" {
			rootPath = "/" + sc.path
		}
		clean, errored, _, panicked := sc.run(-1)
		dir := "Into"
		if sc.fromDir {
			dir = "From"
		}
		call := sc.op + dir
		if sc.op == "Delete" {
			call = "Delete"
		}
		base := map[string]interface{}{"yang": yang, "call": call, "entry": sc.path, "source": sc.src.Desc(root), "target": sc.tgt.Desc(root)}
		treeTerm, ok := parseFrames(clean)
		topt := "None"
		if ok {
			topt = emit.Some(treeTerm)
		}
		d := map[string]interface{}{"scenario": base, "fault_at": "none", "trace": eventsDesc(clean), "errored": errored, "panic": panicked}
		ctx.Add(emit.App("CClean", emit.Str(rootPath), topt, eventsTerm(clean), emit.Bool(errored || panicked != "")), d, len(clean) >= 4)
		ctx.Count("op:" + call)
		ctx.Count(fmt.Sprintf("trace-length:%d0s", len(clean)/10))
		if !ok {
			continue
		}
		stride := 1
		if len(clean) > maxFaults {
			stride = len(clean)/maxFaults + 1
		}
		for k := 0; k < len(clean); k += stride {
			evs, errored, wrapped, panicked := sc.run(k)
			d := map[string]interface{}{"scenario": base, "fault_at": k, "failing_callback": eventsDesc(clean[k : k+1])[0],
				"trace": eventsDesc(evs), "errored": errored, "wraps_injected": wrapped, "panic": panicked}
			ctx.Add(emit.App("CFault", emit.Str(rootPath), treeTerm, emit.Nat(k), eventsTerm(evs), emit.Bool(errored), emit.Bool(wrapped)),
				d, len(clean) >= 4)
			ctx.Count("fault-on:" + clean[k].kind)
		}
	}
	return c12ChoiceFaults(ctx, r.Fork(31337))
}

// c12ChoiceFaults: upserts that switch choice cases (the old case is cleared through ClearField and
// nested Delete edits). Every callback position is failed once; the requirement on error surfacing
// (the call returns an error wrapping the injected one, nothing is written afterwards) is decided on
// the observed callbacks.
func c12ChoiceFaults(ctx *core.Ctx, r *gen.Rng) error {
	opts := tree.GenOpts{MaxDepth: 2, MaxKids: 3, Lists: true, Choices: true, ChoiceHeavy: true, KeyTypes: []string{"string", "int32"},
		Types: []string{"int32", "string", "boolean"}}
	nsc := ctx.Scale(10, 200)
	maxFaults := ctx.Scale(40, 200)
	for n := 0; n < nsc; n++ {
		yang, m, root, err := tree.GenSchema(r.Fork(uint64(n)), opts)
		if err != nil {
			return fmt.Errorf("schema: %v", err)
		}
		dr := r.Fork(uint64(500 + n))
		tgt := tree.GenData(dr, root, 80, 2)
		src := tree.GenDataAgainst(dr, root, 60, 2, tgt)
		sc := &c12Scenario{yang: yang, m: m, root: root, src: src, tgt: tgt, op: "Upsert", fromDir: dr.Bool()}
		clean, errored, _, panicked := sc.run(-1)
		if errored || panicked != "" || len(clean) == 0 {
			ctx.Count("choice-scenario-unusable")
			continue
		}
		clears := 0
		for _, e := range clean {
			if e.target && e.kind == "write" && (strings.Contains(e.detail, "clear") || strings.Contains(e.detail, "delete=true")) {
				clears++
			}
		}
		if clears == 0 {
			ctx.Count("choice-scenario:no-case-switch")
			continue
		}
		ctx.Count("choice-scenario:switches-a-case")
		base := map[string]interface{}{"yang": yang, "call": "Upsert (switching a choice case)", "source": src.Desc(root), "target": tgt.Desc(root)}
		stride := 1
		if len(clean) > maxFaults {
			stride = len(clean)/maxFaults + 1
		}
		for k := 0; k < len(clean); k += stride {
			evs, errored, wrapped, panicked := sc.run(k)
			outcome := 0
			switch {
			case panicked != "":
				outcome = 3
			case errored && wrapped:
				outcome = 1
			case errored:
				outcome = 2
			}
			fk := 0
			if strings.HasPrefix(clean[k].detail, "choose") {
				fk = 2
				if clean[k].target {
					fk = 1
				}
			}
			d := map[string]interface{}{"scenario": base, "fault_at": k, "failing_callback": eventsDesc(clean[k : k+1])[0],
				"trace": eventsDesc(evs), "errored": errored, "wraps_injected": wrapped, "panic": panicked}
			ctx.Add(emit.App("CFaultSpec", emit.Nat(fk), eventsTerm(evs), emit.Nat(outcome)), d, true)
			ctx.Count("choice-fault-on:" + clean[k].kind)
		}
	}
	return nil
}
