package props

// C13 request streams: every generator returns candidates tagged with the structural class of the
// mutation; c13Sample keeps a budgeted subset that covers every tag present.

import (
	"encoding/json"
	"encoding/xml"
	"fmt"
	"net/url"
	"sort"
	"strings"

	"github.com/freeconf/yang/val"

	"yvh/gen"
	"yvh/tree"
)

// ---- tags (ids are positions in this table: append only) ---------------------------------------------

var c13ShapeKinds = []string{"leaf", "leaflist", "cont", "list", "entry", "key"}
var c13ShapeVals = []string{"obj0", "obj1", "arr0", "arrnum", "arrobj", "arrnull", "num", "str", "bool", "null"}
var c13XmlVals = []string{"text", "elems", "empty", "repeated"}

var c13Tags = func() []string {
	t := []string{}
	for _, k := range c13ShapeKinds {
		for _, v := range c13ShapeVals {
			t = append(t, "json-shape/"+k+"/"+v)
		}
	}
	t = append(t, "json-valid", "json-nokey", "json-dupentry", "json-dupmember", "json-deep", "json-trunc", "json-tok",
		"json-unknown-member", "json-qualified", "json-insert", "json-update", "json-replace", "json-sub-cont", "json-sub-list")
	for _, k := range c13ShapeKinds {
		for _, v := range c13XmlVals {
			t = append(t, "xml-shape/"+k+"/"+v)
		}
	}
	t = append(t, "xml-valid", "xml-nokey", "xml-trunc", "xml-tok", "xml-deep", "xml-markup")
	t = append(t, "path-valid", "path-key-on-cont", "path-key-on-leaf", "path-key-on-leaflist", "path-below-leaf", "path-below-leaflist",
		"path-too-many-keys", "path-too-few-keys", "path-empty-key", "path-bad-escape", "path-empty-seg", "path-dotdot", "path-choice",
		"path-below-choice", "path-key-on-choice", "path-case", "path-prefix", "path-long", "path-charmut", "path-unknown",
		"path-slash-escape", "path-badkey", "path-query")
	t = append(t, "query-fields-valid", "query-fields-long", "query-fields-syntax", "query-xfields-valid", "query-xfields-long",
		"query-range-valid", "query-range-bad", "query-range-long", "query-depth", "query-content", "query-with-defaults",
		"query-max-node", "query-garbage", "query-charmut", "query-constrain", "query-combo")
	t = append(t, "xpath-where-valid", "xpath-where-unset", "xpath-where-unknown-op", "xpath-where-nonleaf", "xpath-where-bare",
		"xpath-where-unknown-name", "xpath-where-long", "xpath-where-type", "xpath-filter", "xpath-pred", "xpath-where-leaflist")
	t = append(t, "xparse-valid", "xparse-empty", "xparse-long", "xparse-tokens", "xparse-prefix", "xparse-charmut", "xparse-num",
		"xparse-literal", "xparse-space")
	for _, p := range c13SetPool() {
		t = append(t, "set-"+p.Name)
	}
	t = append(t, "set-on-nonleaf")
	t = append(t, "match-valid", "match-long", "match-base-deeper", "match-foreign-base", "match-syntax", "match-other")
	t = append(t, "rel-valid", "rel-up", "rel-query", "rel-up-query", "rel-up-query-other", "rel-no-parent", "rel-bad")
	t = append(t, "path-below-any", "path-below-action", "path-key-on-any", "path-key-on-action")
	for _, k := range []string{"json-at-list/", "json-insert-at-list/", "json-at-entry/"} {
		for _, v := range c13ShapeVals {
			t = append(t, k+v)
		}
	}
	return t
}()

var c13TagIndex = func() map[string]int {
	m := map[string]int{}
	for i, t := range c13Tags {
		m[t] = i
	}
	return m
}()

func c13TagID(tag string) int {
	id, ok := c13TagIndex[tag]
	if !ok {
		panic("c13: unregistered tag " + tag)
	}
	return id
}

// ---- positions -------------------------------------------------------------------------------------

type c13Pos struct {
	path   string   // URL path from the root
	names  []string // schema idents from the root
	s      *tree.SNode
	kind   string // root cont list row leaf leaflist
	c      *tree.Cont
	jpath  []interface{} // path in the JSON document (member names and row indexes)
	absent bool
}

func c13Join(a, b string) string {
	if a == "" {
		return b
	}
	return a + "/" + b
}

func c13Positions(w *c13World) []*c13Pos {
	var out []*c13Pos
	var walk func(s *tree.SNode, c *tree.Cont, path string, names []string, jp []interface{})
	ext := func(jp []interface{}, x ...interface{}) []interface{} {
		return append(append([]interface{}{}, jp...), x...)
	}
	walk = func(s *tree.SNode, c *tree.Cont, path string, names []string, jp []interface{}) {
		for _, kid := range s.Kids {
			kn := append(append([]string{}, names...), kid.Name)
			kp := c13Join(path, kid.Name)
			present := false
			switch kid.Kind {
			case tree.KLeaf:
				_, present = c.Leaves[kid.Name]
			case tree.KCont:
				_, present = c.Conts[kid.Name]
			case tree.KList:
				_, present = c.Lists[kid.Name]
			}
			if !present {
				if len(kid.Guard) == 0 {
					k := map[int]string{tree.KLeaf: "leaf", tree.KCont: "cont", tree.KList: "list"}[kid.Kind]
					if kid.IsList {
						k = "leaflist"
					}
					out = append(out, &c13Pos{path: kp, names: kn, s: kid, kind: k, c: c, jpath: ext(jp, kid.Name), absent: true})
				}
				continue
			}
			switch kid.Kind {
			case tree.KLeaf:
				k := "leaf"
				if kid.IsList {
					k = "leaflist"
				}
				out = append(out, &c13Pos{path: kp, names: kn, s: kid, kind: k, c: c, jpath: ext(jp, kid.Name)})
			case tree.KCont:
				out = append(out, &c13Pos{path: kp, names: kn, s: kid, kind: "cont", c: c.Conts[kid.Name], jpath: ext(jp, kid.Name)})
				walk(kid, c.Conts[kid.Name], kp, kn, ext(jp, kid.Name))
			case tree.KList:
				out = append(out, &c13Pos{path: kp, names: kn, s: kid, kind: "list", c: c, jpath: ext(jp, kid.Name)})
				for i, row := range c.Lists[kid.Name].Rows {
					var ks []string
					for _, ki := range kid.Keys {
						ks = append(ks, url.QueryEscape(row.Leaves[kid.Kids[ki].Name].String()))
					}
					rp := kp + "=" + strings.Join(ks, ",")
					out = append(out, &c13Pos{path: rp, names: kn, s: kid, kind: "row", c: row, jpath: ext(jp, kid.Name, i)})
					walk(kid, row, rp, kn, ext(jp, kid.Name, i))
				}
			}
		}
	}
	walk(w.Root, w.Data, "", nil, nil)
	return out
}

// ---- sampling --------------------------------------------------------------------------------------

func c13Sample(r *gen.Rng, cands []*c13Req, n int) []*c13Req {
	if len(cands) <= n {
		return cands
	}
	byTag := map[string][]*c13Req{}
	var tags []string
	for _, c := range cands {
		if _, ok := byTag[c.Tag]; !ok {
			tags = append(tags, c.Tag)
		}
		byTag[c.Tag] = append(byTag[c.Tag], c)
	}
	// random start so that, when there are more tags than budget, every tag is reached over the seeds
	start := r.Intn(len(tags))
	var out []*c13Req
	for len(out) < n {
		progress := false
		for k := 0; k < len(tags) && len(out) < n; k++ {
			t := tags[(start+k)%len(tags)]
			l := byTag[t]
			if len(l) == 0 {
				continue
			}
			i := r.Intn(len(l))
			out = append(out, l[i])
			l[i] = l[len(l)-1]
			byTag[t] = l[:len(l)-1]
			progress = true
		}
		if !progress {
			break
		}
	}
	return out
}

// ---- JSON ------------------------------------------------------------------------------------------

func c13ShapeValue(v string) interface{} {
	switch v {
	case "obj0":
		return map[string]interface{}{}
	case "obj1":
		return map[string]interface{}{"x": 1}
	case "arr0":
		return []interface{}{}
	case "arrnum":
		return []interface{}{1, 2}
	case "arrobj":
		return []interface{}{map[string]interface{}{}}
	case "arrnull":
		return []interface{}{nil}
	case "num":
		return 5
	case "str":
		return "s"
	case "bool":
		return true
	}
	return nil
}

func c13Decode(text string) map[string]interface{} {
	var doc map[string]interface{}
	if err := json.Unmarshal([]byte(text), &doc); err != nil {
		panic("c13: data JSON does not decode: " + err.Error())
	}
	return doc
}

// c13SetAt returns the encoded document with the value at jpath replaced (or removed when del)
func c13SetAt(text string, jpath []interface{}, v interface{}, del bool) string {
	doc := c13Decode(text)
	var cur interface{} = doc
	for i, step := range jpath {
		last := i == len(jpath)-1
		switch x := step.(type) {
		case string:
			m := cur.(map[string]interface{})
			if last {
				if del {
					delete(m, x)
				} else {
					m[x] = v
				}
			} else {
				cur = m[x]
			}
		case int:
			a := cur.([]interface{})
			if last {
				a[x] = v
			} else {
				cur = a[x]
			}
		}
	}
	b, _ := json.Marshal(doc)
	return string(b)
}

func c13GetAt(text string, jpath []interface{}) interface{} {
	var cur interface{} = c13Decode(text)
	for _, step := range jpath {
		switch x := step.(type) {
		case string:
			cur = cur.(map[string]interface{})[x]
		case int:
			cur = cur.([]interface{})[x]
		}
	}
	return cur
}

func c13JSONTokens(text string) [][2]int {
	var toks [][2]int
	for i := 0; i < len(text); {
		c := text[i]
		switch {
		case c == '"':
			j := i + 1
			for j < len(text) && text[j] != '"' {
				if text[j] == '\\' {
					j++
				}
				j++
			}
			toks = append(toks, [2]int{i, j + 1})
			i = j + 1
		case strings.ContainsRune("{}[],:", rune(c)):
			toks = append(toks, [2]int{i, i + 1})
			i++
		case c == ' ' || c == '\n' || c == '\t':
			i++
		default:
			j := i
			for j < len(text) && !strings.ContainsRune("{}[],: \n\t\"", rune(text[j])) {
				j++
			}
			toks = append(toks, [2]int{i, j})
			i = j
		}
	}
	return toks
}

var c13JSONRepl = []string{"{", "}", "[", "]", ",", ":", "null", "true", "1", "-1", "1e999", "1.5", "\"x\"", "\"\"", "{}", "[]", "[null]",
	"\"\\ud800\"", "01", "-", "\"\\x\"", "99999999999999999999999", "-0.0e-0"}

func c13JSON(r *gen.Rng, w *c13World, pos []*c13Pos) []*c13Req {
	var out []*c13Req
	add := func(tag, text, at string) {
		out = append(out, &c13Req{W: w.Idx, Kind: "json", Tag: tag, Text: text, At: at})
	}
	base := w.DataJSON
	add("json-valid", base, "")
	add("json-valid", "{}", "")
	add("json-valid", "null", "")
	for _, p := range pos {
		kind := p.kind
		if kind == "root" {
			continue
		}
		shapeKind := kind
		if kind == "row" {
			shapeKind = "entry"
		}
		for _, v := range c13ShapeVals {
			add("json-shape/"+shapeKind+"/"+v, c13SetAt(base, p.jpath, c13ShapeValue(v), false), "")
		}
		if kind == "row" {
			for _, ki := range p.s.Keys {
				kn := p.s.Kids[ki].Name
				kp := append(append([]interface{}{}, p.jpath...), kn)
				add("json-nokey", c13SetAt(base, kp, nil, true), "")
				for _, v := range c13ShapeVals {
					add("json-shape/key/"+v, c13SetAt(base, kp, c13ShapeValue(v), false), "")
				}
			}
		}
		if kind == "list" && !p.absent {
			rows, _ := c13GetAt(base, p.jpath).([]interface{})
			if len(rows) > 0 {
				add("json-dupentry", c13SetAt(base, p.jpath, append(append([]interface{}{}, rows...), rows[0]), false), "")
			}
			// the list itself as the target of the edit: the reader is asked for { name: [...] }
			for _, doc := range []string{`{"%s":{}}`, `{"%s":5}`, `{}`, `{"%s":[1]}`, `{"x":1,"%s":[]}`, `{"%s":null}`, `{"%s":[]}`, `{"%s":[null]}`, `{"%s":[[]]}`} {
				d := doc
				if strings.Contains(d, "%s") {
					d = fmt.Sprintf(doc, p.s.Name)
				}
				add("json-sub-list", d, p.path)
			}
		}
		if (kind == "cont" || kind == "row") && !p.absent {
			cur, _ := json.Marshal(c13GetAt(base, p.jpath))
			add("json-sub-cont", string(cur), p.path)
			for _, kid := range p.s.Kids {
				if len(kid.Guard) > 0 {
					continue
				}
				for _, v := range []string{"obj1", "arrnum", "num", "null"} {
					add("json-sub-cont", c13SetAt(string(cur), []interface{}{kid.Name}, c13ShapeValue(v), false), p.path)
				}
			}
		}
		if !p.absent && len(p.jpath) == 1 {
			cur, _ := json.Marshal(c13GetAt(base, p.jpath))
			add("json-dupmember", fmt.Sprintf(`{%q:%s,%s`, p.s.Name, cur, base[1:]), "")
			add("json-dupmember", fmt.Sprintf(`{%q:5,%s`, p.s.Name, base[1:]), "")
			add("json-dupmember", fmt.Sprintf(`%s,%q:{"x":[1]}}`, base[:len(base)-1], p.s.Name), "")
			doc := c13Decode(base)
			doc[w.M.Ident()+":"+p.s.Name] = doc[p.s.Name]
			delete(doc, p.s.Name)
			q, _ := json.Marshal(doc)
			add("json-qualified", string(q), "")
			doc["nosuch:"+p.s.Name] = 5
			q, _ = json.Marshal(doc)
			add("json-qualified", string(q), "")
		}
		if (kind == "cont" || kind == "leaflist" || kind == "leaf" || kind == "list") && len(p.jpath) == 1 {
			for _, depth := range []int{9000, 12000} {
				open, close := `{"`+p.s.Name+`":`, "}"
				if kind != "cont" {
					add("json-deep", `{"`+p.s.Name+`":`+strings.Repeat("[", depth)+strings.Repeat("]", depth)+"}", "")
					continue
				}
				add("json-deep", strings.Repeat(open, depth)+"{}"+strings.Repeat(close, depth), "")
			}
		}
	}
	// the shape mismatches through the other edit strategies
	for i := 0; i < 30 && len(pos) > 0; i++ {
		p := gen.Pick(r, pos)
		if p.kind == "root" {
			continue
		}
		v := gen.Pick(r, c13ShapeVals)
		add(gen.Pick(r, []string{"json-insert", "json-update", "json-replace"}), c13SetAt(base, p.jpath, c13ShapeValue(v), false), "")
	}
	doc := c13Decode(base)
	doc["zzz"] = map[string]interface{}{"a": []interface{}{1}}
	q, _ := json.Marshal(doc)
	add("json-unknown-member", string(q), "")
	for i := 0; i < 40; i++ {
		add("json-trunc", base[:r.Intn(len(base))], "")
	}
	toks := c13JSONTokens(base)
	for i := 0; i < 80 && len(toks) > 0; i++ {
		t := gen.Pick(r, toks)
		switch r.Intn(4) {
		case 0: // delete
			add("json-tok", base[:t[0]]+base[t[1]:], "")
		case 1: // duplicate
			add("json-tok", base[:t[1]]+base[t[0]:], "")
		default:
			add("json-tok", base[:t[0]]+gen.Pick(r, c13JSONRepl)+base[t[1]:], "")
		}
	}
	return out
}

// ---- XML -------------------------------------------------------------------------------------------

func c13XMLEsc(s string) string {
	var b strings.Builder
	xml.EscapeText(&b, []byte(s))
	return b.String()
}

func c13XMLScalar(v val.Value) string {
	switch x := v.(type) {
	case val.Enum:
		return c13XMLEsc(x.Label)
	case val.NotEmptyType:
		return ""
	}
	return c13XMLEsc(v.String())
}

// c13XML renders c; at mutate (a position's jpath rendered as a string) the element is replaced by alt
func c13XML(s *tree.SNode, c *tree.Cont, here string, mutate string, alt func(name string, orig string) string, b *strings.Builder) {
	for _, kid := range s.Kids {
		at := here + "/" + kid.Name
		var el strings.Builder
		switch kid.Kind {
		case tree.KLeaf:
			v, ok := c.Leaves[kid.Name]
			if !ok {
				continue
			}
			if l, isList := v.(val.Listable); isList && v.Format().IsList() {
				for i := 0; i < l.Len(); i++ {
					fmt.Fprintf(&el, "<%s>%s</%s>", kid.Name, c13XMLScalar(l.Item(i)), kid.Name)
				}
			} else {
				fmt.Fprintf(&el, "<%s>%s</%s>", kid.Name, c13XMLScalar(v), kid.Name)
			}
		case tree.KCont:
			sub, ok := c.Conts[kid.Name]
			if !ok {
				continue
			}
			fmt.Fprintf(&el, "<%s>", kid.Name)
			c13XML(kid, sub, at, mutate, alt, &el)
			fmt.Fprintf(&el, "</%s>", kid.Name)
		case tree.KList:
			l, ok := c.Lists[kid.Name]
			if !ok {
				continue
			}
			for i, row := range l.Rows {
				var re strings.Builder
				fmt.Fprintf(&re, "<%s>", kid.Name)
				c13XML(kid, row, fmt.Sprintf("%s/%d", at, i), mutate, alt, &re)
				fmt.Fprintf(&re, "</%s>", kid.Name)
				if mutate == fmt.Sprintf("%s/%d", at, i) {
					el.WriteString(alt(kid.Name, re.String()))
				} else {
					el.WriteString(re.String())
				}
			}
		}
		if mutate == at {
			b.WriteString(alt(kid.Name, el.String()))
		} else {
			b.WriteString(el.String())
		}
	}
}

func c13JPathStr(jp []interface{}) string {
	var b strings.Builder
	for _, s := range jp {
		fmt.Fprintf(&b, "/%v", s)
	}
	return b.String()
}

func c13XMLDoc(w *c13World, mutate string, alt func(name, orig string) string) string {
	var b strings.Builder
	fmt.Fprintf(&b, "<%s>", w.M.Ident())
	c13XML(w.Root, w.Data, "", mutate, alt, &b)
	fmt.Fprintf(&b, "</%s>", w.M.Ident())
	return b.String()
}

func c13XMLStream(r *gen.Rng, w *c13World, pos []*c13Pos, thorough bool) []*c13Req {
	var out []*c13Req
	add := func(tag, text string) { out = append(out, &c13Req{W: w.Idx, Kind: "xml", Tag: tag, Text: text}) }
	base := c13XMLDoc(w, "", nil)
	add("xml-valid", base)
	add("xml-valid", strings.Replace(base, "<"+w.M.Ident()+">", "<"+w.M.Ident()+` xmlns="urn:`+w.M.Ident()+`">`, 1))
	add("xml-valid", "<"+w.M.Ident()+"/>")
	for _, p := range pos {
		if p.absent || p.kind == "root" {
			continue
		}
		k := p.kind
		if k == "row" {
			k = "entry"
		}
		at := c13JPathStr(p.jpath)
		alts := map[string]func(name, orig string) string{
			"text":     func(n, o string) string { return "<" + n + ">5</" + n + ">" },
			"elems":    func(n, o string) string { return "<" + n + "><x>1</x><" + n + ">2</" + n + "></" + n + ">" },
			"empty":    func(n, o string) string { return "<" + n + "/>" },
			"repeated": func(n, o string) string { return o + o },
		}
		for _, v := range c13XmlVals {
			add("xml-shape/"+k+"/"+v, c13XMLDoc(w, at, alts[v]))
		}
		if p.kind == "row" {
			for _, ki := range p.s.Keys {
				kn := p.s.Kids[ki].Name
				add("xml-nokey", c13XMLDoc(w, at+"/"+kn, func(n, o string) string { return "" }))
				for _, v := range c13XmlVals {
					add("xml-shape/key/"+v, c13XMLDoc(w, at+"/"+kn, alts[v]))
				}
			}
		}
	}
	for i := 0; i < 30; i++ {
		add("xml-trunc", base[:r.Intn(len(base))])
	}
	repl := []string{"<", ">", "&", "&bogus;", "</", "/>", "<!--", "-->", "<![CDATA[", "]]>", "<?x ?>", "&#0;", "&#xFFFFFFFF;", "\x00", "\"", "<a:b>", " xmlns:a=\"u\" ", "="}
	for i := 0; i < 60; i++ {
		j := r.Intn(len(base))
		switch r.Intn(3) {
		case 0:
			add("xml-tok", base[:j]+base[j+1:])
		case 1:
			add("xml-tok", base[:j]+gen.Pick(r, repl)+base[j:])
		default:
			add("xml-tok", base[:j]+gen.Pick(r, repl)+base[j+1:])
		}
	}
	add("xml-markup", `<?xml version="1.0"?><!DOCTYPE m [<!ENTITY a "aaaa"><!ENTITY b "&a;&a;&a;&a;">]>`+base)
	add("xml-markup", "<"+w.M.Ident()+"><![CDATA["+base+"]]></"+w.M.Ident()+">")
	add("xml-markup", "<"+w.M.Ident()+` a="1" a="2">`+"</"+w.M.Ident()+">")
	add("xml-markup", "")
	add("xml-markup", "just text")
	depths := []int{500, 2000}
	if thorough {
		depths = append(depths, 5000)
	}
	for _, p := range pos {
		if p.kind == "cont" && len(p.jpath) == 1 {
			for _, d := range depths {
				n := p.s.Name
				add("xml-deep", "<"+w.M.Ident()+">"+strings.Repeat("<"+n+">", d)+strings.Repeat("</"+n+">", d)+"</"+w.M.Ident()+">")
			}
			break
		}
	}
	return out
}

// ---- paths -----------------------------------------------------------------------------------------

const c13MutChars = "/=,%:?.&;+ ()!'<>\x00\xff*~[]"

func c13CharMut(r *gen.Rng, s string, alphabet string) string {
	if len(s) == 0 {
		return string(alphabet[r.Intn(len(alphabet))])
	}
	j := r.Intn(len(s))
	switch r.Intn(3) {
	case 0:
		return s[:j] + s[j+1:]
	case 1:
		return s[:j] + string(alphabet[r.Intn(len(alphabet))]) + s[j:]
	}
	return s[:j] + string(alphabet[r.Intn(len(alphabet))]) + s[j+1:]
}

func c13Paths(r *gen.Rng, w *c13World, pos []*c13Pos) []*c13Req {
	var out []*c13Req
	add := func(tag, text string) { out = append(out, &c13Req{W: w.Idx, Kind: "path", Tag: tag, Text: text}) }
	add("path-valid", "")
	mod := w.M.Ident()
	for _, p := range pos {
		if p.absent {
			add("path-valid", p.path) // a declared node without data: nil selection or an error, never a crash
			continue
		}
		add("path-valid", p.path)
		add("path-valid", p.path+"/")
		parent := ""
		if i := strings.LastIndex(p.path, "/"); i >= 0 {
			parent = p.path[:i+1]
		}
		switch p.kind {
		case "cont":
			add("path-key-on-cont", p.path+"=1")
			add("path-key-on-cont", p.path+"=a,b/x")
			add("path-key-on-cont", p.path+"=")
		case "leaf":
			add("path-key-on-leaf", p.path+"=1")
			add("path-below-leaf", p.path+"/x")
			add("path-below-leaf", p.path+"/"+p.s.Name)
			add("path-below-leaf", p.path+"/x/y=1")
		case "leaflist":
			add("path-key-on-leaflist", p.path+"=1")
			add("path-below-leaflist", p.path+"/x")
			add("path-below-leaflist", p.path+"/0")
		case "list":
			add("path-too-few-keys", p.path+"/x")
			add("path-empty-key", p.path+"=")
			add("path-empty-key", p.path+"=,")
			add("path-badkey", p.path+"=zz,zz,zz")
			add("path-badkey", p.path+"=-1")
			add("path-badkey", p.path+"=99999999999999999999999")
			add("path-badkey", p.path+"=+5,1")
			add("path-too-many-keys", p.path+"=1,2,3,4,5,6,7,8")
		case "row":
			add("path-too-many-keys", p.path+",extra")
			add("path-too-many-keys", p.path+",1,2,3")
			if len(p.s.Keys) > 1 {
				add("path-too-few-keys", p.path[:strings.LastIndex(p.path, ",")])
			}
			add("path-bad-escape", p.path+"%")
			add("path-bad-escape", p.path+"%zz")
			add("path-bad-escape", p.path+"%2")
			add("path-slash-escape", p.path+"%2Fx")
		}
		add("path-bad-escape", parent+"%zz")
		add("path-bad-escape", parent+"%"+p.s.Name)
		add("path-bad-escape", parent+p.s.Name+"%4")
		add("path-slash-escape", parent+"..%2F"+p.s.Name)
		add("path-slash-escape", parent+"%2F"+p.s.Name)
		add("path-slash-escape", parent+p.s.Name+"%2Fx")
		add("path-empty-seg", parent+"/"+p.s.Name)
		add("path-empty-seg", "/"+p.path)
		add("path-empty-seg", "//")
		add("path-dotdot", "../"+p.path)
		add("path-dotdot", p.path+"/..")
		add("path-dotdot", p.path+"/../"+p.s.Name)
		add("path-dotdot", strings.Repeat("../", 1+r.Intn(4))+p.path)
		add("path-dotdot", "..")
		add("path-prefix", parent+mod+":"+p.s.Name)
		add("path-prefix", parent+"x:"+p.s.Name)
		add("path-prefix", parent+":"+p.s.Name)
		add("path-prefix", parent+p.s.Name+":")
		add("path-prefix", parent+mod+":"+mod+":"+p.s.Name)
		add("path-prefix", parent+"a:b:c")
		add("path-unknown", parent+"nosuch")
		add("path-unknown", parent+"nosuch=1/x")
		add("path-unknown", parent+strings.ToUpper(p.s.Name))
		add("path-charmut", c13CharMut(r, p.path, c13MutChars))
		add("path-charmut", c13CharMut(r, p.path, c13MutChars))
		add("path-query", p.path+"?")
		add("path-query", p.path+"?depth=1")
		add("path-query", "../"+p.path+"?depth=1")
		add("path-query", p.path+"?%zz")
		for gi, cs := range p.s.Cases {
			ch := p.s.Parent.Choices[p.s.Guard[gi][0]]
			add("path-choice", parent+ch.Ident())
			add("path-below-choice", parent+ch.Ident()+"/"+p.s.Name)
			add("path-below-choice", parent+ch.Ident()+"/"+cs.Ident()+"/"+p.s.Name)
			add("path-key-on-choice", parent+ch.Ident()+"=1")
			add("path-case", parent+cs.Ident())
			add("path-case", parent+cs.Ident()+"/"+p.s.Name)
		}
	}
	var visit func(s *tree.SNode, prefix string)
	visit = func(s *tree.SNode, prefix string) { // choices of nodes without data too
		for _, ch := range s.Choices {
			add("path-choice", c13Join(prefix, ch.Ident()))
			add("path-below-choice", c13Join(prefix, ch.Ident())+"/x")
			add("path-key-on-choice", c13Join(prefix, ch.Ident())+"=1,2")
		}
		for _, k := range s.Kids {
			if k.Kind == tree.KCont {
				visit(k, c13Join(prefix, k.Name))
			}
		}
	}
	visit(w.Root, "")
	add("path-long", strings.Repeat("a/", 5000)+"a")
	add("path-long", strings.Repeat("/", 5000))
	add("path-long", strings.Repeat("../", 3000))
	if len(pos) > 0 {
		add("path-long", pos[0].path+"="+strings.Repeat("1,", 5000))
	}
	return out
}

// ---- Find on a selection below the root: "../" steps and a query part ----------------------------------

// c13Levels: the URL paths (from the root) of the selections root.Find(path) builds, outermost first: the
// root, one per container / leaf step and two per step that carries a key (the list, then the entry)
func c13Levels(path string) []string {
	levels := []string{""}
	if path == "" {
		return levels
	}
	prefix := ""
	for _, seg := range strings.Split(path, "/") {
		if i := strings.Index(seg, "="); i >= 0 {
			levels = append(levels, c13Join(prefix, seg[:i]))
		}
		prefix = c13Join(prefix, seg)
		levels = append(levels, prefix)
	}
	return levels
}

// a query of exactly n bytes that names no parameter the library knows (letters that spell none of them)
func c13NeutralQuery(r *gen.Rng, n int) string {
	if n == 0 {
		return ""
	}
	kl := 1 + r.Intn(n)
	if kl == n-1 && r.Chance(1, 2) {
		kl = n // "key=" with an empty value is kept for half of these
	}
	b := make([]byte, 0, n)
	for i := 0; i < kl; i++ {
		b = append(b, "qzjkxQ_"[r.Intn(7)])
	}
	if kl < n {
		b = append(b, '=')
		for len(b) < n {
			b = append(b, "0123456789qz.-"[r.Intn(14)])
		}
	}
	return string(b)
}

var c13OtherQueries = []string{"depth=1", "depth=12", "depth=0", "depth=x", "depth=", "depth", "content=config", "content=all", "content=zz",
	"with-defaults=trim", "fc.max-node-count=5", "fc.max-node-count=0", "%zz", "%", "a=%", "a=%41", "&", "&&", "=", "==", "a&b", "a=1&b=2", "?", "#", "a#b",
	"a b", "a+b", "a;b", "a/b", "../", "a=../b", "fields=", "fields=x", "fc.xfields=x", "fc.range=!1", "fc.range=x!0-1", "where=", "where=a%3D1", "filter=x",
	"\x00", "\xff", "a=\x7f", ":", "a:b", "[", "a=é"}

// c13Rel: Find(text) on the selection at a position of the data. text = k "../" steps + a path relative to the
// selection they lead to (+ "?" + query). The stream is stratified, not sampled: every block of 36 requests has a
// "../" path with a query of every length 0..15, so that each short query length meets each small k over the
// worlds of one run.
func c13Rel(r *gen.Rng, w *c13World, pos []*c13Pos, n int) []*c13Req {
	var targets []*c13Pos
	for _, p := range pos {
		if !p.absent {
			targets = append(targets, p)
		}
	}
	if len(targets) == 0 {
		return nil
	}
	var out []*c13Req
	add := func(tag string, t *c13Pos, text string) {
		out = append(out, &c13Req{W: w.Idx, Kind: "path", Tag: tag, Text: text, At: t.path, AtNames: t.names, AtRow: t.kind == "row"})
	}
	depth := func(t *c13Pos) int { return len(c13Levels(t.path)) - 1 }
	// a target with at least k selections above it (k is lowered when the world has none that deep)
	pick := func(k int) (*c13Pos, int) {
		for ; k > 0; k-- {
			var deep []*c13Pos
			for _, t := range targets {
				if depth(t) >= k {
					deep = append(deep, t)
				}
			}
			if len(deep) > 0 {
				return gen.Pick(r, deep), k
			}
		}
		return gen.Pick(r, targets), 0
	}
	// a path relative to the selection k levels above t: mostly one that resolves (to t itself, a sibling, a node
	// below), sometimes empty, unknown or mutated
	tail := func(t *c13Pos, k int, valid bool) string {
		lv := c13Levels(t.path)
		anc := lv[len(lv)-1-k]
		var tails []string
		for _, q := range pos {
			if anc == "" {
				tails = append(tails, q.path)
			} else if strings.HasPrefix(q.path, anc+"/") {
				tails = append(tails, q.path[len(anc)+1:])
			} else if q.path == anc {
				for _, kid := range q.s.Kids { // the list selection itself: idents of its entries' kids resolve
					tails = append(tails, kid.Name)
				}
			}
		}
		if !valid {
			base := "nosuch"
			if len(tails) > 0 {
				base = gen.Pick(r, tails)
			}
			return gen.Pick(r, []string{"nosuch", base + "/nosuch", base + "=1", "%zz", c13CharMut(r, base, c13MutChars), base + "/../x", "..", "./" + base, "/" + base})
		}
		if len(tails) == 0 || r.Chance(1, 8) {
			return ""
		}
		return gen.Pick(r, tails)
	}
	ups := func(k int) string { return strings.Repeat("../", k) }
	for i := 0; len(out) < n; i++ {
		slot := i % 36
		switch {
		case slot < 16: // "../" steps and a query of exactly `slot` bytes naming no known parameter
			t, k := pick(gen.Pick(r, []int{1, 1, 2, 2, 3, 3, 4, 5}))
			add("rel-up-query", t, ups(k)+tail(t, k, true)+"?"+c13NeutralQuery(r, slot))
		case slot < 22:
			t, k := pick(gen.Pick(r, []int{1, 2, 3, 4}))
			add("rel-up-query-other", t, ups(k)+tail(t, k, !r.Chance(1, 5))+"?"+gen.Pick(r, c13OtherQueries))
		case slot < 26:
			t := gen.Pick(r, targets)
			q := c13NeutralQuery(r, r.Intn(12))
			if r.Chance(1, 2) {
				q = gen.Pick(r, c13OtherQueries)
			}
			add("rel-query", t, tail(t, 0, true)+"?"+q)
		case slot < 30:
			t, k := pick(1 + r.Intn(4))
			add("rel-up", t, ups(k)+tail(t, k, true))
		case slot < 31:
			t := gen.Pick(r, targets)
			add("rel-valid", t, tail(t, 0, true))
		case slot < 34: // more "../" steps than there are selections above the target
			t := gen.Pick(r, targets)
			k := depth(t) + 1 + r.Intn(2)
			text := ups(k) + gen.Pick(r, []string{"", "x", t.s.Name})
			if r.Chance(1, 2) {
				text += "?" + c13NeutralQuery(r, r.Intn(10))
			}
			add("rel-no-parent", t, text)
		default:
			t, k := pick(r.Intn(3))
			text := ups(k) + tail(t, k, false)
			if r.Chance(1, 2) {
				text += "?" + c13NeutralQuery(r, r.Intn(10))
			}
			add("rel-bad", t, text)
		}
	}
	return out
}

// ---- queries ---------------------------------------------------------------------------------------

func c13Queries(r *gen.Rng, w *c13World, pos []*c13Pos) []*c13Req {
	var out []*c13Req
	targets := []*c13Pos{{path: "", kind: "root", s: w.Root, c: w.Data}}
	for _, p := range pos {
		if !p.absent && (p.kind == "cont" || p.kind == "list" || p.kind == "row") {
			targets = append(targets, p)
		}
	}
	for _, t := range targets {
		t := t
		add := func(tag, text string) {
			out = append(out, &c13Req{W: w.Idx, Kind: "query", Tag: tag, Text: text, At: t.path})
			if r.Chance(1, 6) {
				out = append(out, &c13Req{W: w.Idx, Kind: "query", Tag: "query-constrain", Text: text, At: t.path})
			}
		}
		// field selectors relative to the target: every schema path below it
		var rel []string
		var walk func(s *tree.SNode, prefix string, depth int)
		walk = func(s *tree.SNode, prefix string, depth int) {
			for _, k := range s.Kids {
				p := c13Join(prefix, k.Name)
				rel = append(rel, p)
				if k.Kind != tree.KLeaf && depth < 4 {
					walk(k, p, depth+1)
				}
			}
		}
		walk(t.s, "", 0)
		sort.Strings(rel)
		for _, pname := range []string{"fields", "fc.xfields"} {
			short := map[string]string{"fields": "fields", "fc.xfields": "xfields"}[pname]
			for _, p := range rel {
				add("query-"+short+"-valid", pname+"="+p)
				add("query-"+short+"-long", pname+"="+p+"/x")
				add("query-"+short+"-long", pname+"="+p+"/a/b/c/d/e")
			}
			add("query-"+short+"-long", pname+"=a/b/c/d/e")
			add("query-"+short+"-long", pname+"="+strings.Repeat("a/", 200)+"a")
			add("query-"+short+"-valid", pname+"=")
		}
		for _, s := range []string{"(", ")", "(((", ")))", ";", ";;", "a(b;c", "a(b;c)/d", "a;b)c(", "(a;b)(c;d)(e;f)(g;h)", "a//b", "/", "a/(b;(c;d))/e",
			strings.Repeat("(a;b)", 12), strings.Repeat("(", 3000)} {
			add("query-fields-syntax", "fields="+url.QueryEscape(s))
			add("query-fields-syntax", "fc.xfields="+url.QueryEscape(s))
		}
		if len(rel) > 0 {
			p := gen.Pick(r, rel)
			for _, s := range []string{"!0-1", "!0", "!1-", "!0-0", "!5-2", "!0-99999999999"} {
				add("query-range-valid", "fc.range="+p+s)
			}
			for _, s := range []string{"", "!", "!-", "!-1", "!a-b", "!1-b", "!1-2-3", "!!1", "!99999999999999999999", "!1e3", "! 1", "!+1-+2", "!-0"} {
				add("query-range-bad", "fc.range="+p+url.QueryEscape(s))
			}
			add("query-range-long", "fc.range="+p+"/x/y/z!0-1")
			add("query-range-long", "fc.range=a/b/c/d/e/f!0-1")
			add("query-range-long", "fc.range=!0-1")
		}
		for _, v := range []string{"1", "2", "0", "-1", "x", "", "1.5", "99999999999999999999", "+3", " 3", "0x10", "1e2", "9223372036854775807", "-9223372036854775808"} {
			add("query-depth", "depth="+url.QueryEscape(v))
			add("query-max-node", "fc.max-node-count="+url.QueryEscape(v))
		}
		for _, v := range []string{"config", "nonconfig", "all", "", "zz", "CONFIG", "config,all", "\x00"} {
			add("query-content", "content="+url.QueryEscape(v))
		}
		for _, v := range []string{"trim", "explicit", "report-all", "report-all-tagged", "", "zz", "TRIM"} {
			add("query-with-defaults", "with-defaults="+url.QueryEscape(v))
		}
		for _, v := range []string{"%zz", "%", "a=%", "=", "==", "&&&", "a;b", "depth", "depth=1&depth=x", "fields", "where", "filter", "fc.range", "content&with-defaults",
			"fields=%zz", "\x00=\x00", strings.Repeat("a=1&", 3000), "?", "#", "depth=1#x"} {
			add("query-garbage", v)
		}
		valid := []string{"depth=2", "content=config", "with-defaults=trim", "fc.max-node-count=100"}
		if len(rel) > 0 {
			valid = append(valid, "fields="+rel[0], "fc.xfields="+rel[len(rel)-1], "fc.range="+rel[0]+"!0-2")
		}
		for i := 0; i < 6; i++ {
			add("query-charmut", c13CharMut(r, gen.Pick(r, valid), c13MutChars))
			add("query-combo", gen.Pick(r, valid)+"&"+gen.Pick(r, valid)+"&"+c13CharMut(r, gen.Pick(r, valid), c13MutChars))
		}
	}
	return out
}

// ---- XPath -----------------------------------------------------------------------------------------

func c13XPathTexts(r *gen.Rng, s *tree.SNode, c *tree.Cont, rows []*tree.Cont) (texts [][2]string) {
	add := func(tag, text string) { texts = append(texts, [2]string{tag, text}) }
	lit := func(kid *tree.SNode) string {
		if f := kid.Leafable().Type().Format(); f == val.FmtString || f == val.FmtEnum || f == val.FmtBool {
			return "'a'"
		}
		return "2"
	}
	for _, kid := range s.Kids {
		switch {
		case kid.Kind == tree.KLeaf && !kid.IsList:
			set := true
			for _, row := range rows {
				if _, ok := row.Leaves[kid.Name]; !ok {
					set = false
				}
			}
			if c != nil {
				_, set = c.Leaves[kid.Name]
			}
			for _, op := range []string{"=", "!=", "<", ">", "<=", ">="} {
				tag := "xpath-where-valid"
				if !set {
					tag = "xpath-where-unset"
				}
				add(tag, kid.Name+op+lit(kid))
			}
			add("xpath-where-type", kid.Name+"='zz'")
			add("xpath-where-type", kid.Name+"=99999999999999999999")
			add("xpath-where-type", kid.Name+"=1.5")
			add("xpath-where-type", kid.Name+">'zz'")
			add("xpath-where-type", kid.Name+"<1.5")
			for _, op := range []string{"~", "==", "=>", "<>", "!", "<<", "+", "-", "*", "|", " and ", " or ", "[", "]", "(", ")", "@", "$", ",", "!<"} {
				add("xpath-where-unknown-op", kid.Name+op+"2")
			}
			add("xpath-where-bare", kid.Name)
			add("xpath-where-bare", kid.Name+"/")
			add("xpath-where-bare", kid.Name+"/x")
			add("xpath-where-bare", kid.Name+"/x=1")
			add("xpath-where-bare", kid.Name+"=1/x")
			add("xpath-where-bare", kid.Name+"=1/"+kid.Name+"=1")
		case kid.Kind == tree.KLeaf:
			add("xpath-where-leaflist", kid.Name)
			add("xpath-where-leaflist", kid.Name+"=1")
			add("xpath-where-leaflist", kid.Name+">1")
			add("xpath-where-leaflist", kid.Name+"='a'")
			add("xpath-where-leaflist", kid.Name+"<'a'")
		default:
			add("xpath-where-nonleaf", kid.Name)
			add("xpath-where-nonleaf", kid.Name+"/")
			add("xpath-where-nonleaf", kid.Name+"=1")
			add("xpath-where-nonleaf", kid.Name+">'a'")
			add("xpath-where-nonleaf", kid.Name+"/"+kid.Name)
			add("xpath-where-nonleaf", kid.Name+"/nosuch=1")
			for _, sub := range kid.Kids {
				if sub.Kind == tree.KLeaf && !sub.IsList {
					add("xpath-where-nonleaf", kid.Name+"/"+sub.Name+"="+lit(sub))
					add("xpath-where-nonleaf", kid.Name+"/"+sub.Name+">"+lit(sub))
					add("xpath-where-nonleaf", kid.Name+"/"+sub.Name)
				} else {
					add("xpath-where-nonleaf", kid.Name+"/"+sub.Name)
					add("xpath-where-nonleaf", kid.Name+"/"+sub.Name+"/x=1")
				}
			}
		}
	}
	for _, ch := range s.Choices {
		add("xpath-where-nonleaf", ch.Ident())
		add("xpath-where-nonleaf", ch.Ident()+"=1")
		add("xpath-where-nonleaf", ch.Ident()+"/x=1")
	}
	add("xpath-where-unknown-name", "nosuch=1")
	add("xpath-where-unknown-name", "nosuch")
	add("xpath-where-unknown-name", "../x=1")
	add("xpath-where-unknown-name", "/x=1")
	add("xpath-where-unknown-name", "x:y=1")
	add("xpath-where-unknown-name", ".=1")
	add("xpath-where-unknown-name", "..")
	add("xpath-where-long", strings.Repeat("a/", 299)+"a")
	add("xpath-where-long", strings.Repeat("a/", 254)+"a")
	add("xpath-where-long", strings.Repeat("a/", 255)+"a")
	add("xpath-where-long", strings.Repeat("a/", 256)+"a")
	add("xpath-where-long", strings.Repeat("a=1 ", 300))
	add("xpath-where-long", "")
	return
}

func c13XPaths(r *gen.Rng, w *c13World, pos []*c13Pos) []*c13Req {
	var out []*c13Req
	for _, p := range pos {
		if p.absent {
			continue
		}
		switch p.kind {
		case "list":
			for _, t := range c13XPathTexts(r, p.s, nil, p.c.Lists[p.s.Name].Rows) {
				out = append(out, &c13Req{W: w.Idx, Kind: "xpath", Tag: t[0], Text: t[1], At: p.path})
			}
		case "cont", "row":
			for _, t := range c13XPathTexts(r, p.s, p.c, nil) {
				if r.Chance(1, 2) {
					out = append(out, &c13Req{W: w.Idx, Kind: "xpath", Tag: "xpath-pred", Text: t[1], At: p.path})
				}
			}
		}
	}
	for _, t := range c13XPathTexts(r, w.Root, w.Data, nil) {
		out = append(out, &c13Req{W: w.Idx, Kind: "xpath", Tag: "xpath-filter", Text: t[1]})
	}
	return out
}

const c13XPathChars = "/=:!<>' .-_a1\t()[]|*@\"\\,~\x00"

func c13XParse(r *gen.Rng, w *c13World, pos []*c13Pos) []*c13Req {
	var out []*c13Req
	add := func(tag, text string) { out = append(out, &c13Req{W: w.Idx, Kind: "xparse", Tag: tag, Text: text}) }
	valid := []string{"a", "a/b", "a/b/c=1", "a='x'", "a!='x y'", "a<=10", "a>=1.5", "a<2", "a>2", "a/b='q'/c", "a=1/b=2", "a-b_c.d/e=3", "a/"}
	for _, v := range valid {
		add("xparse-valid", v)
		for i := 0; i < 3; i++ {
			add("xparse-charmut", c13CharMut(r, v, c13XPathChars))
			add("xparse-charmut", c13CharMut(r, c13CharMut(r, v, c13XPathChars), c13XPathChars))
		}
		add("xparse-space", " "+v)
		add("xparse-space", v+" ")
		add("xparse-space", strings.ReplaceAll(v, "/", " / "))
		add("xparse-space", strings.ReplaceAll(v, "=", " = "))
	}
	for _, v := range []string{"", " ", "\t\n", "/", "//", "=", "=1", "'a'", "1", ":", "a:", ":a", "!", "<", ">=", "a=", "a==1", "a=1=2"} {
		add("xparse-empty", v)
	}
	for _, n := range []int{1, 2, 63, 64, 65, 100, 255, 256, 257, 300, 1000} {
		add("xparse-long", strings.Repeat("a/", n-1)+"a")
		add("xparse-long", strings.Repeat("a/", n))
		add("xparse-long", strings.Repeat("a=1/", n))
		add("xparse-tokens", strings.Repeat("a=1 ", n))
		add("xparse-tokens", strings.Repeat("a ", n))
		add("xparse-tokens", strings.Repeat("a<='x' ", n))
	}
	for _, v := range []string{"a:b", "a:b=1", "m:a", "a:b:c", "a/b:c/d", w.M.Ident() + ":x=1"} {
		add("xparse-prefix", v)
	}
	for _, v := range []string{"a=1", "a=01", "a=1.", "a=1.5", "a=1.2.3", "a=1..2", "a=.5", "a=99999999999999999999", "a=9223372036854775807", "a=9223372036854775808",
		"a=" + strings.Repeat("9", 400), "a=" + strings.Repeat("9", 400) + ".0", "a=-1", "a=+1", "a=1e5", "a=1a", "a=0x1", "a=1 2", "a=1/2", "a=٣"} {
		add("xparse-num", v)
	}
	for _, v := range []string{"a='x'", "a=''", "a='", "a='x", "a='x''", "a='x'y'", "a='x' 'y'", "a=\"x\"", "a='\x00'", "a='/'/b", "a='" + strings.Repeat("x", 2000) + "'", "a=' x '", "a= 'x'", "a='é'"} {
		add("xparse-literal", v)
	}
	return out
}

// ---- SetValue, match -------------------------------------------------------------------------------

func c13Sets(r *gen.Rng, w *c13World, pos []*c13Pos) []*c13Req {
	var out []*c13Req
	pool := c13SetPool()
	for _, p := range pos {
		if p.absent {
			continue
		}
		if p.kind == "leaf" || p.kind == "leaflist" {
			for i, pv := range pool {
				out = append(out, &c13Req{W: w.Idx, Kind: "set", Tag: "set-" + pv.Name, At: p.path, Val: i, Text: p.s.Leafable().Type().Ident()})
			}
		} else if p.kind != "list" {
			out = append(out, &c13Req{W: w.Idx, Kind: "set", Tag: "set-on-nonleaf", At: p.path, Val: r.Intn(len(pool))})
		}
	}
	return out
}

func c13Matches(r *gen.Rng, w *c13World, pos []*c13Pos) []*c13Req {
	var out []*c13Req
	add := func(tag, sel string, base, cand []string) {
		out = append(out, &c13Req{W: w.Idx, Kind: "match", Tag: tag, Sel: sel, Base: base, Cand: cand, Text: sel})
	}
	for _, p := range pos {
		cand := p.names
		for bl := 0; bl <= len(cand); bl++ {
			base := cand[:bl]
			rel := cand[bl:]
			for k := 0; k <= len(rel); k++ {
				add("match-valid", strings.Join(rel[:k], "/"), base, cand)
			}
			add("match-long", strings.Join(append(append([]string{}, rel...), "x"), "/"), base, cand)
			add("match-long", strings.Join(append(append([]string{}, rel...), "a", "b", "c", "d", "e"), "/"), base, cand)
			add("match-long", "a/b/c/d/e/f/g/h", base, cand)
			if len(rel) > 0 {
				add("match-other", "x/"+strings.Join(rel[1:], "/"), base, cand)
				add("match-other", rel[len(rel)-1], base, cand)
				add("match-other", strings.Join(rel, "//")+"/", base, cand)
			}
			for _, s := range []string{"(", ")", ";", "a(b;c", "(a;b)(c;d)", strings.Join(rel, "/") + "(x;y)", "(" + strings.Join(rel, ";") + ")"} {
				add("match-syntax", s, base, cand)
			}
		}
		// base deeper than the candidate, base in another branch
		for i := 0; i < 2; i++ {
			q := gen.Pick(r, pos)
			sel := gen.Pick(r, []string{"", "x", strings.Join(cand, "/"), strings.Join(q.names, "/"), "a/b/c"})
			if len(q.names) > len(cand) {
				add("match-base-deeper", sel, q.names, cand)
			} else {
				add("match-foreign-base", sel, q.names, cand)
			}
		}
		add("match-base-deeper", "x", append(append([]string{}, cand...), cand...), cand)
	}
	return out
}

// ---- all streams of one world ------------------------------------------------------------------------

// ---- list segments with fewer / exactly / more key values than the list has keys, on every backend ------

var c13Impls = []string{"", "json", "reflect"}

// c13Keys: for every list of the world (with or without data) and every entry, the segment "list=v1,..,vm" for
// m = 1 .. keys+2 (the first values are those of the entry when there is one), alone, followed by a child, by an
// unknown child and by a query; each on the reference store, on the JSON reader and on reflection
func c13Keys(r *gen.Rng, w *c13World, pos []*c13Pos) []*c13Req {
	var out []*c13Req
	extras := []string{"zz", "7", "%20", "", "-1"}
	for _, p := range pos {
		if p.kind != "list" && p.kind != "row" {
			continue
		}
		n := len(p.s.Keys)
		base := p.path
		var vals []string
		if p.kind == "row" {
			eq := strings.LastIndex(p.path, "=")
			base = p.path[:eq]
			vals = strings.Split(p.path[eq+1:], ",")
		} else {
			for i := 0; i < n; i++ {
				vals = append(vals, "1")
			}
		}
		vals = append(vals, extras[r.Intn(len(extras))], extras[r.Intn(len(extras))])
		kid := "x"
		for i, k := range p.s.Kids {
			isKey := false
			for _, ki := range p.s.Keys {
				isKey = isKey || ki == i
			}
			if !isKey && len(k.Guard) == 0 {
				kid = k.Name
				break
			}
		}
		for m := 1; m <= n+2; m++ {
			tag := "path-valid"
			if m < n {
				tag = "path-too-few-keys"
			} else if m > n {
				tag = "path-too-many-keys"
			}
			seg := base + "=" + strings.Join(vals[:m], ",")
			for _, suffix := range []string{"", "/" + kid, "/nosuch", "?depth=1", "/" + kid + "?fields=" + kid} {
				if m == n+2 && suffix != "" {
					continue
				}
				for _, impl := range c13Impls {
					out = append(out, &c13Req{W: w.Idx, Kind: "path", Tag: tag, Text: seg + suffix, Impl: impl})
				}
			}
		}
	}
	return out
}

// c13Below: every node that holds no definitions (leaf, leaf-list, choice, anydata, anyxml, action, rpc) at every
// position that has data (and at the root), with further segments after it and with a key on it; the node itself is
// never the last segment (the reference store does not know anydata and actions)
func c13Below(r *gen.Rng, w *c13World, pos []*c13Pos) []*c13Req {
	var out []*c13Req
	probe := func(kind, t string) {
		texts := []string{t + "/x", t + "/x/y", t + "/x/y=1,2", t + "/" + t[strings.LastIndex(t, "/")+1:], t + "/x?depth=1", t + "/input/x", t + "/x/"}
		for _, text := range texts {
			for _, impl := range c13Impls {
				out = append(out, &c13Req{W: w.Idx, Kind: "path", Tag: "path-below-" + kind, Text: text, Impl: impl})
			}
		}
		for _, text := range []string{t + "=1/x", t + "=1,2/x?depth=1"} {
			for _, impl := range c13Impls {
				out = append(out, &c13Req{W: w.Idx, Kind: "path", Tag: "path-key-on-" + kind, Text: text, Impl: impl})
			}
		}
	}
	at := func(s *tree.SNode, path string) {
		names, kinds := c13Terminals(s)
		for i := range names {
			probe(kinds[i], c13Join(path, names[i]))
		}
		for _, ch := range s.Choices {
			probe("choice", c13Join(path, ch.Ident()))
		}
		for _, k := range s.Kids {
			if k.Kind == tree.KLeaf {
				kind := "leaf"
				if k.IsList {
					kind = "leaflist"
				}
				probe(kind, c13Join(path, k.Name))
			}
		}
	}
	at(w.Root, "")
	for _, p := range pos {
		if !p.absent && (p.kind == "cont" || p.kind == "row") {
			at(p.s, p.path)
		}
	}
	return out
}

// c13AtList: edits that start at a list selection (body { list : v }) and at a list entry (body v) with every JSON
// kind in the place of the array / the entry object
func c13AtList(r *gen.Rng, w *c13World, pos []*c13Pos) []*c13Req {
	var out []*c13Req
	for _, p := range pos {
		if p.absent {
			continue
		}
		for _, v := range c13ShapeVals {
			body, _ := json.Marshal(c13ShapeValue(v))
			switch p.kind {
			case "list":
				doc := fmt.Sprintf(`{%q:%s}`, p.s.Name, body)
				out = append(out, &c13Req{W: w.Idx, Kind: "json", Tag: "json-at-list/" + v, Text: doc, At: p.path},
					&c13Req{W: w.Idx, Kind: "json", Tag: "json-insert-at-list/" + v, Text: doc, At: p.path})
			case "row":
				out = append(out, &c13Req{W: w.Idx, Kind: "json", Tag: "json-at-entry/" + v, Text: string(body), At: p.path})
			}
		}
	}
	return out
}

func c13Streams(r *gen.Rng, w *c13World, budget int, thorough bool) []*c13Req {
	pos := c13Positions(w)
	share := func(pct int) int { return budget * pct / 100 }
	var out []*c13Req
	if w.Keys {
		// the fixed world of multi-key lists and of nodes without definitions: only the streams that never name an
		// anydata / action as the last segment
		out = append(out, c13Sample(r.Fork(21), c13Keys(r.Fork(31), w, pos), share(40))...)
		out = append(out, c13Sample(r.Fork(22), c13Below(r.Fork(32), w, pos), share(40))...)
		out = append(out, c13Sample(r.Fork(23), c13AtList(r.Fork(33), w, pos), share(20))...)
		return out
	}
	out = append(out, c13Sample(r.Fork(21), c13Keys(r.Fork(31), w, pos), share(8))...)
	out = append(out, c13Sample(r.Fork(22), c13Below(r.Fork(32), w, pos), share(6))...)
	out = append(out, c13Sample(r.Fork(23), c13AtList(r.Fork(33), w, pos), share(6))...)
	if w.Idx == 0 {
		out = append(out, c13Confirmed()...)
	}
	out = append(out, c13Sample(r.Fork(1), c13JSON(r.Fork(11), w, pos), share(30))...)
	out = append(out, c13Sample(r.Fork(2), c13XMLStream(r.Fork(12), w, pos, thorough), share(10))...)
	out = append(out, c13Sample(r.Fork(3), c13Paths(r.Fork(13), w, pos), share(17))...)
	out = append(out, c13Sample(r.Fork(4), c13Queries(r.Fork(14), w, pos), share(13))...)
	out = append(out, c13Sample(r.Fork(5), c13XPaths(r.Fork(15), w, pos), share(10))...)
	out = append(out, c13Sample(r.Fork(6), c13XParse(r.Fork(16), w, pos), share(8))...)
	out = append(out, c13Sample(r.Fork(7), c13Sets(r.Fork(17), w, pos), share(5))...)
	out = append(out, c13Sample(r.Fork(8), c13Matches(r.Fork(18), w, pos), share(7))...)
	out = append(out, c13Rel(r.Fork(19), w, pos, share(11))...) // on top of the 100 % of the sampled streams
	return out
}

// c13Confirmed: the crashes DESIGN.md lists as confirmed at the pinned commit, on the fixed world
func c13Confirmed() []*c13Req {
	j := func(tag, text string) *c13Req { return &c13Req{W: 0, Kind: "json", Tag: tag, Text: text} }
	p := func(tag, text string) *c13Req { return &c13Req{W: 0, Kind: "path", Tag: tag, Text: text} }
	q := func(tag, text, at string) *c13Req { return &c13Req{W: 0, Kind: "query", Tag: tag, Text: text, At: at} }
	return []*c13Req{
		p("path-key-on-cont", "c=1"), p("path-below-leaf", "top/x"), p("path-below-leaf", "c/z/x"),
		p("path-key-on-leaf", "top=1"), p("path-key-on-leaflist", "c/ll=1"),
		j("json-shape/cont/arrnum", `{"c":[1,2]}`), j("json-shape/cont/num", `{"c":5}`), j("json-shape/cont/null", `{"c":null}`),
		j("json-shape/list/obj1", `{"c":{"q":{"k":"a"}}}`), j("json-shape/list/null", `{"c":{"q":null}}`),
		j("json-shape/entry/num", `{"c":{"q":[1]}}`), j("json-shape/entry/null", `{"c":{"q":[null]}}`),
		j("json-nokey", `{"c":{"q":[{"v":1}]}}`), j("json-shape/key/null", `{"c":{"q":[{"k":null}]}}`),
		j("json-nokey", `{"l2":[{"a":1}]}`),
		j("json-shape/leaf/obj1", `{"c":{"z":{"a":1}}}`), j("json-shape/leaflist/num", `{"c":{"ll":5}}`),
		q("query-fields-long", "fields=a/b/c/d/e", ""), q("query-xfields-long", "fc.xfields=a/b/c/d/e", ""),
		q("query-fields-long", "fields=c/q", "c"), q("query-xfields-long", "fc.xfields=a/c/x", ""),
		q("query-range-long", "fc.range=c/q/x/y/z!1-2", ""),
		{W: 0, Kind: "xpath", Tag: "xpath-where-unset", Text: "v>2", At: "c/q"},
		{W: 0, Kind: "xpath", Tag: "xpath-where-unknown-op", Text: "v~2", At: "c/q"},
		{W: 0, Kind: "xpath", Tag: "xpath-where-nonleaf", Text: "in", At: "c/q"},
		{W: 0, Kind: "xpath", Tag: "xpath-where-long", Text: strings.Repeat("a/", 299) + "a", At: "c/q"},
		{W: 0, Kind: "xparse", Tag: "xparse-long", Text: strings.Repeat("a/", 299) + "a"},
		{W: 0, Kind: "xparse", Tag: "xparse-empty", Text: ""},
		{W: 0, Kind: "match", Tag: "match-long", Sel: "a/b/c/d/e", Text: "a/b/c/d/e", Base: nil, Cand: []string{"c", "z"}},
	}
}
