package props

import (
	"fmt"
	"strings"

	"github.com/freeconf/yang/meta"
	"github.com/freeconf/yang/node"
	"github.com/freeconf/yang/nodeutil"
	"github.com/freeconf/yang/parser"

	"yvh/core"
	"yvh/emit"
	"yvh/gen"
	"yvh/tree"
)

// ---- stream "reflect-target": upsert histories on the Reflect map node (nodeutil.ReflectChild) ----
//
// Schemas of this stream are built around choices nested in cases: a case is a sequence of data
// definitions and nested choices in any order (the nested choice first, in the middle, last, several
// of them, up to three levels deep), explicit and shorthand cases, case names whose sorted order is
// not their declaration order, the same again inside containers and list entries.  Histories fill a
// case in several steps (so that part of its data is reachable only through a nested choice and
// part of it directly), switch the nested case alone, switch the outer case, and switch back.
// Per step the harness records what the Go maps hold (fromGo, no library call), what a read through
// the target's own case detection reports, and what Choose itself answers for every choice of the
// root container, nested ones included.

type nestGen struct {
	r      *gen.Rng
	next   int
	budget int // data definitions still allowed in the container being generated
}

func (g *nestGen) id(prefix string) string {
	g.next++
	return fmt.Sprintf("%s%d", prefix, g.next)
}

var nestTypes = []string{"int32", "int64", "uint8", "string", "boolean", "decimal64 { fraction-digits 2; }"}

func (g *nestGen) leaf(b *strings.Builder, ind string) {
	typ := gen.Pick(g.r, nestTypes)
	kind := "leaf"
	if g.r.Chance(1, 8) {
		kind = "leaf-list"
	}
	semi := ";"
	if strings.HasSuffix(typ, "}") {
		semi = ""
	}
	fmt.Fprintf(b, "%s%s %s { type %s%s", ind, kind, g.id("l"), typ, semi)
	if kind == "leaf" && g.r.Chance(1, 4) {
		fmt.Fprintf(b, " default %q;", defaultFor(g.r, typ))
	}
	b.WriteString(" }\n")
	g.budget--
}

// defaultFor mirrors tree's private helper for the types of this stream
func defaultFor(r *gen.Rng, typ string) string {
	switch {
	case strings.HasPrefix(typ, "int"), strings.HasPrefix(typ, "uint"):
		return fmt.Sprintf("%d", 1+r.Intn(100))
	case typ == "string":
		return gen.Pick(r, []string{"dflt", "x y", "z"})
	case typ == "boolean":
		return gen.Pick(r, []string{"true", "false"})
	}
	return gen.Pick(r, []string{"1.5", "2.25", "0.5"})
}

// defs writes n definitions of a container-like node or of a case.  depth: containers/lists above,
// nest: choices above (within the enclosing container)
func (g *nestGen) defs(b *strings.Builder, ind string, depth, nest, n int, inCase bool) {
	for i := 0; i < n; i++ {
		roll := g.r.Intn(100)
		pChoice := 30
		if inCase {
			pChoice = 45
		}
		switch {
		case roll < pChoice && nest < 3 && g.budget > 2:
			g.choice(b, ind, depth, nest)
		case roll < pChoice+10 && depth < 1 && g.budget > 0:
			g.budget--
			save := g.budget
			g.budget = 4
			fmt.Fprintf(b, "%scontainer %s {\n", ind, g.id("c"))
			g.defs(b, ind+"  ", depth+1, 1, 1+g.r.Intn(2), false)
			fmt.Fprintf(b, "%s}\n", ind)
			g.budget = save
		case roll < pChoice+18 && depth < 1 && g.budget > 0:
			g.budget--
			save := g.budget
			g.budget = 4
			key := g.id("k")
			fmt.Fprintf(b, "%slist %s {\n%s  key \"%s\";\n%s  leaf %s { type string; }\n", ind, g.id("q"), ind, key, ind, key)
			g.defs(b, ind+"  ", depth+1, 1, 1+g.r.Intn(2), false)
			fmt.Fprintf(b, "%s}\n", ind)
			g.budget = save
		default:
			g.leaf(b, ind)
		}
	}
}

func (g *nestGen) choice(b *strings.Builder, ind string, depth, nest int) {
	fmt.Fprintf(b, "%schoice %s {\n", ind, g.id("h"))
	nc := 2 + g.r.Intn(2)
	for k := 0; k < nc; k++ {
		if g.r.Chance(1, 5) {
			// shorthand case: one data definition directly under the choice
			g.defs(b, ind+"  ", depth, 3, 1, true)
			continue
		}
		// the letter makes the order of the case names differ from the order of declaration
		fmt.Fprintf(b, "%s  case s%c%s {\n", ind, 'a'+rune(g.r.Intn(26)), g.id(""))
		g.defs(b, ind+"    ", depth, nest+1, 1+g.r.Intn(3), true)
		fmt.Fprintf(b, "%s  }\n", ind)
	}
	fmt.Fprintf(b, "%s}\n", ind)
}

// nestSchema generates a module whose root container holds choices nested in cases
func nestSchema(r *gen.Rng) (string, *meta.Module, *tree.SNode, error) {
	g := &nestGen{r: r, budget: 9}
	var b strings.Builder
	b.WriteString("module m {\n  namespace \"urn:m\";\n  prefix m;\n  revision 2020-01-01;\n")
	if r.Chance(1, 2) {
		g.leaf(&b, "  ")
	}
	g.choice(&b, "  ", 0, 0)
	g.defs(&b, "  ", 0, 0, r.Intn(3), false)
	b.WriteString("}\n")
	m, err := parser.LoadModuleFromString(nil, b.String())
	if err != nil {
		return b.String(), nil, nil, err
	}
	return b.String(), m, tree.Root(m), nil
}

// nestedBeforeSibling reports whether some case of the root holds a nested choice followed, in the
// same case, by a data definition (the nested choice is not the last statement of its case)
func nestedChoiceShapes(root *tree.SNode) (nested, nestedFirst bool) {
	var walk func(defs []meta.Definition, inCase bool)
	walk = func(defs []meta.Definition, inCase bool) {
		for i, d := range defs {
			ch, ok := d.(*meta.Choice)
			if !ok {
				continue
			}
			if inCase {
				nested = true
				if i == 0 && len(defs) > 1 {
					nestedFirst = true
				}
			}
			for _, ident := range ch.CaseIdents() {
				walk(ch.Cases()[ident].DataDefinitions(), true)
			}
		}
	}
	walk(root.Def.(meta.HasDataDefinitions).DataDefinitions(), false)
	return
}

// hierTerm is the hierarchy of the definitions of container-like s as a Gallina `list cdef`
// (Tree/ReflectChoose.v): data definitions by their position among the flat kids of s, choices by
// their number in s, cases in the order of CaseIdents() - the traversal of tree.SNode.flatten,
// re-done here on the meta objects and cross-checked against the flat view
func hierTerm(s *tree.SNode) (string, error) {
	pos, nchoice := 0, 0
	var bad error
	var defs func(ds []meta.Definition) string
	defs = func(ds []meta.Definition) string {
		var items []string
		for _, d := range ds {
			switch x := d.(type) {
			case *meta.Choice:
				id := nchoice
				nchoice++
				if id >= len(s.Choices) || s.Choices[id] != x {
					bad = fmt.Errorf("hierTerm: choice %s is not choice %d of the flat view", x.Ident(), id)
				}
				var cases []string
				for _, ident := range x.CaseIdents() {
					cases = append(cases, defs(x.Cases()[ident].DataDefinitions()))
				}
				items = append(items, emit.App("CC", emit.Nat(id), emit.List(cases)))
			case *meta.Leaf, *meta.LeafList, *meta.Container, *meta.List:
				if pos >= len(s.Kids) || s.Kids[pos].Def != d {
					bad = fmt.Errorf("hierTerm: definition %s is not flat kid %d", d.Ident(), pos)
				}
				items = append(items, emit.App("CD", emit.Nat(pos)))
				pos++
			}
		}
		return emit.List(items)
	}
	t := defs(s.Def.(meta.HasDataDefinitions).DataDefinitions())
	if bad == nil && (pos != len(s.Kids) || nchoice != len(s.Choices)) {
		bad = fmt.Errorf("hierTerm: %d definitions / %d choices walked, flat view has %d / %d", pos, nchoice, len(s.Kids), len(s.Choices))
	}
	return t, bad
}

// heldCases: per choice of s the lowest case index that has data in c, -1 none
func heldCases(s *tree.SNode, c *tree.Cont) []int {
	held := make([]int, len(s.Choices))
	for i := range held {
		held[i] = -1
	}
	if c == nil {
		return held
	}
	for _, kid := range s.Kids {
		if hasKid(c, kid) {
			for _, g := range kid.Guard {
				if held[g[0]] < 0 || g[1] < held[g[0]] {
					held[g[0]] = g[1]
				}
			}
		}
	}
	return held
}

// genToward generates content conforming to s for an upsert into tgt: per choice that tgt has
// selected it stays on the selected case with probability stay/100 (adding to it, or switching a
// choice nested in it) and otherwise moves to another case; existing list entries are addressed by
// their keys
func genToward(r *gen.Rng, s *tree.SNode, density, maxRows, stay int, tgt *tree.Cont) *tree.Cont {
	c := tree.NewCont()
	held := heldCases(s, tgt)
	chosen := make([]int, len(s.Choices))
	for i, ch := range s.Choices {
		n := len(ch.CaseIdents())
		chosen[i] = -1
		if !r.Chance(density, 100) {
			continue
		}
		switch {
		case held[i] >= 0 && r.Chance(stay, 100):
			chosen[i] = held[i]
		case held[i] >= 0 && n > 1:
			chosen[i] = (held[i] + 1 + r.Intn(n-1)) % n
		default:
			chosen[i] = r.Intn(n)
		}
	}
	isKey := map[string]bool{}
	for _, k := range s.Keys {
		isKey[s.Kids[k].Name] = true
	}
	for _, kid := range s.Kids {
		ok := true
		for _, g := range kid.Guard {
			if chosen[g[0]] != g[1] {
				ok = false
			}
		}
		if !ok || isKey[kid.Name] || !r.Chance(density, 100) {
			continue
		}
		switch kid.Kind {
		case tree.KLeaf:
			c.Leaves[kid.Name] = tree.GenValue(r, kid.Leafable())
		case tree.KCont:
			var sub *tree.Cont
			if tgt != nil {
				sub = tgt.Conts[kid.Name]
			}
			c.Conts[kid.Name] = genToward(r, kid, density, maxRows, stay, sub)
		case tree.KList:
			l := &tree.List{}
			seen := map[string]bool{}
			add := func(row *tree.Cont, from *tree.Cont) {
				var ks []string
				for _, k := range kid.Keys {
					name := kid.Kids[k].Name
					v := tree.GenValue(r, kid.Kids[k].Leafable())
					if from != nil && from.Leaves[name] != nil {
						v = from.Leaves[name]
					}
					row.Leaves[name] = v
					ks = append(ks, v.String())
				}
				if id := strings.Join(ks, "\x00"); !seen[id] {
					seen[id] = true
					l.Rows = append(l.Rows, row)
				}
			}
			if tgt != nil && tgt.Lists[kid.Name] != nil {
				for _, tr := range tgt.Lists[kid.Name].Rows {
					if r.Chance(2, 3) {
						add(genToward(r, kid, density, maxRows, stay, tr), tr)
					}
				}
			}
			for i := r.Intn(maxRows + 1); i > 0; i-- {
				add(genToward(r, kid, density, maxRows, stay, nil), nil)
			}
			for i := len(l.Rows) - 1; i > 0; i-- {
				j := r.Intn(i + 1)
				l.Rows[i], l.Rows[j] = l.Rows[j], l.Rows[i]
			}
			c.Lists[kid.Name] = l
		}
	}
	return c
}

// throughNestedOnly reports whether, in c, some selected case of a root choice holds data that is
// reachable only through a choice nested in it, or through a nested choice standing before the
// first held data definition of the case
func throughNested(s *tree.SNode, c *tree.Cont) (only, first bool) {
	var walk func(defs []meta.Definition) (any bool)
	heldDef := func(d meta.Definition) bool {
		for _, kid := range s.Kids {
			if kid.Def == d {
				return hasKid(c, kid)
			}
		}
		return false
	}
	walk = func(defs []meta.Definition) bool {
		any := false
		for _, d := range defs {
			ch, ok := d.(*meta.Choice)
			if !ok {
				any = any || heldDef(d)
				continue
			}
			for _, ident := range ch.CaseIdents() {
				cd := ch.Cases()[ident].DataDefinitions()
				direct, nestedHeld, seenDirect := false, false, false
				for _, x := range cd {
					if nc, isChoice := x.(*meta.Choice); isChoice {
						if walk([]meta.Definition{nc}) {
							nestedHeld = true
							if !seenDirect {
								first = true
							}
						}
						continue
					}
					if heldDef(x) {
						direct, seenDirect = true, true
					}
				}
				if nestedHeld && !direct {
					only = true
				}
				any = any || direct || nestedHeld
			}
		}
		return any
	}
	walk(s.Def.(meta.HasDataDefinitions).DataDefinitions())
	return
}

// chooseAnswers asks the target's node which case of every choice of the root container is
// selected: `list (nat * ans)`
func chooseAnswers(root *tree.SNode, sel *node.Selection) (term, desc string, err error) {
	var items, descs []string
	for id, ch := range root.Choices {
		var kase *meta.ChoiceCase
		cerr, panicked := guard(func() error {
			var e error
			kase, e = sel.Node.Choose(sel, ch)
			return e
		})
		if cerr != nil || panicked != "" {
			return "", "", fmt.Errorf("Choose(%s) failed: %v %s", ch.Ident(), cerr, panicked)
		}
		a, d := "ANone", "none"
		if kase != nil {
			a, d = "AForeign", fmt.Sprintf("case %s, which is no case of this choice", kase.Ident())
			for k, ident := range ch.CaseIdents() {
				if ch.Cases()[ident] == kase {
					a, d = emit.App("ACase", emit.Nat(k)), "case "+ident
				}
			}
		}
		items = append(items, emit.Pair(emit.Nat(id), a))
		descs = append(descs, ch.Ident()+": "+d)
	}
	return emit.List(items), strings.Join(descs, "; "), nil
}

func c09ReflectTargets(ctx *core.Ctx, r *gen.Rng, count int) error {
	made := 0
	for n := 0; made < count && n < count*40; n++ {
		yang, m, root, err := nestSchema(r.Fork(uint64(n)))
		if err != nil {
			return fmt.Errorf("generated schema does not load: %v\n%s", err, yang)
		}
		nested, nestedFirst := nestedChoiceShapes(root)
		if !nested {
			continue
		}
		made++
		ctx.Count("reflect-target:schema with a choice nested in a case")
		if nestedFirst {
			ctx.Count("reflect-target:schema where a nested choice is the first statement of a case with more statements")
		}
		hier, err := hierTerm(root)
		if err != nil {
			return fmt.Errorf("%v\n%s", err, yang)
		}
		dr := r.Fork(uint64(13000 + n))
		init := tree.GenData(dr, root, 50, 2)
		obj := goMap(root, init)
		b := node.NewBrowser(m, nodeutil.ReflectChild(obj))
		steps := 3 + dr.Intn(3)
		for k := 0; k < steps; k++ {
			before, err := fromGo(root, obj)
			if err != nil {
				return fmt.Errorf("c09 reflect-target: %v\n%s", err, yang)
			}
			stay := gen.Pick(dr, []int{0, 60, 60, 95})
			src := genToward(dr, root, 45+dr.Intn(50), 2, stay, before)
			fromDir := dr.Bool()
			callErr, panicked := guard(func() error {
				if fromDir {
					return b.Root().UpsertFrom(src.Node(root, nil, ""))
				}
				return node.NewBrowser(m, src.Node(root, nil, "")).Root().UpsertInto(nodeutil.ReflectChild(obj))
			})
			var obs, obsDesc string
			cont := true
			switch {
			case panicked != "":
				obs, obsDesc, cont = "RObsPanic", "panic: "+panicked, false
			case callErr != nil:
				obs, obsDesc, cont = emit.App("RObsErr", errClass(callErr)), errClass(callErr)+": "+callErr.Error(), false
			default:
				raw, err := fromGo(root, obj)
				if err != nil {
					obs, obsDesc, cont = "RObsPanic", "the target's maps are not shaped like the schema: "+err.Error(), false
					break
				}
				read := tree.NewCont()
				rerr, rp := guard(func() error { return b.Root().UpsertInto(read.Node(root, nil, "")) })
				if rerr != nil || rp != "" {
					obs, obsDesc, cont = "RObsPanic", fmt.Sprintf("reading the target back failed: %v %s", rerr, rp), false
					break
				}
				ans, ansDesc, aerr := chooseAnswers(root, b.Root())
				if aerr != nil {
					obs, obsDesc, cont = "RObsPanic", aerr.Error(), false
					break
				}
				obs = emit.App("RObsOk", raw.ContentTerm(root), read.ContentTerm(root), ans)
				obsDesc = "holds " + raw.Desc(root) + " ; a read reports " + read.Desc(root) + " ; Choose answers " + ansDesc
				only, first := throughNested(root, raw)
				if only {
					ctx.Count("reflect-target:after the step a selected case holds data through a nested choice only")
				}
				if first {
					ctx.Count("reflect-target:after the step a nested choice with data stands before the directly held nodes of its case")
				}
				bc, ac := heldCases(root, before), heldCases(root, raw)
				for i := range bc {
					if bc[i] >= 0 && ac[i] >= 0 && bc[i] != ac[i] {
						ctx.Count("reflect-target:step switches a case at the root")
						break
					}
				}
			}
			dir := "UpsertInto"
			if fromDir {
				dir = "UpsertFrom"
			}
			ctx.Add(emit.App("CRefl", hier, root.KidsTerm(), src.ContentTerm(root), before.ContentTerm(root), obs),
				map[string]interface{}{"yang": yang, "target": "nodeutil.ReflectChild over Go maps (map[string]interface{}; initial lists are slices of maps)",
					"call": dir + " at the root", "source": src.Desc(root), "target_before": before.Desc(root), "observed": obsDesc}, src.Size() > 0)
			ctx.Count("stream:reflect-target")
			ctx.Count("call:" + dir)
			if !cont {
				ctx.Count("reflect-target:history stopped (error or panic)")
				break
			}
		}
	}
	return nil
}
