package props

// C14, structured cycle streams: import graphs (every edge optionally pinned with a revision-date
// that does / does not match a revision of the imported module; texts stored under another name
// than they declare; missing texts; self imports) and grouping graphs (uses cycles that close at any
// depth below container, list, choice/case, action input/output and notification).  The structures
// are emitted next to the text; coq/theories/Load/Model.v renders them again and the check compares
// (CImports / CUses of Check/C14Check.v).  Third stream: statements in the wrong kind of module
// (belongs-to in a module, namespace/prefix in a submodule, ...), plain CLoad cases.

import (
	"fmt"
	"sort"
	"strconv"
	"strings"
	"time"

	"yvh/emit"
	"yvh/gen"
)

// ---- import graphs ----------------------------------------------------------------------------

type c14Imp struct {
	T   int // imported module name m<T>
	Pin int // revision-date 200<Pin>-01-01; -1: none
}

type c14IFile struct {
	Decl    int
	Revs    []int
	Imports []c14Imp
}

type c14IGraph struct {
	Main  c14IFile
	Files []struct {
		K int
		F c14IFile
	}
}

func c14Date(r int) string { return fmt.Sprintf("200%d-01-01", r) }

// render: byte for byte what render_ifile of Load/Model.v produces
func (f c14IFile) render() string {
	var sb strings.Builder
	fmt.Fprintf(&sb, "module m%d { namespace \"urn:m%d\"; prefix m%d; ", f.Decl, f.Decl, f.Decl)
	for j, i := range f.Imports {
		fmt.Fprintf(&sb, "import m%d { prefix p%d; ", i.T, j)
		if i.Pin >= 0 {
			fmt.Fprintf(&sb, "revision-date %s; ", c14Date(i.Pin))
		}
		sb.WriteString("} ")
	}
	for _, r := range f.Revs {
		fmt.Fprintf(&sb, "revision %s; ", c14Date(r))
	}
	sb.WriteString("typedef t { type string; } ")
	for j := range f.Imports {
		fmt.Fprintf(&sb, "leaf l%d { type p%d:t; } ", j, j)
	}
	sb.WriteString("}")
	return sb.String()
}

func (f c14IFile) term() string {
	revs := make([]string, len(f.Revs))
	for i, r := range f.Revs {
		revs[i] = emit.Nat(r)
	}
	imps := make([]string, len(f.Imports))
	for i, im := range f.Imports {
		pin := "None"
		if im.Pin >= 0 {
			pin = emit.Some(emit.Nat(im.Pin))
		}
		imps[i] = emit.Pair(emit.Nat(im.T), pin)
	}
	return emit.App("mkIfile", emit.Nat(f.Decl), emit.List(revs), emit.List(imps))
}

func (g *c14IGraph) add(k int, f c14IFile) {
	g.Files = append(g.Files, struct {
		K int
		F c14IFile
	}{k, f})
}

func (g *c14IGraph) term() string {
	fs := make([]string, len(g.Files))
	for i, kf := range g.Files {
		fs[i] = emit.Pair(emit.Nat(kf.K), kf.F.term())
	}
	return emit.App("mkIgraph", g.Main.term(), emit.List(fs))
}

// runOpens: like run, for a request with an opener fuse; also returns the names the opener was asked for
func (rn *c14Runner) runOpens(text string, files map[string]c14File, fuse, stackMB int) (string, []string) {
	req := c14Req{Text: b64(text), Files: map[string]c14File{}, Fuse: fuse, Stack: stackMB}
	for k, f := range files {
		req.Files[k] = c14File{Kind: f.Kind, Text: b64(f.Text)}
	}
	line := c14Line(req)
	resp, status := rn.w.Call(line, 2*time.Second)
	if status == "timeout" {
		rn.ctx.Count("worker:timeout-retried")
		resp, status = rn.w.Call(line, 6*time.Second)
	}
	if status != "ok" {
		return status, nil
	}
	var opens []string
	if i := strings.Index(resp, " opens="); i >= 0 {
		if resp[i+7:] != "" {
			opens = strings.Split(resp[i+7:], ",")
		}
		resp = resp[:i]
	}
	return resp, opens
}

// the pin policies of one import edge, relative to the revisions of the imported text
const (
	c14PinNone       = iota
	c14PinFirst      // the first revision statement of the target (its current revision)
	c14PinOlder      // a later entry of the target's revision history
	c14PinUndeclared // a date the target does not list
	c14PinAny        // per edge at random
)

var c14PinNames = []string{"no revision-date", "revision-date = first revision", "revision-date = older revision", "revision-date not declared", "mixed revision-dates"}

func c14PinFor(r *gen.Rng, policy int, revs []int) int {
	if policy == c14PinAny {
		policy = r.Intn(4)
	}
	switch policy {
	case c14PinFirst:
		if len(revs) > 0 {
			return revs[0]
		}
		return 9
	case c14PinOlder:
		if len(revs) > 1 {
			return revs[1+r.Intn(len(revs)-1)]
		}
		return 9
	case c14PinUndeclared:
		return 9 // generated revisions are 0..8
	}
	return -1
}

func c14Revs(r *gen.Rng, atLeast int) []int {
	n := atLeast + r.Intn(3)
	if n > 4 {
		n = 4
	}
	// newest first, distinct
	var revs []int
	next := 8 - r.Intn(3)
	for i := 0; i < n && next >= 0; i++ {
		revs = append(revs, next)
		next -= 1 + r.Intn(2)
	}
	return revs
}

// c14Ring: modules that import each other in a ring of n (n = 1: self import), every ring edge
// under the given pin policy. start = 0: the ring is m0..m(n-1) and contains the main text m0;
// start = 1: the ring is m1..mn and the main text m0 imports m1 (a cycle the main text is not part
// of). extra: additional random edges; misnamed: one text other than the main one declares another
// name than it is stored under; missing: one text is absent from the opener
func c14Ring(r *gen.Rng, n, start, policy int, extra, misnamed, missing bool) *c14IGraph {
	total := start + n
	files := make([]c14IFile, total)
	for i := range files {
		min := 0
		if policy == c14PinOlder {
			min = 2
		} else if policy == c14PinFirst {
			min = 1
		}
		files[i] = c14IFile{Decl: i, Revs: c14Revs(r, min)}
	}
	edge := func(i, t, policy int) {
		if len(files[i].Imports) < 4 {
			files[i].Imports = append(files[i].Imports, c14Imp{T: t, Pin: c14PinFor(r, policy, files[t].Revs)})
		}
	}
	if start == 1 {
		edge(0, 1, policy)
	}
	for i := start; i < total; i++ {
		t := i + 1
		if t == total {
			t = start
		}
		edge(i, t, policy)
	}
	if extra {
		for k := r.Intn(3) + 1; k > 0; k-- {
			edge(r.Intn(total), r.Intn(total), c14PinAny)
		}
	}
	g := &c14IGraph{}
	miss := -1
	if missing && total > 1 {
		miss = 1 + r.Intn(total-1)
	}
	if misnamed && total > 1 {
		mis := 1 + r.Intn(total-1)
		// the text stored as m<mis> declares a name nobody else has, or the name of another module
		if r.Chance(2, 3) {
			files[mis].Decl = total + r.Intn(2)
		} else {
			files[mis].Decl = r.Intn(total)
		}
	}
	for i, f := range files {
		if i == miss {
			continue
		}
		g.add(i, f)
	}
	g.Main = files[0]
	return g
}

func c14ImportCase(rn *c14Runner, g *c14IGraph, note string) string {
	text := g.Main.render()
	files := map[string]c14File{}
	fts := make([]string, len(g.Files))
	fd := map[string]string{}
	targets := map[int]bool{}
	for _, im := range g.Main.Imports {
		targets[im.T] = true
	}
	for i, kf := range g.Files {
		t := kf.F.render()
		name := fmt.Sprintf("m%d", kf.K)
		files[name] = c14File{Kind: "text", Text: t}
		fd[name] = t
		fts[i] = emit.Pair(emit.Nat(kf.K), emit.Str(t))
		for _, im := range kf.F.Imports {
			targets[im.T] = true
		}
	}
	fuse := 2*len(targets) + 4
	o, opens := rn.runOpens(text, files, fuse, 8)
	on := make([]string, 0, len(opens))
	for _, nm := range opens {
		k, err := strconv.Atoi(strings.TrimPrefix(nm, "m"))
		if err != nil || !strings.HasPrefix(nm, "m") {
			k = 99
		}
		on = append(on, emit.Nat(k))
	}
	term := emit.App("CImports", g.term(), emit.Str(text), emit.List(fts), emit.Nat(fuse), emit.List(on), c14ObsTerm(o))
	rn.ctx.Add(term, map[string]interface{}{"kind": "import-graph", "stream": "import-graph", "text": text, "opener": fd,
		"opener_fuse": fuse, "opener_requests": opens, "observed": o, "note": note}, true)
	rn.ctx.Count("stream:import-graph")
	rn.ctx.Count("observed:" + c14Class(o))
	rn.ctx.Count(fmt.Sprintf("import-graph:opens=%d", len(opens)))
	return o
}

func c14IsCrash(o string) bool { return o == "fatal" || o == "timeout" }

func c14ImportGraphs(rn *c14Runner, r *gen.Rng) {
	crashes := 0
	run := func(g *c14IGraph, note string) {
		if crashes >= 4 {
			rn.ctx.Count("import-graph:skipped-after-4-crashes")
			return
		}
		if c14IsCrash(c14ImportCase(rn, g, note)) {
			crashes++
		}
	}
	// systematic: where the ring is x ring length x pin policy, every edge under the same policy
	for start := 0; start <= 1; start++ {
		for n := 1; n <= 3-start; n++ {
			for policy := c14PinNone; policy <= c14PinUndeclared; policy++ {
				run(c14Ring(r, n, start, policy, false, false, false), fmt.Sprintf("%s, %s", c14RingWords(n, start), c14PinNames[policy]))
			}
		}
	}
	// systematic: a text stored under another name than it declares, in a ring
	for _, c := range [][2]int{{1, 1}, {2, 1}, {2, 0}, {3, 0}} {
		run(c14Ring(r, c[0], c[1], r.Intn(4), false, true, false), fmt.Sprintf("%s, one text under another name", c14RingWords(c[0], c[1])))
	}
	// random: longer rings, extra edges, mixed pins, texts under another name, missing texts
	for i := rn.ctx.Scale(16, 150); i > 0; i-- {
		start := r.Intn(2)
		n := 1 + r.Intn(5-start)
		policy := r.Intn(5)
		extra, misnamed, missing := r.Chance(1, 2), r.Chance(1, 3), r.Chance(1, 5)
		note := fmt.Sprintf("%s, %s", c14RingWords(n, start), c14PinNames[policy])
		if extra {
			note += ", extra edges"
		}
		if misnamed {
			note += ", one text under another name"
		}
		if missing {
			note += ", one text missing"
		}
		run(c14Ring(r, n, start, policy, extra, misnamed, missing), note)
	}
}

func c14RingWords(n, start int) string {
	if start == 0 {
		return fmt.Sprintf("ring of %d with the main text", n)
	}
	return fmt.Sprintf("ring of %d imported by the main text", n)
}

// ---- grouping graphs --------------------------------------------------------------------------

const (
	c14KContainer = iota
	c14KList
	c14KChoice
	c14KActIn
	c14KActOut
	c14KNotif
)

var c14KNames = []string{"KContainer", "KList", "KChoice", "KActIn", "KActOut", "KNotif"}
var c14KWords = []string{"container", "list", "choice/case", "action input", "action output", "notification"}

type c14UItem struct {
	Kind int // -1 leaf, -2 uses, else box kind
	T    int
	Body []c14UItem
}

func c14Leaf() c14UItem                       { return c14UItem{Kind: -1} }
func c14Uses(t int) c14UItem                  { return c14UItem{Kind: -2, T: t} }
func c14Box(k int, body ...c14UItem) c14UItem { return c14UItem{Kind: k, Body: body} }
func c14Digits(path []int) string {
	var sb strings.Builder
	for _, p := range path {
		sb.WriteString(strconv.Itoa(p))
	}
	return sb.String()
}

// render: byte for byte what render_item of Load/Model.v produces
func (it c14UItem) render(sb *strings.Builder, tag string, path []int) {
	name := func(letter string) string { return letter + tag + "x" + c14Digits(path) }
	switch it.Kind {
	case -1:
		sb.WriteString("leaf " + name("l") + " { type string; } ")
		return
	case -2:
		fmt.Fprintf(sb, "uses g%d; ", it.T)
		return
	}
	inner := func() {
		for pos, c := range it.Body {
			c.render(sb, tag, append(append([]int{}, path...), pos))
		}
	}
	switch it.Kind {
	case c14KContainer:
		sb.WriteString("container " + name("c") + " { ")
		inner()
		sb.WriteString("} ")
	case c14KList:
		sb.WriteString("list " + name("t") + " { key k; leaf k { type string; } ")
		inner()
		sb.WriteString("} ")
	case c14KChoice:
		sb.WriteString("choice " + name("h") + " { case a { ")
		inner()
		sb.WriteString("} } ")
	case c14KActIn:
		sb.WriteString("action " + name("a") + " { input { ")
		inner()
		sb.WriteString("} } ")
	case c14KActOut:
		sb.WriteString("action " + name("a") + " { output { ")
		inner()
		sb.WriteString("} } ")
	case c14KNotif:
		sb.WriteString("notification " + name("n") + " { ")
		inner()
		sb.WriteString("} ")
	}
}

func (it c14UItem) term() string {
	switch it.Kind {
	case -1:
		return "ULeaf"
	case -2:
		return emit.App("UUses", emit.Nat(it.T))
	}
	return emit.App("UBox", c14KNames[it.Kind], c14UBodyTerm(it.Body))
}

func c14UBodyTerm(b []c14UItem) string {
	items := make([]string, len(b))
	for i, c := range b {
		items[i] = c.term()
	}
	return emit.List(items)
}

type c14UGraph struct {
	Groupings [][]c14UItem
	Root      []c14UItem
}

func (g *c14UGraph) render() string {
	var sb strings.Builder
	sb.WriteString("module u { namespace \"urn:u\"; prefix u; ")
	for i, b := range g.Groupings {
		fmt.Fprintf(&sb, "grouping g%d { ", i)
		for pos, it := range b {
			it.render(&sb, fmt.Sprintf("g%d", i), []int{pos})
		}
		sb.WriteString("} ")
	}
	for pos, it := range g.Root {
		it.render(&sb, "r", []int{pos})
	}
	sb.WriteString("}")
	return sb.String()
}

func (g *c14UGraph) term() string {
	gs := make([]string, len(g.Groupings))
	for i, b := range g.Groupings {
		gs[i] = c14UBodyTerm(b)
	}
	return emit.App("mkUgraph", emit.List(gs), c14UBodyTerm(g.Root))
}

// c14Wrap puts an item below the boxes of path (outermost first); every box also gets a leaf
func c14Wrap(path []int, it c14UItem) c14UItem {
	for i := len(path) - 1; i >= 0; i-- {
		it = c14Box(path[i], c14Leaf(), it)
	}
	return it
}

// c14UPath: a random chain of box kinds that the grammar and the builder accept (actions and
// notifications only directly in a grouping, container or list)
func c14UPath(r *gen.Rng, n int) []int {
	var path []int
	mayAct := true
	for i := 0; i < n; i++ {
		var k int
		if mayAct && r.Chance(1, 2) {
			k = c14KActIn + r.Intn(3)
		} else {
			k = r.Intn(3)
		}
		path = append(path, k)
		mayAct = k == c14KContainer || k == c14KList
	}
	return path
}

func c14PathWords(path []int) string {
	if len(path) == 0 {
		return "directly"
	}
	w := make([]string, len(path))
	for i, k := range path {
		w[i] = c14KWords[k]
	}
	return "below " + strings.Join(w, " > ")
}

func c14UsesCase(rn *c14Runner, g *c14UGraph, note string) string {
	text := g.render()
	o, _ := rn.runOpens(text, nil, 0, 8)
	rn.ctx.Add(emit.App("CUses", g.term(), emit.Str(text), c14ObsTerm(o)),
		map[string]interface{}{"kind": "grouping-graph", "stream": "grouping-graph", "text": text, "observed": o, "note": note}, true)
	rn.ctx.Count("stream:grouping-graph")
	rn.ctx.Count("observed:" + c14Class(o))
	return o
}

func c14GroupingGraphs(rn *c14Runner, r *gen.Rng) {
	crashes := 0
	run := func(g *c14UGraph, note string) {
		if crashes >= 4 {
			rn.ctx.Count("grouping-graph:skipped-after-4-crashes")
			return
		}
		if c14IsCrash(c14UsesCase(rn, g, note)) {
			crashes++
		}
	}
	rootFor := func(k int) []c14UItem {
		switch k {
		case 0:
			return []c14UItem{c14Box(c14KContainer, c14Uses(0))}
		case 1:
			return []c14UItem{c14Box(c14KList, c14Uses(0))}
		case 2:
			return []c14UItem{c14Leaf(), c14Uses(0)}
		}
		return []c14UItem{c14Box(c14KContainer, c14Leaf(), c14Box(c14KList, c14Uses(0)))}
	}
	// systematic: a cycle of 1 or 2 groupings, every edge of it below the same chain (first box kind x
	// second box kind); each grouping has a leaf of its own
	for n := 1; n <= 2; n++ {
		for first := c14KContainer; first <= c14KNotif; first++ {
			for _, second := range []int{-1, c14KContainer, c14KList} {
				if n == 2 && second == -1 {
					continue
				}
				path := []int{first}
				if second >= 0 {
					path = append(path, second)
				}
				g := &c14UGraph{Root: rootFor(r.Intn(2))}
				for i := 0; i < n; i++ {
					g.Groupings = append(g.Groupings, []c14UItem{c14Leaf(), c14Wrap(path, c14Uses((i+1)%n))})
				}
				run(g, fmt.Sprintf("cycle of %d grouping(s), each uses the next %s", n, c14PathWords(path)))
			}
		}
	}
	// random: 1..4 groupings in a ring, every edge below its own random chain (length 0..3), extra
	// forward edges, extra leaves; every grouping keeps a data node of its own (no bare cycle)
	for i := rn.ctx.Scale(24, 250); i > 0; i-- {
		n := 1 + r.Intn(4)
		g := &c14UGraph{Root: rootFor(r.Intn(4))}
		var words []string
		for k := 0; k < n; k++ {
			path := c14UPath(r, r.Intn(4))
			body := []c14UItem{c14Leaf(), c14Wrap(path, c14Uses((k+1)%n))}
			words = append(words, fmt.Sprintf("g%d uses g%d %s", k, (k+1)%n, c14PathWords(path)))
			if k+1 < n && r.Chance(1, 3) {
				body = append(body, c14Wrap(c14UPath(r, 1+r.Intn(2)), c14Uses(k+1+r.Intn(n-k-1))))
			}
			if r.Chance(1, 3) {
				body = append(body, c14Box(c14KActIn+r.Intn(3), c14Leaf()))
			}
			g.Groupings = append(g.Groupings, body)
		}
		run(g, strings.Join(words, "; "))
	}
	// known finding 2: a reachable cycle of direct uses between groupings without data nodes never
	// returns. One shape per run in the quick tier (each costs the full time limit twice).
	bare := []struct {
		note string
		g    *c14UGraph
	}{
		{"g0 uses g1, g1 uses g0, no data nodes", &c14UGraph{Groupings: [][]c14UItem{{c14Uses(1)}, {c14Uses(0)}}, Root: []c14UItem{c14Uses(0)}}},
		{"g0 uses g0, no data nodes", &c14UGraph{Groupings: [][]c14UItem{{c14Uses(0)}}, Root: []c14UItem{c14Box(c14KContainer, c14Uses(0))}}},
		{"g0 has an action only and uses g0", &c14UGraph{Groupings: [][]c14UItem{{c14Box(c14KActIn, c14Leaf()), c14Uses(0)}}, Root: []c14UItem{c14Box(c14KContainer, c14Uses(0))}}},
		{"bare cycle g1 <-> g2 reached through a container of g0", &c14UGraph{Groupings: [][]c14UItem{{c14Leaf(), c14Box(c14KContainer, c14Uses(1))}, {c14Uses(2)}, {c14Uses(1)}}, Root: []c14UItem{c14Uses(0)}}},
	}
	if rn.ctx.Thorough() {
		for _, b := range bare {
			c14UsesCase(rn, b.g, b.note+" (known finding 2)")
		}
	} else {
		b := bare[r.Intn(len(bare))]
		c14UsesCase(rn, b.g, b.note+" (known finding 2)")
	}
	// the same shapes with a data node in the cycle, and a bare cycle nobody uses: these end
	for _, b := range []struct {
		note string
		g    *c14UGraph
	}{
		{"g0 uses g1, g1 has a container and uses g0", &c14UGraph{Groupings: [][]c14UItem{{c14Uses(1)}, {c14Box(c14KContainer, c14Leaf()), c14Uses(0)}}, Root: []c14UItem{c14Box(c14KContainer, c14Uses(0))}}},
		{"bare cycle g0 <-> g1 that nothing uses", &c14UGraph{Groupings: [][]c14UItem{{c14Uses(1)}, {c14Uses(0)}}, Root: []c14UItem{c14Leaf()}}},
	} {
		run(b.g, b.note)
	}
}

// ---- statements in the wrong kind of module ------------------------------------------------------

// c14ModKinds: a subject text (the main module, an imported module or an included submodule) whose
// header is assembled from the statements of BOTH kinds of module regardless of its own kind, and a
// body that refers to typedefs, groupings, identities and features through every prefix in sight.
func c14ModKinds(rn *c14Runner, r *gen.Rng) {
	txt := func(t string) c14File { return c14File{Kind: "text", Text: t} }
	goodB := "module b { namespace \"b\"; prefix b; typedef t { type string; } grouping g { leaf bx { type string; } } identity i; feature f; }"
	goodS := "submodule s { belongs-to a { prefix a; } typedef t { type string; } grouping g { leaf sx { type string; } } identity i; feature f; }"
	prefixes := []string{"", "a:", "b:", "y:", "s:", "zz:"}
	ref := func() string {
		p := gen.Pick(r, prefixes)
		name := func(n string) string {
			if r.Chance(1, 4) {
				return p + "nope"
			}
			return p + n
		}
		switch r.Intn(7) {
		case 0:
			return "leaf r" + strconv.Itoa(r.Intn(100)) + " { type " + name("t") + "; } "
		case 1:
			return "uses " + name("g") + "; "
		case 2:
			return "leaf r" + strconv.Itoa(r.Intn(100)) + " { type identityref { base " + name("i") + "; } } "
		case 3:
			return "leaf r" + strconv.Itoa(r.Intn(100)) + " { if-feature " + name("f") + "; type string; } "
		case 4:
			return "typedef u" + strconv.Itoa(r.Intn(100)) + " { type " + name("t") + "; } "
		case 5:
			return "identity j" + strconv.Itoa(r.Intn(100)) + " { base " + name("i") + "; } "
		}
		return "container k" + strconv.Itoa(r.Intn(100)) + " { uses " + name("g") + "; } "
	}
	subject := func(kind, name string) (string, string) {
		var hdr []string
		var what []string
		opt := func(proper bool, stmt, label string) {
			p := 2
			if proper {
				p = 5
			}
			if r.Chance(p, 6) {
				hdr = append(hdr, stmt)
				if !proper {
					what = append(what, label)
				}
				if r.Chance(1, 8) {
					hdr = append(hdr, stmt)
					what = append(what, label+" twice")
				}
			} else if proper {
				what = append(what, "no "+label)
			}
		}
		isMod := kind == "module"
		opt(isMod, "namespace \""+name+"\";", "namespace")
		opt(isMod, "prefix "+name+";", "prefix")
		bt := gen.Pick(r, []string{"a", "y", name})
		opt(!isMod, "belongs-to "+bt+" { prefix "+gen.Pick(r, []string{"a", "y", name})+"; }", "belongs-to "+bt)
		opt(true, "yang-version 1.1;", "yang-version")
		if r.Chance(1, 3) {
			hdr = append(hdr, "revision 2020-01-01;")
		}
		if name != "b" && r.Chance(1, 2) {
			hdr = append(hdr, "import b { prefix b; }")
		}
		if name == "a" && r.Chance(1, 2) {
			hdr = append(hdr, "include s;")
		}
		for i := len(hdr) - 1; i > 0; i-- {
			j := r.Intn(i + 1)
			hdr[i], hdr[j] = hdr[j], hdr[i]
		}
		var sb strings.Builder
		sb.WriteString(kind + " " + name + " { " + strings.Join(hdr, " ") + " ")
		sb.WriteString("typedef t { type string; } grouping g { leaf " + name + "x { type string; } } identity i; feature f; ")
		for k := 1 + r.Intn(3); k > 0; k-- {
			sb.WriteString(ref())
		}
		sb.WriteString("}")
		sort.Strings(what)
		return sb.String(), kind + " " + name + ": " + strings.Join(what, ", ")
	}
	// directed: the reported panics and their neighbours
	for _, t := range []string{
		"module x { namespace \"x\"; prefix x; belongs-to y { prefix y; } leaf l { type foo; } }",
		"module x { namespace \"x\"; prefix x; belongs-to y { prefix y; } leaf l { type y:foo; } }",
		"module x { namespace \"x\"; prefix x; belongs-to y { prefix y; } uses g; }",
		"module x { namespace \"x\"; prefix x; belongs-to y { prefix y; } uses y:g; }",
		"module x { namespace \"x\"; prefix x; belongs-to x { prefix x; } leaf l { type identityref { base y:i; } } }",
		"module x { namespace \"x\"; prefix x; belongs-to y { prefix y; } leaf l { type string; } }",
		"module x { belongs-to y { prefix y; } }",
		"submodule x { namespace \"x\"; prefix x; }",
	} {
		rn.add("module-kind", t, nil, true, "")
	}
	for i := rn.ctx.Scale(40, 400); i > 0; i-- {
		files := map[string]c14File{"b": txt(goodB), "s": txt(goodS)}
		var text, note string
		switch r.Intn(4) {
		case 0: // the main text
			kind := "module"
			if r.Chance(1, 5) {
				kind = "submodule"
			}
			text, note = subject(kind, "a")
		case 1: // the imported text
			kind := "module"
			if r.Chance(1, 4) {
				kind = "submodule"
			}
			t, n := subject(kind, "b")
			files["b"] = txt(t)
			text, note = "module a { namespace \"a\"; prefix a; import b { prefix b; } leaf l { type b:t; } uses b:g; }", "imported "+n
		default: // the included text
			kind := "submodule"
			if r.Chance(1, 4) {
				kind = "module"
			}
			t, n := subject(kind, "s")
			files["s"] = txt(t)
			text, note = "module a { namespace \"a\"; prefix a; import b { prefix b; } include s; leaf l { type t; } uses g; }", "included "+n
		}
		rn.add("module-kind", text, files, false, note)
	}
}
