package props

import (
	"bytes"
	"errors"
	"fmt"
	"io"
	"math"
	"sort"
	"strconv"
	"strings"

	"github.com/freeconf/yang/meta"
	"github.com/freeconf/yang/node"
	"github.com/freeconf/yang/nodeutil"
	"github.com/freeconf/yang/parser"
	"github.com/freeconf/yang/val"

	"yvh/core"
	"yvh/emit"
	"yvh/gen"
	"yvh/tree"
)

func init() { Registry["C15"] = C15 }

// ---- the JSON world shared by C15 and C04: a generated module "m" importing "mt" ---------------

// mt supplies identities and a grouping, so that nodes defined in another module (uses mt:g1) and
// identities of another module appear in m's data tree (RFC 7951 qualification).
const jsonTypesModule = `module mt {
  namespace "urn:mt";
  prefix mt;
  revision 2020-01-01;
  identity idb;
  identity ida { base idb; }
  identity idc { base ida; }
  grouping g1 {
    container xg {
      leaf xa { type string; }
      leaf xr { type identityref { base idb; } }
    }
    leaf xl { type int32; }
  }
}
`

var jsonExtraTypes = []string{
	"empty", "bits { bit b0; bit b1; bit b2 { position 5; } }", "identityref { base mt:idb; }", "binary",
	"union { type int32; type string; }", "string", "string", "int64", "uint64", "decimal64 { fraction-digits 4; }",
}

type jWorld struct {
	yang   string
	m      *meta.Module
	root   *tree.SNode
	idmods map[string]string // identity name -> defining module
}

func jsonOpener(src string, ext string) (io.Reader, error) {
	if src == "mt" {
		return strings.NewReader(jsonTypesModule), nil
	}
	return nil, nil
}

// genJSONWorld: tree.GenSchema's text with an import of mt, a local identity, mt's grouping used at
// the top level and inside the first container, and an augment of the used container (a node of m
// below a node of mt).
func genJSONWorld(r *gen.Rng, opts tree.GenOpts) (*jWorld, error) {
	if opts.Types == nil {
		opts.Types = append(append([]string{}, tree.DefaultTypes...), jsonExtraTypes...)
	}
	text, _, _, _ := tree.GenSchema(r, opts) // does not load by itself (mt is not known to it); the text is what we want
	hdr := "  revision 2020-01-01;\n"
	i := strings.Index(text, hdr)
	if i < 0 {
		return nil, fmt.Errorf("c15: unexpected schema text")
	}
	text = text[:i+len(hdr)] + "  import mt { prefix mt; }\n  identity idl { base mt:ida; }\n" + text[i+len(hdr):]
	if j := strings.Index(text, "  container c"); j >= 0 {
		k := strings.Index(text[j:], "{\n")
		text = text[:j+k+2] + "    uses mt:g1;\n" + text[j+k+2:]
	}
	end := strings.LastIndex(text, "}")
	text = text[:end] + "  uses mt:g1;\n  augment \"/xg\" {\n    leaf xb { type boolean; }\n    container xc { leaf xd { type int8; default \"7\"; } }\n  }\n}\n"
	m, err := parser.LoadModuleFromString(jsonOpener, text)
	if err != nil {
		return nil, fmt.Errorf("c15: schema does not load: %v\n%s", err, text)
	}
	w := &jWorld{yang: text, m: m, root: tree.Root(m), idmods: map[string]string{}}
	for name, id := range m.Identities() {
		w.idmods[name] = meta.RootModule(id).Ident()
	}
	for _, imp := range m.Imports() {
		for name, id := range imp.Module().Identities() {
			if _, dup := w.idmods[name]; !dup {
				w.idmods[name] = meta.RootModule(id).Ident()
			}
		}
	}
	return w, nil
}

// strings that exercise every branch of the escaper
var nastyStrings = []string{
	"", "a", "hello world", "q\"uote", "back\\slash", "tab\tnl\ncr\r", "\x00\x01\x1f", "\x08\x0c", "\x7f", "<>&", "</script>",
	" ", "x y", "\u2028\u2029", "\u00fc", "\u65e5\u672c\u8a9e", "\U0001f600", "a\u00e9\u0301", "\ufffd", "\uffff", "\U0010ffff", "\u07ff\u0800",
	"/", "'", "{\"a\":[1,2]}", "\\u0041", "\\\"", "line1\nline2",
	// not UTF-8: a lone continuation byte, truncated sequences, an overlong form, an encoded surrogate, beyond U+10FFFF
	"\xff", "a\x80b", "\xc3", "\xe2\x80", "\xf0\x9f\x98", "\xc0\xaf", "\xe0\x80\xaf", "\xed\xa0\x80", "\xf4\x90\x80\x80", "\xc3\x28",
}

func genString(r *gen.Rng) string {
	switch r.Intn(10) {
	case 0, 1, 2:
		return gen.Pick(r, []string{"a", "b", "hello", "x y", "v" + fmt.Sprint(r.Intn(1000)), "5", "-12", "true"})
	case 3:
		return gen.Pick(r, nastyStrings) + gen.Pick(r, nastyStrings)
	case 4:
		n := r.Intn(6)
		b := make([]byte, n)
		for i := range b {
			b[i] = byte(r.Intn(256))
		}
		return string(b)
	case 5:
		n := 1 + r.Intn(4)
		var sb strings.Builder
		for i := 0; i < n; i++ {
			sb.WriteRune(rune(gen.Pick(r, []int{0x20 + r.Intn(0x60), r.Intn(0x20), 0x80 + r.Intn(0x780), 0x800 + r.Intn(0xf000), 0x2028, 0x2029, 0x10000 + r.Intn(0x100000)})))
		}
		return sb.String()
	}
	return gen.Pick(r, nastyStrings)
}

// validUTF8Only: C04's round trip is claimed for YANG strings (Unicode text); see C15 finding 1
func jsonGenValue(r *gen.Rng, l meta.Leafable, w *jWorld, validOnly bool) (v val.Value) {
	defer func() {
		if rec := recover(); rec != nil {
			v = nil
		}
	}()
	t := l.Type()
	var one func(t *meta.Type) interface{}
	one = func(t *meta.Type) interface{} {
		switch t.Format().Single() {
		case val.FmtInt8:
			return gen.Pick(r, []int64{math.MinInt8, -1, 0, 1, 7, math.MaxInt8, int64(r.Intn(256)) - 128})
		case val.FmtInt16:
			return gen.Pick(r, []int64{math.MinInt16, -1, 0, 1, 300, math.MaxInt16, int64(r.Intn(65536)) - 32768})
		case val.FmtInt32:
			return gen.Pick(r, []int64{math.MinInt32, -1, 0, 1, 70000, math.MaxInt32, int64(int32(r.U64()))})
		case val.FmtInt64:
			return gen.Pick(r, []int64{math.MinInt64, -(1 << 53) - 1, -(1 << 53), -1, 0, 1, 1 << 40, 1 << 53, 1<<53 + 1, math.MaxInt64, int64(r.U64()), int64(r.U64()) >> 11})
		case val.FmtUInt8:
			return gen.Pick(r, []uint64{0, 1, 128, 255, uint64(r.Intn(256))})
		case val.FmtUInt16:
			return gen.Pick(r, []uint64{0, 1, 32768, 65535, uint64(r.Intn(65536))})
		case val.FmtUInt32:
			return gen.Pick(r, []uint64{0, 1, 1 << 31, math.MaxUint32, r.U64() >> 32})
		case val.FmtUInt64:
			return gen.Pick(r, []uint64{0, 1, 1 << 40, 1 << 53, 1<<53 + 1, 1 << 63, math.MaxUint64, r.U64(), r.U64() >> 11})
		case val.FmtString:
			for {
				s := genString(r)
				if !validOnly || strings.ToValidUTF8(s, "") == s {
					return s
				}
			}
		case val.FmtBool:
			return r.Bool()
		case val.FmtEnum:
			return gen.Pick(r, t.Enum()).Label
		case val.FmtDecimal64:
			return gen.Pick(r, []float64{0, 1.5, -2.25, 100.75, 0.5, 0.1, 1.0 / 3.0, 123456.789, -0.0001, 5e-7, 1e15 + 0.25, 1e21, 92233720368547.7580,
				float64(r.Intn(4000))/4 - 500, float64(int64(r.U64())>>20) / 10000})
		case val.FmtEmpty:
			return val.NotEmpty
		case val.FmtBits:
			var labels []string
			for _, b := range t.Bits() {
				if r.Bool() {
					labels = append(labels, b.Ident())
				}
			}
			return labels
		case val.FmtIdentityRef:
			names := make([]string, 0, len(w.idmods))
			for n := range w.idmods {
				names = append(names, n)
			}
			sort.Strings(names)
			return gen.Pick(r, names)
		case val.FmtBinary:
			n := r.Intn(7)
			b := make([]byte, n)
			for i := range b {
				b[i] = byte(r.Intn(256))
			}
			return b
		case val.FmtUnion:
			if r.Bool() {
				return int64(int32(r.U64() >> 40))
			}
			return gen.Pick(r, []string{"abc", "x y", "zero", "\u00fc", "n\"q"})
		case val.FmtLeafRef:
			return one(t.Resolve())
		}
		panic("unsupported format " + t.Format().String())
	}
	f := t.Format()
	var x interface{}
	if f.IsList() {
		n := r.Intn(4)
		if f == val.FmtBinaryList || f == val.FmtUnionList {
			n = 1 + r.Intn(3)
		}
		switch f.Single() {
		case val.FmtIdentityRef:
			xs := make([]string, n)
			for i := range xs {
				xs[i] = one(t).(string)
			}
			x = xs
		case val.FmtBits:
			xs := make([][]string, n)
			for i := range xs {
				xs[i] = one(t).([]string)
			}
			x = xs
		case val.FmtBinary:
			xs := make([]string, n)
			for i := range xs {
				xs[i] = val.Binary(one(t).([]byte)).String()
				if b, err := val.Conv(val.FmtBinary, one(t)); err == nil {
					xs[i] = b.String()
				}
			}
			x = xs
		case val.FmtEmpty:
			x = val.NotEmpty
		default:
			xs := make([]interface{}, n)
			for i := range xs {
				xs[i] = one(t)
			}
			x = xs
		}
	} else {
		x = one(t)
	}
	nv, err := node.NewValue(t, x)
	if err != nil || nv == nil {
		return nil
	}
	if _, ok := nv.(val.Listable); !ok && nv.Format().IsList() {
		return nil // a list format that cannot be iterated (no such value is produced by node.NewValue today)
	}
	return nv
}

// jsonGenData: like tree.GenData with the value generator above
func jsonGenData(ctx *core.Ctx, r *gen.Rng, w *jWorld, s *tree.SNode, density, maxRows int, validOnly bool) *tree.Cont {
	c := tree.NewCont()
	chosen := make([]int, len(s.Choices))
	for i, ch := range s.Choices {
		chosen[i] = -1
		if r.Chance(density, 100) {
			chosen[i] = r.Intn(len(ch.CaseIdents()))
		}
	}
	setLeaf := func(c *tree.Cont, kid *tree.SNode) bool {
		if validOnly && kid.Leafable().Type().Format() == val.FmtUnion && r.Chance(1, 4) {
			// a node may hold the string member of a union with a text that reads as a number (C04 finding 1)
			c.Leaves[kid.Name] = val.String(gen.Pick(r, []string{"5", "-12", "007", "+3"}))
			return true
		}
		v := jsonGenValue(r, kid.Leafable(), w, validOnly)
		if v == nil {
			ctx.Count("value-skipped:" + kid.Leafable().Type().Format().String())
			return false
		}
		c.Leaves[kid.Name] = v
		return true
	}
	for _, kid := range s.Kids {
		ok := true
		for _, g := range kid.Guard {
			if chosen[g[0]] != g[1] {
				ok = false
			}
		}
		isKey := false
		for _, k := range s.Keys {
			if s.Kids[k] == kid {
				isKey = true
			}
		}
		if !ok || isKey || !r.Chance(density, 100) {
			continue
		}
		switch kid.Kind {
		case tree.KLeaf:
			setLeaf(c, kid)
		case tree.KCont:
			c.Conts[kid.Name] = jsonGenData(ctx, r, w, kid, density, maxRows, validOnly)
		case tree.KList:
			l := &tree.List{}
			n := r.Intn(maxRows + 1)
			seen := map[string]bool{}
			for i := 0; i < n; i++ {
				row := jsonGenData(ctx, r, w, kid, density, maxRows, validOnly)
				var ks []string
				good := true
				for _, k := range kid.Keys {
					if !setLeaf(row, kid.Kids[k]) {
						good = false
						break
					}
					ks = append(ks, row.Leaves[kid.Kids[k].Name].String())
				}
				id := strings.Join(ks, "\x00")
				if !good || seen[id] {
					continue
				}
				seen[id] = true
				l.Rows = append(l.Rows, row)
			}
			c.Lists[kid.Name] = l
		}
	}
	return c
}

func frexpME(f float64) (int64, int64) {
	if f == 0 || math.IsNaN(f) || math.IsInf(f, 0) {
		return 0, 0
	}
	fr, exp := math.Frexp(f)
	m := int64(fr * (1 << 53))
	e := int64(exp - 53)
	for m != 0 && m%2 == 0 {
		m /= 2
		e++
	}
	return m, e
}

// oracle tables: decimal text of every binary64 in schema defaults and data; identity modules
type jOracle struct {
	floats map[[2]int64]string
}

func (o *jOracle) addVal(v val.Value) {
	if v == nil {
		return
	}
	add := func(f float64) {
		m, e := frexpME(f)
		o.floats[[2]int64{m, e}] = strconv.FormatFloat(f, 'f', -1, 64)
	}
	switch x := v.(type) {
	case val.Decimal64:
		add(float64(x))
	case val.Decimal64List:
		for _, f := range x {
			add(f)
		}
	}
}

func (o *jOracle) addSchema(s *tree.SNode) {
	for _, k := range s.Kids {
		if k.Kind == tree.KLeaf {
			if v, err := tree.DefaultValue(k.Leafable()); err == nil {
				o.addVal(v)
			}
		} else {
			o.addSchema(k)
		}
	}
}

func (o *jOracle) addData(c *tree.Cont) {
	for _, v := range c.Leaves {
		o.addVal(v)
	}
	for _, s := range c.Conts {
		o.addData(s)
	}
	for _, l := range c.Lists {
		for _, r := range l.Rows {
			o.addData(r)
		}
	}
}

func (o *jOracle) term() string {
	keys := make([][2]int64, 0, len(o.floats))
	for k := range o.floats {
		keys = append(keys, k)
	}
	sort.Slice(keys, func(i, j int) bool {
		return keys[i][0] < keys[j][0] || (keys[i][0] == keys[j][0] && keys[i][1] < keys[j][1])
	})
	items := make([]string, len(keys))
	for i, k := range keys {
		items[i] = emit.Pair(emit.Pair(emit.Z(k[0]), emit.Z(k[1])), emit.Str(o.floats[k]))
	}
	return emit.List(items)
}

func (w *jWorld) idtabTerm() string {
	names := make([]string, 0, len(w.idmods))
	for n := range w.idmods {
		names = append(names, n)
	}
	sort.Strings(names)
	items := make([]string, len(names))
	for i, n := range names {
		items[i] = emit.Pair(emit.Str(n), emit.Str(w.idmods[n]))
	}
	return emit.List(items)
}

// ---- start selections ----------------------------------------------------------------------------

type jStart struct {
	kind string // root | container | list | row | leaf
	path string
	sel  *node.Selection
	term string // Gallina `start`
	size int    // data nodes below
	s    *tree.SNode
	cont *tree.Cont // content for root/container/row
}

func c15RowsTerm(s *tree.SNode, l *tree.List) string {
	items := make([]string, len(l.Rows))
	for i, row := range l.Rows {
		items[i] = emit.App("DCont", row.ContentTerm(s))
	}
	return emit.App("DList", emit.List(items))
}

// collectStarts walks the data from sel (selection of container-like node s holding c)
func collectStarts(out *[]jStart, sel *node.Selection, s *tree.SNode, c *tree.Cont, path string, top bool, depth int) error {
	if depth > 4 || len(*out) > 60 {
		return nil
	}
	pmod := emit.Str(s.Mod)
	for _, kid := range s.Kids {
		kp := join(path, kid.Name)
		switch kid.Kind {
		case tree.KLeaf:
			ls, err := sel.Find(kid.Name)
			if err != nil && len(kid.Guard) > 0 {
				continue // Find does not look into choices (C08's subject)
			}
			if err != nil || ls == nil {
				return fmt.Errorf("c15: cannot select leaf %s: %v", kp, err)
			}
			v := "None"
			if x, ok := c.Leaves[kid.Name]; ok {
				v = emit.Some(tree.ValTerm(x))
			}
			*out = append(*out, jStart{kind: "leaf", path: kp, sel: ls, term: emit.App("mk_leaf_start", kid.Term(), v), size: 1, s: kid})
		case tree.KCont:
			sub, ok := c.Conts[kid.Name]
			if !ok {
				continue
			}
			cs, err := sel.Find(kid.Name)
			if err != nil && len(kid.Guard) > 0 {
				continue
			}
			if err != nil || cs == nil {
				return fmt.Errorf("c15: cannot select container %s: %v", kp, err)
			}
			*out = append(*out, jStart{kind: "container", path: kp, sel: cs, s: kid, cont: sub, size: sub.Size(),
				term: emit.App("StCont", "false", kid.Term(), emit.App("DCont", sub.ContentTerm(kid)))})
			if err := collectStarts(out, cs, kid, sub, kp, false, depth+1); err != nil {
				return err
			}
		case tree.KList:
			l, ok := c.Lists[kid.Name]
			if !ok {
				continue
			}
			lsel, err := sel.Find(kid.Name)
			if err != nil && len(kid.Guard) > 0 {
				continue
			}
			if err != nil || lsel == nil {
				return fmt.Errorf("c15: cannot select list %s: %v", kp, err)
			}
			*out = append(*out, jStart{kind: "list", path: kp, sel: lsel, s: kid, size: len(l.Rows),
				term: emit.App("StList", emit.Bool(top), pmod, kid.Term(), c15RowsTerm(kid, l))})
			item, err := lsel.First()
			for i := 0; err == nil && item.Selection != nil && i < len(l.Rows); i++ {
				rp := fmt.Sprintf("%s[%d]", kp, i)
				row := l.Rows[i]
				*out = append(*out, jStart{kind: "row", path: rp, sel: item.Selection, s: kid, cont: row, size: row.Size(),
					term: emit.App("StCont", "false", emit.App("row_of", kid.Term()), emit.App("DCont", row.ContentTerm(kid)))})
				if err := collectStarts(out, item.Selection, kid, row, rp, false, depth+1); err != nil {
					return err
				}
				item, err = item.Next()
			}
			if err != nil {
				return fmt.Errorf("c15: iterating %s: %v", kp, err)
			}
		}
	}
	return nil
}

// ---- running the writer --------------------------------------------------------------------------

type jCfg struct{ pretty, enumIds, qualify bool }

func (c jCfg) term() string {
	return emit.App("mkCfg", emit.Bool(c.pretty), emit.Bool(c.enumIds), emit.Bool(c.qualify))
}
func (c jCfg) String() string {
	return fmt.Sprintf("pretty=%v enumAsIds=%v qualify=%v", c.pretty, c.enumIds, c.qualify)
}

var errSinkFull = errors.New("sink full")

// failSink accepts cap bytes, then fails every write (cap < 0: never fails)
type failSink struct {
	cap int
	buf bytes.Buffer
}

func (w *failSink) Write(p []byte) (int, error) {
	if w.cap >= 0 && w.buf.Len()+len(p) > w.cap {
		k := w.cap - w.buf.Len()
		w.buf.Write(p[:k])
		return k, errSinkFull
	}
	return w.buf.Write(p)
}

// runWriter: api 0 = JSONWtr{Out}.Node() + InsertInto, 1 = the same + UpsertInto, 2 = WriteJSON /
// WritePrettyJSON / JSONWtr.JSON convenience calls (only without a failing sink)
func runWriter(sel *node.Selection, cfg jCfg, api int, cap int) (out []byte, err error, panicked string) {
	defer func() {
		if r := recover(); r != nil {
			panicked = fmt.Sprintf("%v", r)
		}
	}()
	sink := &failSink{cap: cap}
	wtr := &nodeutil.JSONWtr{Out: sink, Pretty: cfg.pretty, EnumAsIds: cfg.enumIds, QualifyNamespace: cfg.qualify}
	switch {
	case api == 2 && cap < 0:
		var s string
		switch {
		case !cfg.enumIds && !cfg.qualify && !cfg.pretty:
			s, err = nodeutil.WriteJSON(sel)
		case !cfg.enumIds && !cfg.qualify && cfg.pretty:
			s, err = nodeutil.WritePrettyJSON(sel)
		default:
			s, err = (*wtr).JSON(sel)
		}
		return []byte(s), err, ""
	case api == 1:
		err = sel.UpsertInto(wtr.Node())
	default:
		err = sel.InsertInto(wtr.Node())
	}
	return sink.buf.Bytes(), err, ""
}

func quoteBytes(b []byte) string {
	if len(b) > 1500 {
		return strconv.Quote(string(b[:1500])) + fmt.Sprintf("...(%d bytes)", len(b))
	}
	return strconv.Quote(string(b))
}

func emitWrite(ctx *core.Ctx, w *jWorld, data *tree.Cont, oracle *jOracle, st jStart, cfg jCfg, api int) []byte {
	out, err, panicked := runWriter(st.sel, cfg, api, -1)
	failed := err != nil || panicked != ""
	term := emit.App("CWrite", cfg.term(), oracle.term(), w.idtabTerm(), st.term, emit.Bool(failed), emit.Bytes(out))
	desc := map[string]interface{}{"yang": w.yang, "data": data.Desc(w.root), "start": st.kind, "path": st.path, "config": cfg.String(),
		"api":    []string{"JSONWtr.Node+InsertInto", "JSONWtr.Node+UpsertInto", "WriteJSON/WritePrettyJSON/JSONWtr.JSON"}[api],
		"output": quoteBytes(out)}
	if err != nil {
		desc["error"] = err.Error()
	}
	if panicked != "" {
		desc["panic"] = panicked
	}
	ctx.Add(term, desc, len(out) > 2)
	ctx.Count("start:" + st.kind)
	ctx.Count("config:" + cfg.String())
	ctx.Count(fmt.Sprintf("api:%d", api))
	switch {
	case panicked != "":
		ctx.Count("result:panic")
	case err != nil:
		ctx.Count("result:error")
	default:
		ctx.Count("result:ok")
	}
	switch {
	case len(out) < 20:
		ctx.Count("bytes:<20")
	case len(out) < 200:
		ctx.Count("bytes:<200")
	case len(out) < 2000:
		ctx.Count("bytes:<2000")
	default:
		ctx.Count("bytes:>=2000")
	}
	if failed {
		return nil
	}
	return out
}

// emitFaults: the same write against a sink that fails after cap bytes, for every cap in caps
func emitFaults(ctx *core.Ctx, w *jWorld, data *tree.Cont, oracle *jOracle, st jStart, cfg jCfg, api int, full []byte, caps []int) {
	errs := make([]bool, len(caps))
	var notes []string
	for i, cap := range caps {
		_, err, panicked := runWriter(st.sel, cfg, api, cap)
		errs[i] = err != nil || panicked != ""
		if panicked != "" {
			notes = append(notes, fmt.Sprintf("cap %d: panic %s", cap, panicked))
		}
		if errs[i] != (cap < len(full)) {
			notes = append(notes, fmt.Sprintf("cap %d: error returned = %v", cap, errs[i]))
		}
	}
	idx := ctx.N()
	mk := func(caps []int, errs []bool) string {
		cs := make([]string, len(caps))
		es := make([]string, len(caps))
		for i := range caps {
			cs[i] = fmt.Sprintf("(Z.to_nat %d)", caps[i])
			es[i] = emit.Bool(errs[i])
		}
		return emit.App("CFault", cfg.term(), oracle.term(), w.idtabTerm(), st.term, emit.Bytes(full), emit.List(cs), emit.List(es))
	}
	desc := map[string]interface{}{"kind": "table", "yang": w.yang, "data": data.Desc(w.root), "start": st.kind, "path": st.path, "config": cfg.String(),
		"api": api, "output": quoteBytes(full), "failing_positions": len(caps), "unexpected": notes}
	if ctx.Explode == idx {
		for i := range caps {
			d := map[string]interface{}{"yang": w.yang, "data": data.Desc(w.root), "start": st.kind, "path": st.path, "config": cfg.String(),
				"output": quoteBytes(full), "sink_accepts_bytes": caps[i], "error_returned": errs[i]}
			ctx.Add(mk(caps[i:i+1], errs[i:i+1]), d, true)
		}
		return
	}
	ctx.Add(mk(caps, errs), desc, true)
	ctx.Count("fault-sweeps")
	ctx.Hist["fault-positions"] += len(caps)
}

var allCfgs = []jCfg{{false, false, false}, {true, false, false}, {false, true, false}, {false, false, true}, {true, true, true}, {true, false, true}, {false, true, true}, {true, true, false}}

// C15: the JSON writer emits well-formed, correctly named and typed JSON.
func C15(ctx *core.Ctx) error {
	ctx.Imports = "Val.Model Tree.Schema Tree.Export Tree.JsonSpec Tree.JsonExp Tree.JsonW Check.C15Check"
	ctx.Rule = "document = generated schema (module m importing mt: containers, lists, choices, leaf-lists, defaults, 22 leaf types incl. empty, bits, identityref across modules, binary, union, int64/uint64 extremes; grouping of mt used at two levels and augmented by m) x data with strings covering every escaper branch (quotes, backslash, controls, <>&, U+2028/9, 2/3/4-byte UTF-8, ill-formed UTF-8) x start selection (root, container, list, list entry, leaf) x writer configuration (Pretty, EnumAsIds, QualifyNamespace) x API (JSONWtr.Node with InsertInto/UpsertInto, WriteJSON, WritePrettyJSON, JSONWtr.JSON); fault sweeps: every failing position 0..len of small documents and boundary positions of documents larger than the 4096-byte buffer; distinct by SHA-256 of the case term; non-trivial = the output has at least one member"
	ctx.ShardMax = 120000 // many small shards: the classification is dominated by parsing the outputs
	r := gen.New(ctx.Seed)
	nSchemas := ctx.Scale(36, 700)
	sweeps := 0
	for n := 0; n < nSchemas; n++ {
		opts := tree.GenOpts{MaxDepth: 3, MaxKids: 4, Lists: true, Defaults: true, LeafLists: true, Choices: n%2 == 0}
		w, err := genJSONWorld(r.Fork(uint64(n)), opts)
		if err != nil {
			return err
		}
		dr := r.Fork(uint64(5000 + n))
		data := jsonGenData(ctx, dr, w, w.root, 45+dr.Intn(50), 3, false)
		if n%9 == 8 {
			data = tree.NewCont() // the empty tree
		}
		oracle := &jOracle{floats: map[[2]int64]string{}}
		oracle.addSchema(w.root)
		oracle.addData(data)
		b := node.NewBrowser(w.m, data.Node(w.root, nil, ""))
		rootStart := jStart{kind: "root", sel: b.Root(), s: w.root, cont: data, size: data.Size(),
			term: emit.App("StCont", "true", w.root.Term(), emit.App("DCont", data.ContentTerm(w.root)))}
		var others []jStart
		if err := collectStarts(&others, b.Root(), w.root, data, "", true, 0); err != nil {
			return err
		}
		starts := []jStart{rootStart}
		// one of each other kind when available, then random ones
		byKind := map[string][]jStart{}
		for _, s := range others {
			byKind[s.kind] = append(byKind[s.kind], s)
		}
		for _, k := range []string{"container", "list", "row", "leaf"} {
			if l := byKind[k]; len(l) > 0 && dr.Chance(3, 4) {
				starts = append(starts, gen.Pick(dr, l))
			}
		}
		for _, st := range starts {
			cfgs := []jCfg{gen.Pick(dr, allCfgs), gen.Pick(dr, allCfgs)}
			if st.kind == "root" {
				cfgs = []jCfg{allCfgs[0], allCfgs[1], allCfgs[3], gen.Pick(dr, allCfgs[2:])}
			}
			seen := map[jCfg]bool{}
			for _, cfg := range cfgs {
				if seen[cfg] {
					continue
				}
				seen[cfg] = true
				api := dr.Intn(3)
				full := emitWrite(ctx, w, data, oracle, st, cfg, api)
				if full != nil && len(full) <= 140 && len(full) > 2 && sweeps < ctx.Scale(30, 400) && dr.Chance(1, 2) {
					caps := make([]int, len(full)+2)
					for i := range caps {
						caps[i] = i
					}
					emitFaults(ctx, w, data, oracle, st, cfg, dr.Intn(2), full, caps)
					sweeps++
				}
			}
		}
	}
	// documents larger than bufio's buffer: the error surfaces in the middle of the write
	for n := 0; n < ctx.Scale(3, 12); n++ {
		if err := bigDocFaults(ctx, r.Fork(uint64(90000+n))); err != nil {
			return err
		}
	}
	// deep nesting with Pretty (the indent used to be cut from a fixed-size constant)
	return deepDoc(ctx, r.Fork(777))
}

const bigYang = `module m {
  namespace "urn:m";
  prefix m;
  revision 2020-01-01;
  list q {
    key "k";
    leaf k { type int32; }
    leaf s { type string; }
    leaf-list n { type uint16; }
  }
}
`

func bigDocFaults(ctx *core.Ctx, r *gen.Rng) error {
	m, err := parser.LoadModuleFromString(nil, bigYang)
	if err != nil {
		return err
	}
	w := &jWorld{yang: bigYang, m: m, root: tree.Root(m), idmods: map[string]string{}}
	data := tree.NewCont()
	l := &tree.List{}
	q := w.root.Kids[0]
	rows := 60 + r.Intn(60)
	for i := 0; i < rows; i++ {
		row := tree.NewCont()
		row.Leaves["k"] = val.Int32(i)
		row.Leaves["s"] = val.String(strings.Repeat(gen.Pick(r, []string{"abc", "x\ny", "\u00fc", "<&>"}), 5+r.Intn(30)))
		if r.Bool() {
			row.Leaves["n"] = val.UInt16List([]uint16{uint16(r.Intn(65536)), uint16(i)})
		}
		l.Rows = append(l.Rows, row)
	}
	_ = q
	data.Lists["q"] = l
	oracle := &jOracle{floats: map[[2]int64]string{}}
	b := node.NewBrowser(m, data.Node(w.root, nil, ""))
	st := jStart{kind: "root", sel: b.Root(), s: w.root, cont: data,
		term: emit.App("StCont", "true", w.root.Term(), emit.App("DCont", data.ContentTerm(w.root)))}
	cfg := gen.Pick(r, allCfgs)
	full, werr, panicked := runWriter(st.sel, cfg, 0, -1)
	if werr != nil || panicked != "" {
		return fmt.Errorf("c15: big document does not write: %v %s", werr, panicked)
	}
	caps := []int{0, 1, 4095, 4096, 4097, 8191, 8192, 8193, len(full) - 1, len(full), len(full) + 1}
	for i := 0; i < 6; i++ {
		caps = append(caps, r.Intn(len(full)))
	}
	emitFaults(ctx, w, data, oracle, st, cfg, r.Intn(2), full, caps)
	ctx.Count("fault-big-documents")
	return nil
}

// deepDoc: a chain of containers deeper than the writer's padding constant, pretty and compact
func deepDoc(ctx *core.Ctx, r *gen.Rng) error {
	depth := 46 + r.Intn(6)
	var b strings.Builder
	b.WriteString("module m {\n  namespace \"urn:m\";\n  prefix m;\n  revision 2020-01-01;\n")
	for i := 0; i < depth; i++ {
		fmt.Fprintf(&b, "container d%d {\n", i)
	}
	b.WriteString("leaf x { type string; }\n")
	for i := 0; i < depth; i++ {
		b.WriteString("}\n")
	}
	b.WriteString("}\n")
	m, err := parser.LoadModuleFromString(nil, b.String())
	if err != nil {
		return err
	}
	w := &jWorld{yang: b.String(), m: m, root: tree.Root(m), idmods: map[string]string{}}
	data := tree.NewCont()
	cur := data
	for i := 0; i < depth; i++ {
		nx := tree.NewCont()
		cur.Conts[fmt.Sprintf("d%d", i)] = nx
		cur = nx
	}
	cur.Leaves["x"] = val.String("deep")
	oracle := &jOracle{floats: map[[2]int64]string{}}
	br := node.NewBrowser(m, data.Node(w.root, nil, ""))
	st := jStart{kind: "root", sel: br.Root(), s: w.root, cont: data,
		term: emit.App("StCont", "true", w.root.Term(), emit.App("DCont", data.ContentTerm(w.root)))}
	for _, cfg := range []jCfg{{true, false, false}, {false, false, true}} {
		emitWrite(ctx, w, data, oracle, st, cfg, 0)
		ctx.Count("deep-documents")
	}
	return nil
}
