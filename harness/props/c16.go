package props

import (
	"fmt"
	"math"
	"math/big"
	"net/url"
	"strconv"
	"strings"

	"github.com/freeconf/yang/meta"
	"github.com/freeconf/yang/node"
	"github.com/freeconf/yang/nodeutil"
	"github.com/freeconf/yang/parser"
	"github.com/freeconf/yang/val"
	"github.com/freeconf/yang/xpath"

	"yvh/core"
	"yvh/emit"
	"yvh/gen"
	"yvh/tree"
)

func init() { Registry["C16"] = C16 }

// ---- operand types, literals and the values around them -------------------------------------------

type c16Type struct {
	name   string
	yang   string // type statement
	kind   string // int dec str bool enum
	bits   uint
	signed bool
}

var c16Types = []c16Type{
	{"int8", "int8", "int", 8, true}, {"int16", "int16", "int", 16, true}, {"int32", "int32", "int", 32, true}, {"int64", "int64", "int", 64, true},
	{"uint8", "uint8", "int", 8, false}, {"uint16", "uint16", "int", 16, false}, {"uint32", "uint32", "int", 32, false}, {"uint64", "uint64", "int", 64, false},
	{"dec", "decimal64 { fraction-digits 3; }", "dec", 0, true},
	{"str", "string", "str", 0, false},
	{"bool", "boolean", "bool", 0, false},
	{"enum", "enumeration { enum red { value 0; } enum green { value 1; } enum blue { value 5; } enum violet { value 9; } }", "enum", 0, false},
}

// stmt is the complete YANG type statement
func (t c16Type) stmt() string {
	if strings.HasSuffix(t.yang, "}") {
		return "type " + t.yang
	}
	return "type " + t.yang + ";"
}

var c16Ops = []struct{ text, term string }{{"=", "OEq"}, {"!=", "ONe"}, {"<", "OLt"}, {"<=", "OLe"}, {">", "OGt"}, {">=", "OGe"}}

type c16Lit struct {
	text string // as written in the expression
	term string // Gallina literal
}

func litInt(v *big.Int) c16Lit { return c16Lit{v.String(), emit.App("LInt", emit.ZBig(v))} }
func litStr(s string) c16Lit   { return c16Lit{"'" + s + "'", emit.App("LStr", emit.Str(s))} }
func litDecText(s string) c16Lit { // digits '.' digits
	dot := strings.IndexByte(s, '.')
	n, _ := new(big.Int).SetString(s[:dot]+s[dot+1:], 10)
	return c16Lit{s, emit.App("LDec", emit.ZBig(n), emit.Z(int64(len(s)-dot-1)))}
}

func (t c16Type) rangeOf() (lo, hi *big.Int) {
	one := big.NewInt(1)
	if t.signed {
		hi = new(big.Int).Sub(new(big.Int).Lsh(one, t.bits-1), one)
		lo = new(big.Int).Neg(new(big.Int).Lsh(one, t.bits-1))
	} else {
		lo = big.NewInt(0)
		hi = new(big.Int).Sub(new(big.Int).Lsh(one, t.bits), one)
	}
	return
}

var maxInt64Big = big.NewInt(math.MaxInt64)

// genLit picks a literal for an operand of type t and Go values (for node.NewValue) at and around it
func (t c16Type) genLit(r *gen.Rng) (c16Lit, []interface{}) {
	switch t.kind {
	case "int":
		lo, hi := t.rangeOf()
		span := new(big.Int).Sub(hi, lo)
		rnd := new(big.Int).Add(lo, new(big.Int).Mod(new(big.Int).SetUint64(r.U64()), new(big.Int).Add(span, big.NewInt(1))))
		half := new(big.Int).Rsh(hi, 1)
		centers := []*big.Int{lo, hi, big.NewInt(0), big.NewInt(1), rnd, half, new(big.Int).Add(lo, big.NewInt(1)), new(big.Int).Sub(hi, big.NewInt(1)), big.NewInt(int64(r.Intn(100)))}
		if t.signed {
			centers = append(centers, big.NewInt(-1), big.NewInt(-int64(r.Intn(100))))
		}
		v := gen.Pick(r, centers)
		var pool []interface{}
		add := func(x *big.Int) {
			if x.Cmp(lo) >= 0 && x.Cmp(hi) <= 0 {
				pool = append(pool, x.String())
			}
		}
		add(new(big.Int).Sub(v, big.NewInt(1)))
		add(v)
		add(v)
		add(new(big.Int).Add(v, big.NewInt(1)))
		add(lo)
		add(hi)
		add(big.NewInt(0))
		add(rnd)
		var lit c16Lit
		switch roll := r.Intn(16); {
		case roll == 0: // beyond the type's range, quoted
			lit = litStr(new(big.Int).Add(hi, big.NewInt(1)).String())
		case roll == 1 && t.bits < 32: // beyond the range, bare (int32: silent narrowing, left to the conversion property)
			lit = litInt(new(big.Int).Add(hi, big.NewInt(int64(1+r.Intn(50)))))
		case roll == 2:
			lit = litStr(gen.Pick(r, []string{"abc", "", "1x", "+", "-"}))
		case roll == 3:
			lit = litDecText(gen.Pick(r, []string{"2.5", "0.999", "7.0", "100.25"}))
		case roll == 4 && t.signed:
			lit = litStr("+" + new(big.Int).Abs(v).String())
		case roll == 5 && v.Sign() >= 0 && v.Cmp(maxInt64Big) <= 0: // leading zeros: still decimal
			lit = c16Lit{"0" + v.String(), emit.App("LInt", emit.ZBig(v))}
		case roll == 6 && v.Sign() >= 0:
			lit = litStr("00" + v.String())
		default:
			if v.Sign() >= 0 && v.Cmp(maxInt64Big) <= 0 && r.Chance(2, 3) {
				lit = litInt(v)
			} else {
				lit = litStr(v.String())
			}
		}
		return lit, pool
	case "dec":
		c := gen.Pick(r, []string{"0.0", "1.5", "2.25", "0.1", "100.75", "0.001", "3.0", "0.30000000000000004", "123456789.125", "0.3", "010.5", "3."})
		f, _ := strconv.ParseFloat(c, 64)
		pool := []interface{}{f, f, math.Nextafter(f, math.Inf(1)), math.Nextafter(f, math.Inf(-1)), f + 0.5, f - 0.5, 0.0, -f, float64(r.Intn(2000))/8 - 100}
		var lit c16Lit
		switch r.Intn(8) {
		case 0:
			lit = litStr(c)
		case 1:
			lit = litStr("-" + c)
			pool = append(pool, -f, math.Nextafter(-f, 0))
		case 2:
			lit = litInt(big.NewInt(int64(f)))
			pool = append(pool, float64(int64(f)), float64(int64(f))+0.25)
		case 3:
			lit = litStr(gen.Pick(r, []string{"abc", "1.2.3", "", ".", "1."}))
		default:
			lit = litDecText(c)
		}
		return lit, pool
	case "str":
		c := gen.Pick(r, []string{"abc", "a b", "", "Abc", "abd", "ab", "hello", "5", "z-9_.", "x/y", "it=s"})
		pool := []interface{}{c, c, c + "a", "", strings.ToUpper(c), "ab", "abd", "b"}
		if len(c) > 0 {
			pool = append(pool, c[:len(c)-1], c[1:])
		}
		if c == "5" && r.Bool() {
			return litInt(big.NewInt(5)), pool
		}
		return litStr(c), pool
	case "bool":
		pool := []interface{}{true, false}
		switch r.Intn(10) {
		case 0:
			return litInt(big.NewInt(1)), pool
		case 1:
			return litStr(gen.Pick(r, []string{"maybe", "True", ""})), pool
		}
		return litStr(gen.Pick(r, []string{"true", "false", "true", "false", "1", "0", "yes", "no"})), pool
	case "enum":
		pool := []interface{}{"red", "green", "blue", "violet"}
		switch r.Intn(8) {
		case 0:
			return litInt(big.NewInt(int64(gen.Pick(r, []int{0, 1, 5, 7, 9})))), pool
		case 1:
			return litStr(gen.Pick(r, []string{"5", "-3", "1", "9", "nosuch", "4294967295", "3000000000", "Red", ""})), pool
		}
		return litStr(gen.Pick(r, []string{"red", "green", "blue", "violet"})), pool
	}
	panic("c16: type kind")
}

// ---- expressions -------------------------------------------------------------------------------

type c16Expr struct {
	path []string
	leaf string
	op   int
	lit  c16Lit
	ws   int // whitespace variant
}

func (e c16Expr) text() string {
	p := strings.Join(append(append([]string{}, e.path...), e.leaf), "/")
	switch e.ws % 4 {
	case 1:
		return p + " " + c16Ops[e.op].text + " " + e.lit.text
	case 2:
		return " " + p + c16Ops[e.op].text + e.lit.text + " "
	case 3:
		return strings.Join(append(append([]string{}, e.path...), e.leaf), " / ") + c16Ops[e.op].text + "\t" + e.lit.text
	}
	return p + c16Ops[e.op].text + e.lit.text
}

func strList(xs []string) string {
	items := make([]string, len(xs))
	for i, x := range xs {
		items[i] = emit.Str(x)
	}
	return emit.List(items)
}

// term is the Gallina cmp_expr
func (e c16Expr) term() string {
	return emit.App("mkCmp", strList(e.path), emit.Str(e.leaf), c16Ops[e.op].term, e.lit.term)
}

// pathTerm is the Gallina XPathLex.path the text must parse to
func (e c16Expr) pathTerm() string {
	var segs []string
	for _, n := range e.path {
		segs = append(segs, emit.Pair(emit.Str(n), "None"))
	}
	segs = append(segs, emit.Pair(emit.Str(e.leaf), emit.Some(emit.Pair(c16Ops[e.op].term, e.lit.term))))
	return emit.List(segs)
}

// ---- schema blocks -------------------------------------------------------------------------------

type c16Cond struct {
	inParent bool
	e        c16Expr
}

type c16Intent struct {
	names  []string // node names from the scenario root
	origin int      // 0 own, 1 augment, 2 uses
	conds  []c16Cond
}

type c16Pool struct {
	t    c16Type
	vals []interface{}
}

type c16Ref struct { // an operand reachable from the root context
	path []string
	leaf string
	t    c16Type
}

type c16Schema struct {
	body    strings.Builder // statements inside the module
	tail    strings.Builder // module level statements (groupings, augments)
	intents []c16Intent
	pools   map[string]*c16Pool
	refs    []c16Ref
	next    int
	kinds   []string
}

func (s *c16Schema) id() int { s.next++; return s.next }

func (s *c16Schema) newExpr(r *gen.Rng, path []string, leaf string, t c16Type) c16Expr {
	lit, pool := t.genLit(r)
	if p, ok := s.pools[leaf]; ok {
		p.vals = append(p.vals, pool...)
	} else {
		s.pools[leaf] = &c16Pool{t: t, vals: pool}
	}
	return c16Expr{path: path, leaf: leaf, op: r.Intn(len(c16Ops)), lit: lit, ws: r.Intn(6)}
}

func quoteYang(s string) string {
	return "\"" + strings.ReplaceAll(strings.ReplaceAll(s, "\\", "\\\\"), "\"", "\\\"") + "\""
}

// block appends one self-contained group of definitions under the node path `at` (names from the root)
// `top`: the block is written at module level (uses / augment blocks only there)
func (s *c16Schema) block(r *gen.Rng, w *strings.Builder, at []string, kind int, top bool) {
	n := s.id()
	t := gen.Pick(r, c16Types)
	x := fmt.Sprintf("x%d", n)
	y := fmt.Sprintf("y%d", n)
	here := func(name ...string) []string { return append(append([]string{}, at...), name...) }
	ydef := func(when string) string {
		d := ""
		if r.Chance(1, 3) {
			d = " default 7;"
		}
		return fmt.Sprintf("leaf %s { when %s; type int32;%s }\n", y, quoteYang(when), d)
	}
	xdef := func(name string) string {
		d := ""
		if r.Chance(1, 5) {
			switch t.kind {
			case "int":
				d = " default 5;"
			case "dec":
				d = " default 1.5;"
			case "str":
				d = " default abc;"
			case "bool":
				d = " default true;"
			case "enum":
				d = " default green;"
			}
		}
		return fmt.Sprintf("leaf %s { %s%s }\n", name, t.stmt(), d)
	}
	switch kind {
	case 0: // leaf conditional on a sibling leaf
		e := s.newExpr(r, nil, x, t)
		if r.Bool() {
			w.WriteString(xdef(x) + ydef(e.text()))
		} else {
			w.WriteString(ydef(e.text()) + xdef(x))
		}
		s.intents = append(s.intents, c16Intent{here(y), 0, []c16Cond{{true, e}}})
		if len(at) == 0 {
			s.refs = append(s.refs, c16Ref{nil, x, t})
		}
		s.kinds = append(s.kinds, "leaf-when")
	case 1: // container conditional on a leaf inside it
		c := fmt.Sprintf("c%d", n)
		e := s.newExpr(r, nil, x, t)
		fmt.Fprintf(w, "container %s { when %s; %s leaf w%d { type string; default dw; } }\n", c, quoteYang(e.text()), xdef(x), n)
		s.intents = append(s.intents, c16Intent{here(c), 0, []c16Cond{{false, e}}})
		s.kinds = append(s.kinds, "container-when")
	case 2: // leaf conditional on a leaf 1-3 containers away
		depth := 1 + r.Intn(3)
		var path []string
		open, closeb := "", ""
		for d := 0; d < depth; d++ {
			p := fmt.Sprintf("p%d_%d", n, d)
			path = append(path, p)
			open += "container " + p + " { "
			closeb += "} "
		}
		e := s.newExpr(r, path, x, t)
		w.WriteString(open + xdef(x) + closeb + "\n" + ydef(e.text()))
		s.intents = append(s.intents, c16Intent{here(y), 0, []c16Cond{{true, e}}})
		if len(at) == 0 {
			s.refs = append(s.refs, c16Ref{path, x, t})
		}
		s.kinds = append(s.kinds, fmt.Sprintf("path-depth-%d", depth))
	case 3: // leaf conditional on "some entry of a list"
		l := fmt.Sprintf("l%d", n)
		path := []string{l}
		inner := xdef(x)
		if r.Chance(1, 3) {
			d := fmt.Sprintf("d%d", n)
			path = append(path, d)
			inner = "container " + d + " { " + inner + " }"
		}
		e := s.newExpr(r, path, x, t)
		fmt.Fprintf(w, "list %s { key k%d; leaf k%d { type string; } %s }\n%s", l, n, n, inner, ydef(e.text()))
		s.intents = append(s.intents, c16Intent{here(y), 0, []c16Cond{{true, e}}})
		if len(at) == 0 {
			s.refs = append(s.refs, c16Ref{path, x, t})
		}
		s.kinds = append(s.kinds, "list-path")
	case 4: // container conditional on a leaf deeper inside, nested conditions below
		c := fmt.Sprintf("c%d", n)
		d := fmt.Sprintf("d%d", n)
		e := s.newExpr(r, []string{d}, x, t)
		t2 := gen.Pick(r, c16Types)
		v := fmt.Sprintf("v%d", n)
		e2 := s.newExpr(r, nil, v, t2)
		fmt.Fprintf(w, "container %s { when %s; container %s { %s } leaf %s { %s } %s }\n", c, quoteYang(e.text()), d, xdef(x), v, t2.stmt(), ydef(e2.text()))
		s.intents = append(s.intents, c16Intent{here(c), 0, []c16Cond{{false, e}}}, c16Intent{here(c, y), 0, []c16Cond{{true, e2}}})
		s.kinds = append(s.kinds, "nested-when")
	case 5: // when on a list (known finding)
		l := fmt.Sprintf("l%d", n)
		e := s.newExpr(r, nil, x, t)
		fmt.Fprintf(w, "list %s { when %s; key k%d; leaf k%d { type string; } %s }\n", l, quoteYang(e.text()), n, n, xdef(x))
		s.intents = append(s.intents, c16Intent{here(l), 0, []c16Cond{{false, e}}})
		s.kinds = append(s.kinds, "list-when")
	case 6: // operand leaf that is conditional itself (known finding)
		z := fmt.Sprintf("z%d", n)
		e0 := s.newExpr(r, nil, z, c16Types[2])
		e := s.newExpr(r, nil, x, t)
		fmt.Fprintf(w, "leaf %s { type int32; } leaf %s { when %s; %s }\n%s", z, x, quoteYang(e0.text()), t.stmt(), ydef(e.text()))
		s.intents = append(s.intents, c16Intent{here(x), 0, []c16Cond{{true, e0}}}, c16Intent{here(y), 0, []c16Cond{{true, e}}})
		s.kinds = append(s.kinds, "operand-when")
	case 7: // uses with a when (known finding: overwrites the children's own)
		if !top {
			s.block(r, w, at, 0, top)
			return
		}
		g := fmt.Sprintf("g%d", n)
		a, b, gc, q := fmt.Sprintf("a%d", n), fmt.Sprintf("b%d", n), fmt.Sprintf("gc%d", n), fmt.Sprintf("q%d", n)
		e := s.newExpr(r, nil, x, t)
		eq := s.newExpr(r, nil, q, c16Types[2])
		fmt.Fprintf(&s.tail, "grouping %s { leaf %s { when %s; type int32; } leaf %s { type string; } container %s { leaf in%d { type int32; } } }\n", g, a, quoteYang(eq.text()), b, gc, n)
		fmt.Fprintf(w, "%s leaf %s { type int32; }\nuses %s { when %s; }\n", xdef(x), q, g, quoteYang(e.text()))
		s.intents = append(s.intents,
			c16Intent{here(a), 2, []c16Cond{{true, e}, {true, eq}}},
			c16Intent{here(b), 2, []c16Cond{{true, e}}},
			c16Intent{here(gc), 2, []c16Cond{{true, e}}})
		s.kinds = append(s.kinds, "uses-when")
	case 8: // augment with a when (known finding: dropped)
		if !top {
			s.block(r, w, at, 1, top)
			return
		}
		tg := fmt.Sprintf("t%d", n)
		e := s.newExpr(r, nil, x, t)
		fmt.Fprintf(w, "container %s { %s }\n", tg, xdef(x))
		fmt.Fprintf(&s.tail, "augment \"/%s\" { when %s; leaf e%d { type int32; } container f%d { leaf in%d { type string; } } }\n", tg, quoteYang(e.text()), n, n, n)
		s.intents = append(s.intents,
			c16Intent{here(tg, fmt.Sprintf("e%d", n)), 1, []c16Cond{{true, e}}},
			c16Intent{here(tg, fmt.Sprintf("f%d", n)), 1, []c16Cond{{true, e}}})
		s.kinds = append(s.kinds, "augment-when")
	}
}

type c16Module struct {
	yang    string
	m       *meta.Module
	root    *tree.SNode
	sch     *c16Schema
	intents string // Gallina intent
}

func (s *c16Schema) load(extra string) (*c16Module, error) {
	y := "module m {\n  namespace \"urn:m\";\n  prefix m;\n  revision 2020-01-01;\n" + s.body.String() + s.tail.String() + extra + "}\n"
	m, err := parser.LoadModuleFromString(nil, y)
	if err != nil {
		return nil, fmt.Errorf("c16: generated module does not load: %v\n%s", err, y)
	}
	mod := &c16Module{yang: y, m: m, root: tree.Root(m), sch: s}
	it, err := intentTerm(mod.root, s.intents)
	if err != nil {
		return nil, fmt.Errorf("%v\n%s", err, y)
	}
	mod.intents = it
	return mod, nil
}

func intentTerm(root *tree.SNode, intents []c16Intent) (string, error) {
	var items []string
	for _, in := range intents {
		cur := root
		var idx []string
		for _, name := range in.names {
			i := cur.KidIndex(name)
			if i < 0 {
				return "", fmt.Errorf("c16: intent path %v not in the compiled schema", in.names)
			}
			idx = append(idx, emit.Nat(i))
			cur = cur.Kids[i]
		}
		var conds []string
		for _, c := range in.conds {
			conds = append(conds, emit.Pair(emit.Bool(c.inParent), c.e.term()))
		}
		items = append(items, emit.Pair(emit.Pair(emit.List(idx), emit.Nat(in.origin)), emit.List(conds)))
	}
	return emit.List(items), nil
}

// weights of the block kinds: the known-finding kinds are rarer
var c16KindBag = []int{0, 0, 0, 1, 1, 1, 2, 2, 2, 3, 3, 4, 4, 5, 6, 7, 8}

func genC16Module(r *gen.Rng) (*c16Module, error) {
	s := &c16Schema{pools: map[string]*c16Pool{}}
	nb := 1 + r.Intn(3)
	for i := 0; i < nb; i++ {
		s.block(r, &s.body, nil, gen.Pick(r, c16KindBag), true)
	}
	if r.Chance(1, 2) { // blocks inside a container or inside the entries of a list
		n := s.id()
		var inner strings.Builder
		if r.Bool() {
			w := fmt.Sprintf("wc%d", n)
			s.block(r, &inner, []string{w}, gen.Pick(r, c16KindBag), false)
			if r.Bool() {
				s.block(r, &inner, []string{w}, gen.Pick(r, c16KindBag), false)
			}
			fmt.Fprintf(&s.body, "container %s {\n%s}\n", w, inner.String())
		} else {
			w := fmt.Sprintf("wl%d", n)
			s.block(r, &inner, []string{w}, gen.Pick(r, c16KindBag), false)
			fmt.Fprintf(&s.body, "list %s { key rk%d; leaf rk%d { type string; }\n%s}\n", w, n, n, inner.String())
		}
	}
	return s.load("")
}

// ---- data ------------------------------------------------------------------------------------------

func c16Value(l meta.Leafable, x interface{}) val.Value {
	if s, ok := x.(string); ok && l.Type().Format() != val.FmtString && l.Type().Format() != val.FmtEnum {
		// integers travel as decimal text so that the whole uint64 range is expressible
		if l.Type().Format() == val.FmtUInt64 {
			u, _ := strconv.ParseUint(s, 10, 64)
			x = u
		} else {
			i, _ := strconv.ParseInt(s, 10, 64)
			x = i
		}
	}
	v, err := node.NewValue(l.Type(), x)
	if err != nil || v == nil {
		panic(fmt.Sprintf("c16: cannot build %v (%T) for %s: %v", x, x, l.Ident(), err))
	}
	return v
}

// setOperands overwrites the operand leaves of c (recursively) with pool values or leaves them unset
func setOperands(r *gen.Rng, s *tree.SNode, c *tree.Cont, pools map[string]*c16Pool, unsetPct int) {
	for _, kid := range s.Kids {
		switch kid.Kind {
		case tree.KLeaf:
			p, ok := pools[kid.Name]
			if !ok || kid.IsList {
				continue
			}
			if r.Chance(unsetPct, 100) {
				delete(c.Leaves, kid.Name)
			} else {
				c.Leaves[kid.Name] = c16Value(kid.Leafable(), gen.Pick(r, p.vals))
			}
		case tree.KCont:
			if sub, ok := c.Conts[kid.Name]; ok {
				setOperands(r, kid, sub, pools, unsetPct)
			}
		case tree.KList:
			if l, ok := c.Lists[kid.Name]; ok {
				for _, row := range l.Rows {
					setOperands(r, kid, row, pools, unsetPct)
				}
			}
		}
	}
}

func genC16Data(r *gen.Rng, mod *c16Module) *tree.Cont {
	c := tree.GenData(r, mod.root, 85, 3)
	setOperands(r, mod.root, c, mod.sch.pools, 25)
	return c
}

// ---- observations --------------------------------------------------------------------------------

func c16Export(mod *c16Module, data *tree.Cont) (obs, desc string) {
	capture := tree.NewCont()
	var err error
	panicked := ""
	func() {
		defer func() {
			if p := recover(); p != nil {
				panicked = fmt.Sprint(p)
			}
		}()
		b := node.NewBrowser(mod.m, data.Node(mod.root, nil, ""))
		err = b.Root().UpsertInto(capture.Node(mod.root, nil, ""))
	}()
	switch {
	case panicked != "":
		return "OPanic", "panic: " + panicked
	case err != nil:
		return "OErr", "error: " + err.Error()
	}
	return emit.App("OOk", capture.ContentTerm(mod.root)), capture.Desc(mod.root)
}

func c16Eval(mod *c16Module, data *tree.Cont, expr string) (obs, desc string) {
	res := false
	var err error
	panicked := ""
	func() {
		defer func() {
			if p := recover(); p != nil {
				panicked = fmt.Sprint(p)
			}
		}()
		var p *xpath.Path
		if p, err = xpath.Parse(expr); err != nil {
			return
		}
		b := node.NewBrowser(mod.m, data.Node(mod.root, nil, ""))
		res, err = b.Root().XPredicate(p)
	}()
	switch {
	case panicked != "":
		return "EPanic", "panic: " + panicked
	case err != nil:
		return "EErr", "error: " + err.Error()
	}
	return emit.App("EBool", emit.Bool(res)), fmt.Sprint(res)
}

func floatTerm(f float64) (string, string) {
	if f == 0 || math.IsInf(f, 0) || math.IsNaN(f) {
		return "0", "0"
	}
	fr, exp := math.Frexp(f)
	m := int64(fr * (1 << 53))
	return emit.Z(m), emit.Z(int64(exp - 53))
}

func c16Parse(s string) (obs, desc string) {
	var p *xpath.Path
	var err error
	panicked := ""
	func() {
		defer func() {
			if x := recover(); x != nil {
				panicked = fmt.Sprint(x)
			}
		}()
		p, err = xpath.Parse(s)
	}()
	switch {
	case panicked != "":
		return "OPPanic", "panic: " + panicked
	case err != nil:
		return "OPErr", "error: " + err.Error()
	}
	var segs, d []string
	for q := p; q != nil; q = q.Next {
		ex := "None"
		ds := q.Ident
		if q.Module != "" {
			ds = q.Module + ":" + ds
		}
		if q.Expr != nil {
			o := q.Expr.(*xpath.Operator)
			opTerm := "OEq"
			for _, op := range c16Ops {
				if op.text == o.Oper {
					opTerm = op.term
				}
			}
			lit := ""
			switch x := o.Lhs.(type) {
			case int64:
				lit = emit.App("OInt", emit.Z(x))
			case float64:
				m, e := floatTerm(x)
				lit = emit.App("OFloat", m, e)
			case string:
				lit = emit.App("OStr", emit.Str(x))
			default:
				lit = emit.App("OStr", emit.Str(fmt.Sprintf("?%T", x)))
			}
			ex = emit.Some(emit.Pair(opTerm, lit))
			ds += fmt.Sprintf(" %s %T(%v)", o.Oper, o.Lhs, o.Lhs)
		}
		segs = append(segs, emit.Pair(emit.Str(q.Ident), ex))
		d = append(d, ds)
	}
	return emit.App("OPOk", emit.List(segs)), strings.Join(d, " / ")
}

// ---- case streams --------------------------------------------------------------------------------

func c16ParseCases(ctx *core.Ctx, r *gen.Rng, count int) {
	names := []string{"a", "b", "leaf-1", "x_y", "n.m", "A9", "list", "c0", "and", "7up"}
	alphabet := []byte("ab/:=!<>'. 1-_$3\t")
	for i := 0; i < count; i++ {
		t := gen.Pick(r, c16Types)
		lit, _ := t.genLit(r)
		e := c16Expr{leaf: gen.Pick(r, names), op: r.Intn(len(c16Ops)), lit: lit, ws: r.Intn(8)}
		for d := r.Intn(4); d > 0; d-- {
			e.path = append(e.path, gen.Pick(r, names))
		}
		s := e.text()
		want := emit.Some(e.pathTerm())
		kind := "well-formed"
		if r.Chance(2, 5) { // damage the text: the model alone says what must come out
			b := []byte(s)
			for k := 1 + r.Intn(3); k > 0 && len(b) > 0; k-- {
				pos := r.Intn(len(b))
				switch r.Intn(3) {
				case 0:
					b = append(b[:pos], b[pos+1:]...)
				case 1:
					b = append(b[:pos], append([]byte{gen.Pick(r, alphabet)}, b[pos:]...)...)
				default:
					b[pos] = gen.Pick(r, alphabet)
				}
			}
			s, want, kind = string(b), "None", "damaged"
		} else if r.Chance(1, 10) {
			s = strings.Repeat("a/", 255+r.Intn(3)) + s // the parser's stack holds 256 paths
			want, kind = "None", "long"
		}
		obs, od := c16Parse(s)
		ctx.Add(emit.App("CParse", emit.Str(s), want, obs), map[string]interface{}{"kind": "parse", "text": s, "observed": od}, kind == "well-formed")
		ctx.Count("parse:" + kind)
		ctx.Count("parse-result:" + strings.SplitN(strings.Trim(obs, "("), " ", 2)[0])
	}
}

func c16TreeCases(ctx *core.Ctx, r *gen.Rng, count int) error {
	for n := 0; n < count; n++ {
		mod, err := genC16Module(r.Fork(uint64(n)))
		if err != nil {
			return err
		}
		dr := r.Fork(uint64(5000 + n))
		for k := 0; k < 3; k++ {
			data := genC16Data(dr, mod)
			obs, od := c16Export(mod, data)
			ctx.Add(emit.App("CExport", mod.root.KidsTerm(), data.ContentTerm(mod.root), mod.intents, obs),
				map[string]interface{}{"kind": "export", "yang": mod.yang, "data": data.Desc(mod.root), "observed": od}, true)
			for _, kd := range mod.sch.kinds {
				ctx.Count("export-block:" + kd)
			}
			ctx.Count("export-result:" + strings.SplitN(strings.Trim(obs, "("), " ", 2)[0])
			// free comparisons on the operands reachable from the root
			for _, ref := range mod.sch.refs {
				lit, _ := ref.t.genLit(dr)
				e := c16Expr{path: ref.path, leaf: ref.leaf, op: dr.Intn(len(c16Ops)), lit: lit, ws: dr.Intn(6)}
				eo, ed := c16Eval(mod, data, e.text())
				ctx.Add(emit.App("CEval", mod.root.KidsTerm(), data.ContentTerm(mod.root), emit.Str(e.text()), emit.Some(e.term()), eo),
					map[string]interface{}{"kind": "eval", "yang": mod.yang, "data": data.Desc(mod.root), "expr": e.text(), "observed": ed}, true)
				ctx.Count("eval-type:" + ref.t.name)
				ctx.Count("eval-op:" + c16Ops[e.op].text)
				ctx.Count("eval-result:" + strings.SplitN(strings.Trim(eo, "("), " ", 2)[0])
			}
		}
	}
	return nil
}

// one operand type x every operator x values at / around the literal and unset, as one flat module
func c16MatrixCases(ctx *core.Ctx, r *gen.Rng, perType int) error {
	for _, t := range c16Types {
		s := &c16Schema{pools: map[string]*c16Pool{}}
		fmt.Fprintf(&s.body, "leaf x { %s }\n", t.stmt())
		mod, err := s.load("")
		if err != nil {
			return err
		}
		for i := 0; i < perType; i++ {
			lit, pool := t.genLit(r)
			for op := range c16Ops {
				e := c16Expr{leaf: "x", op: op, lit: lit, ws: r.Intn(4)}
				data := tree.NewCont()
				if pick := r.Intn(len(pool) + 2); pick < len(pool) {
					data.Leaves["x"] = c16Value(mod.root.Kids[0].Leafable(), pool[pick])
				} else if pick == len(pool) && len(pool) > 1 {
					data.Leaves["x"] = c16Value(mod.root.Kids[0].Leafable(), pool[1])
				}
				eo, ed := c16Eval(mod, data, e.text())
				ctx.Add(emit.App("CEval", mod.root.KidsTerm(), data.ContentTerm(mod.root), emit.Str(e.text()), emit.Some(e.term()), eo),
					map[string]interface{}{"kind": "eval", "yang": mod.yang, "data": data.Desc(mod.root), "expr": e.text(), "observed": ed}, true)
				ctx.Count("eval-type:" + t.name)
				ctx.Count("eval-op:" + c16Ops[op].text)
				if len(data.Leaves) == 0 {
					ctx.Count("eval-operand:unset")
				}
				ctx.Count("eval-result:" + strings.SplitN(strings.Trim(eo, "("), " ", 2)[0])
			}
		}
	}
	return nil
}

func rowsTerm(s *tree.SNode, l *tree.List) string {
	items := make([]string, len(l.Rows))
	for i, row := range l.Rows {
		items[i] = emit.App("DCont", row.ContentTerm(s))
	}
	return emit.List(items)
}

// ?where= on a list (top level or nested), expressions over a leaf, a leaf in a container, a leaf of a nested list
func c16WhereCases(ctx *core.Ctx, r *gen.Rng, count int) error {
	for n := 0; n < count; n++ {
		t := gen.Pick(r, c16Types)
		t2 := gen.Pick(r, c16Types)
		s := &c16Schema{pools: map[string]*c16Pool{}}
		var e c16Expr
		shape := r.Intn(4)
		nested := r.Chance(1, 3) // the base list is an inner list
		switch shape {
		case 0:
			e = s.newExpr(r, nil, "x", t)
		case 1:
			e = s.newExpr(r, []string{"c"}, "x2", t)
		case 2:
			e = s.newExpr(r, []string{"m"}, "x3", t)
		default:
			e = s.newExpr(r, []string{"c", "cc"}, "x4", t)
		}
		e2 := s.newExpr(r, nil, "v", t2)
		inner := fmt.Sprintf(`key k; leaf k { type string; } leaf x { %s } container c { leaf x2 { %s } container cc { leaf x4 { %s } } }
 list m { key j; leaf j { type string; } leaf x3 { %s } } leaf v { %s } leaf y { when %s; type int32; default 7; }`,
			t.stmt(), t.stmt(), t.stmt(), t.stmt(), t2.stmt(), quoteYang(e2.text()))
		var lnames []string
		if nested {
			fmt.Fprintf(&s.body, "list o { key ok; leaf ok { type string; } list l { %s } }\n", inner)
			lnames = []string{"o", "l"}
		} else {
			fmt.Fprintf(&s.body, "list l { %s }\n", inner)
			lnames = []string{"l"}
		}
		mod, err := s.load("")
		if err != nil {
			return err
		}
		ls := mod.root
		for _, nm := range lnames {
			ls = ls.Kids[ls.KidIndex(nm)]
		}
		it, err := intentTerm(ls, []c16Intent{{[]string{"y"}, 0, []c16Cond{{true, e2}}}})
		if err != nil {
			return err
		}
		for k := 0; k < 2; k++ {
			data := tree.GenData(r, mod.root, 90, 4)
			setOperands(r, mod.root, data, s.pools, 25)
			holder, find := data, "l"
			if nested {
				ol := data.Lists["o"]
				if ol == nil || len(ol.Rows) == 0 {
					continue
				}
				holder = ol.Rows[r.Intn(len(ol.Rows))]
				key := holder.Leaves["ok"].String()
				if key == "" || strings.ContainsAny(key, "/,=%+ ?#&ü") {
					continue
				}
				find = "o=" + key + "/l"
			}
			src := holder.Lists["l"]
			if src == nil {
				continue
			}
			expr := e.text()
			capture := &tree.List{}
			var ferr error
			panicked := ""
			func() {
				defer func() {
					if p := recover(); p != nil {
						panicked = fmt.Sprint(p)
					}
				}()
				b := node.NewBrowser(mod.m, data.Node(mod.root, nil, ""))
				var sel *node.Selection
				sel, ferr = b.Root().Find(find + "?where=" + url.QueryEscape(expr))
				if ferr != nil {
					return
				}
				if sel == nil {
					ferr = fmt.Errorf("list not found")
					return
				}
				ferr = sel.UpsertInto(capture.Node(ls, nil, find))
			}()
			obs, od := "", ""
			switch {
			case panicked != "":
				obs, od = "LPanic", "panic: "+panicked
			case ferr != nil:
				obs, od = "LErr", "error: "+ferr.Error()
			default:
				obs, od = emit.App("LOk", rowsTerm(ls, capture)), listDesc(ls, capture)
			}
			ctx.Add(emit.App("CWhere", ls.KidsTerm(), rowsTerm(ls, src), emit.Str(expr), emit.Some(e.term()), it, obs),
				map[string]interface{}{"kind": "where", "yang": mod.yang, "find": find, "where": expr, "rows": listDesc(ls, src), "observed": od}, len(src.Rows) > 0)
			ctx.Count(fmt.Sprintf("where-shape:%d nested=%v", shape, nested))
			ctx.Count("where-type:" + t.name)
			ctx.Count(fmt.Sprintf("where-kept:%d/%d", len(capture.Rows), len(src.Rows)))
		}
	}
	return nil
}

// ?filter= on a notification stream: the harness node sends one event per generated content
func c16FilterCases(ctx *core.Ctx, r *gen.Rng, count int) error {
	for n := 0; n < count; n++ {
		t := gen.Pick(r, c16Types)
		s := &c16Schema{pools: map[string]*c16Pool{}}
		var e c16Expr
		switch r.Intn(3) {
		case 0:
			e = s.newExpr(r, nil, "x", t)
		case 1:
			e = s.newExpr(r, []string{"c"}, "x2", t)
		default:
			e = s.newExpr(r, []string{"m"}, "x3", t)
		}
		fmt.Fprintf(&s.tail, `grouping ev { leaf x { %s } container c { leaf x2 { %s } } list m { key j; leaf j { type string; } leaf x3 { %s } } leaf note { type string; } }
 container shape { uses ev; } notification alert { uses ev; }
`, t.stmt(), t.stmt(), t.stmt())
		mod, err := s.load("")
		if err != nil {
			return err
		}
		shape := mod.root.Kids[mod.root.KidIndex("shape")]
		var events []*tree.Cont
		for i := 0; i < 6; i++ {
			ev := tree.GenData(r, shape, 85, 3)
			setOperands(r, shape, ev, s.pools, 25)
			events = append(events, ev)
		}
		expr := e.text()
		codes := make([]int, len(events))
		var ferr error
		cur := 0
		root := &nodeutil.Basic{
			OnNotify: func(nr node.NotifyRequest) (node.NotifyCloser, error) {
				for i, ev := range events {
					cur = i
					func() {
						defer func() {
							if p := recover(); p != nil {
								codes[i] = 3
							}
						}()
						nr.Send(ev.Node(shape, nil, "alert"))
					}()
				}
				return func() error { return nil }, nil
			},
		}
		func() {
			defer func() {
				if p := recover(); p != nil {
					ferr = fmt.Errorf("panic: %v", p)
				}
			}()
			b := node.NewBrowser(mod.m, root)
			var sel *node.Selection
			sel, ferr = b.Root().Find("alert?filter=" + url.QueryEscape(expr))
			if ferr != nil || sel == nil {
				if ferr == nil {
					ferr = fmt.Errorf("notification not found")
				}
				return
			}
			_, ferr = sel.Notifications(func(nt node.Notification) {
				if _, isErr := nt.Event.Node.(node.ErrorNode); isErr {
					codes[cur] = 2
				} else {
					codes[cur] = 1
				}
			})
		}()
		if ferr != nil {
			// the filter expression did not parse: every event is reported as an error, as the model does
			for i := range codes {
				codes[i] = 2
			}
		}
		var evTerms, evDescs, codeTerms []string
		for i, ev := range events {
			evTerms = append(evTerms, ev.ContentTerm(shape))
			evDescs = append(evDescs, ev.Desc(shape))
			codeTerms = append(codeTerms, emit.Z(int64(codes[i])))
		}
		ctx.Add(emit.App("CFilter", shape.KidsTerm(), emit.List(evTerms), emit.Str(expr), emit.Some(e.term()), emit.List(codeTerms)),
			map[string]interface{}{"kind": "filter", "yang": mod.yang, "filter": expr, "events": evDescs, "delivered": codes}, true)
		ctx.Count("filter-type:" + t.name)
		for _, c := range codes {
			ctx.Count(fmt.Sprintf("filter-code:%d", c))
		}
	}
	return nil
}

// writer side: UpsertFrom on a browser whose data satisfies / does not satisfy the conditions
func c16EditCases(ctx *core.Ctx, r *gen.Rng, count int) error {
	for n := 0; n < count; n++ {
		s := &c16Schema{pools: map[string]*c16Pool{}}
		nb := 1 + r.Intn(3)
		for i := 0; i < nb; i++ {
			s.block(r, &s.body, nil, gen.Pick(r, []int{0, 0, 0, 0, 2, 2, 3, 1, 4, 5}), true)
		}
		mod, err := s.load("")
		if err != nil {
			return err
		}
		for k := 0; k < 2; k++ {
			tgt := tree.GenData(r, mod.root, 70, 2)
			setOperands(r, mod.root, tgt, s.pools, 25)
			src := tree.GenData(r, mod.root, 70, 2)
			if r.Chance(3, 4) { // usually the edit does not touch the operands of the conditions
				stripOperands(mod.root, src, s.pools)
			} else {
				setOperands(r, mod.root, src, s.pools, 50)
			}
			srcTerm, tgtTerm := src.ContentTerm(mod.root), tgt.ContentTerm(mod.root)
			srcDesc, tgtDesc := src.Desc(mod.root), tgt.Desc(mod.root)
			var eerr error
			panicked := ""
			func() {
				defer func() {
					if p := recover(); p != nil {
						panicked = fmt.Sprint(p)
					}
				}()
				b := node.NewBrowser(mod.m, tgt.Node(mod.root, nil, ""))
				eerr = b.Root().UpsertFrom(src.Node(mod.root, nil, ""))
			}()
			obs, od := "", ""
			switch {
			case panicked != "":
				obs, od = "OPanic", "panic: "+panicked
			case eerr != nil:
				obs, od = "OErr", "error: "+eerr.Error()
			default:
				obs, od = emit.App("OOk", tgt.ContentTerm(mod.root)), tgt.Desc(mod.root)
			}
			ctx.Add(emit.App("CEdit", mod.root.KidsTerm(), srcTerm, tgtTerm, mod.intents, obs),
				map[string]interface{}{"kind": "edit", "yang": mod.yang, "source": srcDesc, "target_before": tgtDesc, "observed": od}, src.Size() > 0)
			ctx.Count("edit-result:" + strings.SplitN(strings.Trim(obs, "("), " ", 2)[0])
		}
	}
	return nil
}

func stripOperands(s *tree.SNode, c *tree.Cont, pools map[string]*c16Pool) {
	for _, kid := range s.Kids {
		switch kid.Kind {
		case tree.KLeaf:
			if _, ok := pools[kid.Name]; ok {
				delete(c.Leaves, kid.Name)
			}
		case tree.KCont:
			if sub, ok := c.Conts[kid.Name]; ok {
				stripOperands(kid, sub, pools)
			}
		case tree.KList:
			if l, ok := c.Lists[kid.Name]; ok {
				for _, row := range l.Rows {
					stripOperands(kid, row, pools)
				}
			}
		}
	}
}

// C16: when, where and filter hide exactly what their expression excludes.
func C16(ctx *core.Ctx) error {
	ctx.Imports = "Val.Model Tree.Schema Tree.Editor Tree.XPathLex Tree.When Tree.WhenSpec Check.C16Check"
	ctx.Rule = "parse: name(/name)* op literal texts over 12 operand types (bare / quoted / fractional / negative / out-of-range / ill-typed literals, whitespace variants), 40% damaged byte-wise, some beyond the 256-path stack; eval: XPredicate at the root for every operand type x every operator x operand at / next to the literal / at the type's bounds / unset, through 0-3 containers and through lists; export: hand-built modules of 1-5 blocks placing 'when' on leaves, containers, lists, inside containers and list entries, on uses and augment (+ defaults on conditional and operand leaves), 3 data trees each; where: ?where= on top-level and nested lists with paths into containers and inner lists; filter: 6 events per subscription; edit: UpsertFrom on targets that do / do not satisfy the conditions. distinct = SHA-256 of the case term; non-trivial = well-formed text / any tree case with data"
	r := gen.New(ctx.Seed)
	c16ParseCases(ctx, r.Fork(1), ctx.Scale(90, 2500))
	if err := c16MatrixCases(ctx, r.Fork(2), ctx.Scale(2, 40)); err != nil {
		return err
	}
	if err := c16TreeCases(ctx, r.Fork(3), ctx.Scale(26, 700)); err != nil {
		return err
	}
	if err := c16WhereCases(ctx, r.Fork(4), ctx.Scale(16, 500)); err != nil {
		return err
	}
	if err := c16FilterCases(ctx, r.Fork(5), ctx.Scale(8, 250)); err != nil {
		return err
	}
	return c16EditCases(ctx, r.Fork(6), ctx.Scale(16, 500))
}
