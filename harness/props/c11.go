package props

import (
	"fmt"
	"math/big"
	"strings"
	"time"

	"github.com/freeconf/yang/meta"

	"yvh/core"
	"yvh/emit"
	"yvh/gen"
)

func init() { Registry["C11"] = C11 }

// ---- driving the real evaluator ----------------------------------------------------------------

// codes: 0 false, 1 true, 2 error, 3 panic or timeout
func c11EvalDirect(expr string, enabled map[string]*meta.Feature) (code int) {
	defer func() {
		if r := recover(); r != nil {
			code = 3
		}
	}()
	b := &meta.Builder{}
	iff := b.IfFeature(&meta.Leaf{}, expr)
	v, err := iff.Evaluate(enabled)
	if err != nil {
		return 2
	}
	if v {
		return 1
	}
	return 0
}

var c11Timeouts int

// subsets in the order of Check/C11Check.v [subsets]: for [a;b;c] index = a*4+b*2+c
func c11Assignments(feats []string) []map[string]*meta.Feature {
	n := len(feats)
	res := make([]map[string]*meta.Feature, 0, 1<<n)
	for mask := 0; mask < 1<<n; mask++ {
		m := map[string]*meta.Feature{}
		for i, f := range feats {
			if (mask>>(n-1-i))&1 == 1 {
				m[f] = &meta.Feature{}
			}
		}
		res = append(res, m)
	}
	return res
}

// c11EvalAll evaluates expr under every assignment, in a goroutine guarded by a timeout (a broken
// evaluator may loop); after 4 timeouts nothing more is run and everything is reported as 3.
func c11EvalAll(expr string, asg []map[string]*meta.Feature) []int {
	out := make([]int, len(asg))
	if c11Timeouts >= 4 {
		for i := range out {
			out[i] = 3
		}
		return out
	}
	ch := make(chan []int, 1)
	go func() {
		r := make([]int, len(asg))
		for i, en := range asg {
			r[i] = c11EvalDirect(expr, en)
		}
		ch <- r
	}()
	t := time.NewTimer(3 * time.Second)
	defer t.Stop()
	select {
	case r := <-ch:
		return r
	case <-t.C:
		c11Timeouts++
		for i := range out {
			out[i] = 3
		}
		return out
	}
}

// ---- tokens ------------------------------------------------------------------------------------

var c11Alphabet = []string{"a", "b", "c", "not", "and", "or", "(", ")"}
var c11ABC = []string{"a", "b", "c"}

// reference evaluation used ONLY to select which elements of a big table to expand (Coq classifies):
// split at the loosest operator outside parentheses. ok=false: not an expression.
func c11Ref(ts []string, en map[string]bool) (val bool, ok bool) {
	find := func(op string) int {
		d := 0
		for i, t := range ts {
			switch t {
			case "(":
				d++
			case ")":
				if d == 0 {
					return -1
				}
				d--
			default:
				if d == 0 && t == op {
					return i
				}
			}
		}
		return -1
	}
	if i := find("or"); i >= 0 {
		a, ok1 := c11Ref(ts[:i], en)
		b, ok2 := c11Ref(ts[i+1:], en)
		return a || b, ok1 && ok2
	}
	if i := find("and"); i >= 0 {
		a, ok1 := c11Ref(ts[:i], en)
		b, ok2 := c11Ref(ts[i+1:], en)
		return a && b, ok1 && ok2
	}
	if len(ts) == 0 {
		return false, false
	}
	switch ts[0] {
	case "not":
		v, ok := c11Ref(ts[1:], en)
		return !v, ok
	case "(":
		if ts[len(ts)-1] != ")" {
			return false, false
		}
		return c11Ref(ts[1:len(ts)-1], en)
	case ")", "and", "or":
		return false, false
	}
	if len(ts) != 1 {
		return false, false
	}
	return en[ts[0]], true
}

func c11RefCodes(ts []string, feats []string) []int {
	n := len(feats)
	out := make([]int, 1<<n)
	for mask := 0; mask < 1<<n; mask++ {
		en := map[string]bool{}
		for i, f := range feats {
			if (mask>>(n-1-i))&1 == 1 {
				en[f] = true
			}
		}
		v, ok := c11Ref(ts, en)
		switch {
		case !ok:
			out[mask] = 2
		case v:
			out[mask] = 1
		}
	}
	return out
}

func c11Pack(codes []int) string {
	var ws []string
	for i := 0; i < len(codes); i += 16 {
		var w uint64
		for j := 0; j < 16 && i+j < len(codes); j++ {
			w |= uint64(codes[i+j]&3) << (2 * uint(j))
		}
		ws = append(ws, emit.ZU(w))
	}
	return emit.List(ws)
}

func c11StrList(xs []string) string {
	ts := make([]string, len(xs))
	for i, x := range xs {
		ts[i] = emit.Str(x)
	}
	return emit.List(ts)
}

func c11Codes(codes []int) string {
	ts := make([]string, len(codes))
	for i, c := range codes {
		ts[i] = emit.Z(int64(c))
	}
	return emit.List(ts)
}

func c11TextCase(ctx *core.Ctx, text string, feats []string, why string) {
	obs := c11EvalAll(text, c11Assignments(feats))
	ctx.Add(emit.App("CText", emit.Str(text), c11StrList(feats), c11Codes(obs)),
		map[string]interface{}{"kind": "text", "expression": text, "features": feats, "why": why,
			"observed": obs, "codes": "per assignment (subset order, first feature most significant): 0 false / 1 true / 2 error / 3 panic or timeout"}, true)
	ctx.Count("text:" + why)
}

// table of token sequences; on explode emits the elements (those the reference disagrees on first)
func c11SeqTable(ctx *core.Ctx, myIdx int, name string, seqs [][]string, term func(packed string) string) {
	asg := c11Assignments(c11ABC)
	all := make([]int, 0, len(seqs)*8)
	type el struct {
		text string
		bad  bool
	}
	var els []el
	for _, ts := range seqs {
		text := strings.Join(ts, " ")
		obs := c11EvalAll(text, asg)
		all = append(all, obs...)
		if ctx.Explode == myIdx {
			ref := c11RefCodes(ts, c11ABC)
			bad := false
			for i := range ref {
				if ref[i] != obs[i] {
					bad = true
				}
			}
			els = append(els, el{text, bad})
		}
	}
	if ctx.Explode == myIdx {
		count := 0
		for pass := 0; pass < 2; pass++ {
			for _, e := range els {
				if count >= 400 {
					break
				}
				if (pass == 0) == e.bad {
					c11TextCase(ctx, e.text, c11ABC, "element of table "+name)
					count++
				}
			}
		}
		return
	}
	ctx.Add(term(c11Pack(all)),
		map[string]interface{}{"kind": "table", "table": name, "sequences": len(seqs), "evaluations": len(all)}, len(seqs) > 1)
	ctx.Hist["evaluations:"+name] += len(all)
}

func c11AllSeqs(n int) [][]string {
	if n == 0 {
		return [][]string{{}}
	}
	sub := c11AllSeqs(n - 1)
	var res [][]string
	for _, t := range c11Alphabet {
		for _, s := range sub {
			res = append(res, append([]string{t}, s...))
		}
	}
	return res
}

// grammatical token sequences of exactly n tokens (unambiguous right-recursive grammar)
type c11Enum struct{ e, t, f map[int][][]string }

func (g *c11Enum) F(n int) [][]string {
	if n <= 0 {
		return nil
	}
	if r, ok := g.f[n]; ok {
		return r
	}
	var res [][]string
	if n == 1 {
		for _, id := range c11ABC {
			res = append(res, []string{id})
		}
	}
	for _, s := range g.F(n - 1) {
		res = append(res, append([]string{"not"}, s...))
	}
	for _, s := range g.E(n - 2) {
		x := append([]string{"("}, s...)
		res = append(res, append(x, ")"))
	}
	g.f[n] = res
	return res
}

func c11Cat(a []string, op string, b []string) []string {
	r := make([]string, 0, len(a)+1+len(b))
	r = append(r, a...)
	r = append(r, op)
	return append(r, b...)
}

func (g *c11Enum) T(n int) [][]string {
	if n <= 0 {
		return nil
	}
	if r, ok := g.t[n]; ok {
		return r
	}
	res := append([][]string{}, g.F(n)...)
	for k := 1; k < n-1; k++ {
		for _, a := range g.F(k) {
			for _, b := range g.T(n - 1 - k) {
				res = append(res, c11Cat(a, "and", b))
			}
		}
	}
	g.t[n] = res
	return res
}

func (g *c11Enum) E(n int) [][]string {
	if n <= 0 {
		return nil
	}
	if r, ok := g.e[n]; ok {
		return r
	}
	res := append([][]string{}, g.T(n)...)
	for k := 1; k < n-1; k++ {
		for _, a := range g.T(k) {
			for _, b := range g.E(n - 1 - k) {
				res = append(res, c11Cat(a, "or", b))
			}
		}
	}
	g.e[n] = res
	return res
}

func c11SeqNumber(ts []string) string {
	z := new(big.Int)
	nine := big.NewInt(9)
	for _, t := range ts {
		d := 0
		for i, a := range c11Alphabet {
			if a == t {
				d = i + 1
			}
		}
		z.Mul(z, nine)
		z.Add(z, big.NewInt(int64(d)))
	}
	return emit.ZBig(z)
}

// ---- random written expressions ----------------------------------------------------------------

type c11Expr struct {
	op   string // id | not | and | or
	id   string
	a, b *c11Expr
}

func c11RandExpr(r *gen.Rng, depth int, names []string) *c11Expr {
	if depth <= 0 || r.Chance(1, 4) {
		return &c11Expr{op: "id", id: gen.Pick(r, names)}
	}
	switch r.Intn(5) {
	case 0:
		return &c11Expr{op: "not", a: c11RandExpr(r, depth-1, names)}
	case 1, 2:
		return &c11Expr{op: "and", a: c11RandExpr(r, depth-1, names), b: c11RandExpr(r, depth-1, names)}
	default:
		return &c11Expr{op: "or", a: c11RandExpr(r, depth-1, names), b: c11RandExpr(r, depth-1, names)}
	}
}

var c11Seps = []string{" ", " ", " ", "  ", "\t", "\n", "\r\n", " \n   ", "   "}
var c11Pads = []string{"", "", "", " ", "  ", "\n", "\t "}

// written form: Gallina cst term, its text, its level (0 or, 1 and, 2 factor)
type c11Written struct {
	term, text string
	lvl        int
}

func c11Paren(r *gen.Rng, w c11Written) c11Written {
	p1, p2 := gen.Pick(r, c11Pads), gen.Pick(r, c11Pads)
	return c11Written{emit.App("CParen", emit.Str(p1), emit.Str(p2), w.term), "(" + p1 + w.text + p2 + ")", 2}
}

func c11AtLeast(r *gen.Rng, l int, w c11Written) c11Written {
	if w.lvl < l {
		return c11Paren(r, w)
	}
	return w
}

func c11Write(r *gen.Rng, x *c11Expr, redundant int) c11Written {
	var w c11Written
	switch x.op {
	case "id":
		w = c11Written{emit.App("CId", emit.Str(x.id)), x.id, 2}
	case "not":
		a := c11AtLeast(r, 2, c11Write(r, x.a, redundant))
		s := gen.Pick(r, c11Seps)
		w = c11Written{emit.App("CNot", emit.Str(s), a.term), "not" + s + a.text, 2}
	case "and", "or":
		min := 1
		ctor := "CAnd"
		lvl := 1
		if x.op == "or" {
			min, ctor, lvl = 0, "COr", 0
		}
		a := c11AtLeast(r, min, c11Write(r, x.a, redundant))
		b := c11AtLeast(r, min, c11Write(r, x.b, redundant))
		s1, s2 := gen.Pick(r, c11Seps), gen.Pick(r, c11Seps)
		w = c11Written{emit.App(ctor, a.term, emit.Str(s1), emit.Str(s2), b.term), a.text + s1 + x.op + s2 + b.text, lvl}
	}
	for r.Intn(100) < redundant {
		w = c11Paren(r, w)
	}
	return w
}

func (x *c11Expr) String() string {
	switch x.op {
	case "id":
		return x.id
	case "not":
		return "Not(" + x.a.String() + ")"
	case "and":
		return "And(" + x.a.String() + "," + x.b.String() + ")"
	}
	return "Or(" + x.a.String() + "," + x.b.String() + ")"
}

type c11NameSet struct{ feats, pool []string }

var c11Names = []c11NameSet{
	{[]string{"a", "b", "c"}, []string{"a", "b", "c", "zz"}},
	{[]string{"a", "b", "c", "d"}, []string{"a", "b", "c", "d", "zz"}},
	{[]string{"foo", "bar", "baz"}, []string{"foo", "bar", "baz", "fo"}},
	{[]string{"feature-one", "f2", "x_y.z"}, []string{"feature-one", "f2", "x_y.z", "feature-on"}},
	{[]string{"nota", "android", "ore", "an"}, []string{"nota", "android", "ore", "an", "no"}}, // keywords as prefixes of names
	{[]string{"a", "b", "c"}, []string{"p:a", "b", "q:c", "p:zz", "x:y:a", ":b", "c:"}},        // prefixed names
	{[]string{"A", "Not", "AND"}, []string{"A", "Not", "AND", "a"}},                            // keywords are case sensitive
}

// C11 part (i): the if-feature evaluator. Parts (ii)/(iii) are in c11_guard.go / c11_deviate.go.
func C11(ctx *core.Ctx) error {
	ctx.Imports = "Feature.IfFeature Feature.Guard Feature.GuardTree Feature.Deviate Check.C11Check"
	ctx.ShardMax = 100000
	ctx.Rule = "evaluator: every token sequence of length 0..L over {a,b,c,not,and,or,(,)} (L=5 quick, 6 thorough) and every grammatical sequence up to G tokens (G=7 quick, 9 thorough), each under all 8 assignments of a,b,c, through meta.IfFeature.Evaluate; random written expressions (depth<=6, random separators blank/tab/line break, redundant parentheses, either nesting) under all assignments of their 3-4 features; malformed texts (token deletion/insertion/duplication, byte soup, keywords touching parentheses). guard presence: generated modules with one guarded statement of every kind, and whole modules with guarded statements at every depth (containers, lists, choices, cases, groupings and uses with refines and augments, module-level augments, rpc/action input and output, notifications), under all-on / allow-list / deny-list configurations; deviations: every deviate kind x property x node kind. distinct = by SHA-256 of the case term; non-trivial = table with >1 sequence, or a single text / module"
	r := gen.New(ctx.Seed)
	idx := 0
	// exhaustive: all sequences
	maxAll := ctx.Scale(5, 6)
	for n := 0; n <= maxAll; n++ {
		n := n
		if n >= 5 {
			// big table: one slice per first token (classified in parallel)
			sub := c11AllSeqs(n - 1)
			for f, t := range c11Alphabet {
				f := f
				seqs := make([][]string, len(sub))
				for i, s := range sub {
					seqs[i] = append([]string{t}, s...)
				}
				c11SeqTable(ctx, idx, fmt.Sprintf("all sequences of %d tokens starting with %q", n, t), seqs,
					func(packed string) string { return emit.App("CTokAllFrom", emit.Nat(f), emit.Nat(n-1), packed) })
				idx++
			}
			continue
		}
		c11SeqTable(ctx, idx, fmt.Sprintf("all sequences of %d tokens", n), c11AllSeqs(n),
			func(packed string) string { return emit.App("CTokAll", emit.Nat(n), packed) })
		idx++
	}
	ctx.Extra["exhaustive_all_sequences_up_to_tokens"] = maxAll
	// exhaustive: grammatical sequences
	g := &c11Enum{map[int][][]string{}, map[int][][]string{}, map[int][][]string{}}
	maxG := ctx.Scale(7, 9)
	total := 0
	for n := 1; n <= maxG; n++ {
		seqs := g.E(n)
		total += len(seqs)
		for start := 0; start < len(seqs); start += 1500 {
			end := start + 1500
			if end > len(seqs) {
				end = len(seqs)
			}
			chunk := seqs[start:end]
			nums := make([]string, len(chunk))
			for i, s := range chunk {
				nums[i] = c11SeqNumber(s)
			}
			c11SeqTable(ctx, idx, fmt.Sprintf("grammatical sequences of %d tokens [%d,%d)", n, start, end), chunk,
				func(packed string) string { return emit.App("CTokList", emit.List(nums), packed) })
			idx++
		}
	}
	ctx.Extra["exhaustive_grammatical_up_to_tokens"] = maxG
	ctx.Extra["grammatical_sequences"] = total
	if ctx.Explode >= 0 {
		return nil
	}
	// random written expressions
	er := r.Fork(11)
	ne := ctx.Scale(400, 6000)
	for i := 0; i < ne; i++ {
		ns := gen.Pick(er, c11Names)
		feats := ns.feats
		x := c11RandExpr(er, 1+er.Intn(6), ns.pool)
		w := c11Write(er, x, []int{0, 0, 10, 40}[er.Intn(4)])
		w0, w1 := gen.Pick(er, c11Pads), gen.Pick(er, c11Pads)
		text := w0 + w.text + w1
		obs := c11EvalAll(text, c11Assignments(feats))
		ctx.Add(emit.App("CExpr", w.term, emit.Str(w0), emit.Str(w1), emit.Str(text), c11StrList(feats), c11Codes(obs)),
			map[string]interface{}{"kind": "expr", "expression": text, "ast": x.String(), "features": feats, "observed": obs,
				"codes": "per assignment (subset order, first feature most significant): 0 false / 1 true / 2 error / 3 panic or timeout"}, true)
		ctx.Count(fmt.Sprintf("expr:bytes<%d", (len(text)/20+1)*20))
	}
	// malformed stream
	mr := r.Fork(12)
	fixed := []string{"", " ", "not(a)", "(a)and(b)", "(a)or(b)", "not (a or b) and c", "a and", "a or", "not", "( a", "a )", "a b", "()", "( )",
		"a and and b", "a or or b", "and a", "or a", "not not", "((a)", "(a))", ")(", "a\tand\tb", "a\nor\n  b", "a and\r\nb", "a\x00b", "a\vb", "a\fand b",
		"not(a)and(b)or(c)", "a(b)", "(a)b", "a and(b or c)", "not(not(a))", "a and not(b)", "nota", "a andb", "a orb c", "p:a", "p:a and q:b", "not p:c", ":a", "a:", "p:q:a or x", "(p:a)"}
	for _, t := range fixed {
		c11TextCase(ctx, t, c11ABC, "fixed")
	}
	nm := ctx.Scale(500, 8000)
	for i := 0; i < nm; i++ {
		var text, why string
		switch mr.Intn(4) {
		case 0: // mutate a valid token sequence
			seqs := g.E(1 + mr.Intn(maxG))
			ts := append([]string{}, seqs[mr.Intn(len(seqs))]...)
			p := mr.Intn(len(ts))
			switch mr.Intn(4) {
			case 0:
				ts = append(ts[:p], ts[p+1:]...)
				why = "token deleted"
			case 1:
				ts = append(ts[:p], append([]string{gen.Pick(mr, c11Alphabet)}, ts[p:]...)...)
				why = "token inserted"
			case 2:
				ts[p] = gen.Pick(mr, c11Alphabet)
				why = "token replaced"
			default:
				ts = append(ts[:p], append([]string{ts[p]}, ts[p:]...)...)
				why = "token duplicated"
			}
			text = strings.Join(ts, gen.Pick(mr, c11Seps))
		case 1: // token soup with arbitrary spacing (possibly none)
			n := mr.Intn(9)
			var b strings.Builder
			for j := 0; j < n; j++ {
				b.WriteString(gen.Pick(mr, c11Alphabet))
				if !mr.Chance(1, 4) {
					b.WriteString(gen.Pick(mr, c11Seps))
				}
			}
			text, why = b.String(), "token soup"
		case 2: // byte soup
			n := mr.Intn(14)
			bs := make([]byte, n)
			for j := range bs {
				bs[j] = "abcnotandor() \t\n(a)  "[mr.Intn(21)]
			}
			text, why = string(bs), "byte soup"
		default: // valid expression with spacing removed around parentheses
			seqs := g.E(3 + mr.Intn(maxG-2))
			ts := seqs[mr.Intn(len(seqs))]
			var b strings.Builder
			for j, t := range ts {
				if j > 0 {
					prev := ts[j-1]
					if (t == "(" || t == ")" || prev == "(" || prev == ")") && mr.Chance(2, 3) {
						// no separator
					} else {
						b.WriteString(gen.Pick(mr, c11Seps))
					}
				}
				b.WriteString(t)
			}
			text, why = b.String(), "no separator next to parentheses"
		}
		c11TextCase(ctx, text, c11ABC, why)
	}
	if c11Timeouts > 0 {
		ctx.Extra["timeouts"] = c11Timeouts
	}
	// part (ii): guard presence through the loader
	c11GuardCases(ctx, r.Fork(13))
	// part (iii): deviations
	c11DeviateCases(ctx, r.Fork(14))
	// part (ii) again: guarded statements at every depth of a module
	c11GuardTreeCases(ctx, r.Fork(15))
	return nil
}
