package props

import (
	"encoding/json"
	"fmt"
	"os"
	"strings"

	"github.com/freeconf/yang/node"
	"github.com/freeconf/yang/nodeutil"

	"yvh/core"
	"yvh/emit"
	"yvh/gen"
	"yvh/tree"
)

func init() { Registry["C04"] = C04 }

// ---- decoded JSON as the reader sees it ----------------------------------------------------------

// rjTerm renders a decoded JSON value (encoding/json with UseNumber, so that the literal is
// available) as the Gallina `rjv`: numbers carry the exact integer when the literal is an integer
// that fits int64/uint64 (what the repaired reader keeps) and the binary64 the literal rounds to.
func rjTerm(v interface{}) string {
	switch x := v.(type) {
	case nil:
		return "RNull"
	case bool:
		return emit.App("RBool", emit.Bool(x))
	case json.Number:
		f, _ := x.Float64()
		m, e := frexpME(f)
		zi := "None"
		s := string(x)
		if !strings.ContainsAny(s, ".eE") {
			if z, ok := parseBigInt(s); ok {
				zi = emit.Some(z)
			}
		}
		return emit.App("RNum", zi, emit.Z(m), emit.Z(e))
	case string:
		return emit.App("RStr", emit.Str(x))
	case []interface{}:
		items := make([]string, len(x))
		for i, it := range x {
			items[i] = rjTerm(it)
		}
		return emit.App("RArr", emit.List(items))
	case map[string]interface{}:
		// member order is irrelevant to the reader (map lookups); emit sorted for determinism
		keys := make([]string, 0, len(x))
		for k := range x {
			keys = append(keys, k)
		}
		c04SortStrings(keys)
		items := make([]string, len(keys))
		for i, k := range keys {
			items[i] = emit.Pair(emit.Str(k), rjTerm(x[k]))
		}
		return emit.App("RObj", emit.List(items))
	}
	return "RNull"
}

func c04SortStrings(s []string) {
	for i := 1; i < len(s); i++ {
		for j := i; j > 0 && s[j] < s[j-1]; j-- {
			s[j], s[j-1] = s[j-1], s[j]
		}
	}
}

// parseBigInt: decimal integer literal within [-2^63, 2^64) as a Z literal
func parseBigInt(s string) (string, bool) {
	neg := strings.HasPrefix(s, "-")
	digits := strings.TrimPrefix(s, "-")
	if len(digits) == 0 || len(digits) > 20 {
		return "", false
	}
	for _, c := range digits {
		if c < '0' || c > '9' {
			return "", false
		}
	}
	// compare with the bounds as strings of equal length
	pad := func(x string) string { return strings.Repeat("0", 20-len(x)) + x }
	if neg {
		if pad(digits) > pad("9223372036854775808") {
			return "", false
		}
		return "(-" + digits + ")", true
	}
	if pad(digits) > pad("18446744073709551615") {
		return "", false
	}
	return digits, true
}

// roundTrip: write data with the real JSON writer, read the text back with the real JSON reader into
// a fresh reference store
func roundTrip(w *jWorld, data *tree.Cont, cfg jCfg) (text []byte, got *tree.Cont, err error, panicked string) {
	defer func() {
		if r := recover(); r != nil {
			panicked = fmt.Sprintf("%v", r)
		}
	}()
	b := node.NewBrowser(w.m, data.Node(w.root, nil, ""))
	text, werr, p := runWriter(b.Root(), cfg, 0, -1)
	if werr != nil || p != "" {
		return text, nil, fmt.Errorf("write: %v %s", werr, p), ""
	}
	rdr, rerr := nodeutil.ReadJSON(string(text))
	if rerr != nil {
		return text, nil, fmt.Errorf("read: %v", rerr), ""
	}
	got = tree.NewCont()
	gb := node.NewBrowser(w.m, got.Node(w.root, nil, ""))
	if uerr := gb.Root().UpsertFrom(rdr); uerr != nil {
		return text, got, fmt.Errorf("upsert: %v", uerr), ""
	}
	return text, got, nil, ""
}

func obsTerm(got *tree.Cont, s *tree.SNode, err error, panicked string) (string, string) {
	switch {
	case panicked != "":
		return "OPanic", "panic: " + panicked
	case err != nil:
		return "OErr", "error: " + err.Error()
	}
	return emit.App("OTree", emit.App("DCont", got.ContentTerm(s))), got.Desc(s)
}

// exportInto reads sel out into a fresh reference store shaped like s
func exportInto(sel *node.Selection, s *tree.SNode, insert bool) (got *tree.Cont, err error, panicked string) {
	defer func() {
		if r := recover(); r != nil {
			panicked = fmt.Sprintf("%v", r)
		}
	}()
	got = tree.NewCont()
	if insert {
		err = sel.InsertInto(got.Node(s, nil, ""))
	} else {
		err = sel.UpsertInto(got.Node(s, nil, ""))
	}
	return
}

// c04World: the export and round-trip cases of one (schema, data) pair.  allContainers: export at
// every container and list entry found (schemas made of groupings: each place a grouping is used
// at), in generated order, instead of at one of each kind.
func c04World(ctx *core.Ctx, dr *gen.Rng, w *jWorld, data *tree.Cont, label string, allContainers bool, nRound int, probe bool) error {
	rootTerm := w.root.Term()
	dataTerm := emit.App("DCont", data.ContentTerm(w.root))

	// ---- export into another node
	b := node.NewBrowser(w.m, data.Node(w.root, nil, ""))
	starts := []jStart{{kind: "root", sel: b.Root(), s: w.root, cont: data, size: data.Size()}}
	var others []jStart
	if err := collectStarts(&others, b.Root(), w.root, data, "", true, 0); err != nil {
		return err
	}
	for _, k := range []string{"container", "row"} {
		var l []jStart
		for _, o := range others {
			if o.kind == k {
				l = append(l, o)
			}
		}
		if allContainers {
			for len(l) > 5 {
				i := dr.Intn(len(l))
				l = append(l[:i], l[i+1:]...)
			}
			starts = append(starts, l...)
		} else if len(l) > 0 {
			starts = append(starts, gen.Pick(dr, l))
		}
	}
	if allContainers {
		// the order of the reads is part of the input (anything the library remembers between reads shows)
		for i := len(starts) - 1; i > 0; i-- {
			j := dr.Intn(i + 1)
			starts[i], starts[j] = starts[j], starts[i]
		}
	}
	for _, st := range starts {
		insert := dr.Bool()
		got, eerr, panicked := exportInto(st.sel, st.s, insert)
		o, odesc := obsTerm(got, st.s, eerr, panicked)
		sterm := st.s.Term()
		if st.kind == "row" {
			sterm = emit.App("row_of", sterm)
		}
		term := emit.App("CExport", sterm, emit.App("DCont", st.cont.ContentTerm(st.s)), o)
		call := "UpsertInto"
		if insert {
			call = "InsertInto"
		}
		ctx.Add(term, map[string]interface{}{"yang": w.yang, "what": "export", "world": label, "start": st.kind, "path": st.path, "call": call,
			"data": st.cont.Desc(st.s), "observed": odesc}, st.cont.Size() > 0)
		ctx.Count("export:" + st.kind)
		ctx.Count("export-world:" + label)
	}

	// ---- JSON round trip at the root
	for _, cfg := range []jCfg{gen.Pick(dr, allCfgs[:4]), gen.Pick(dr, allCfgs[4:])}[:nRound] {
		text, got, rerr, panicked := roundTrip(w, data, cfg)
		var doc interface{}
		dec := json.NewDecoder(strings.NewReader(string(text)))
		dec.UseNumber()
		if derr := dec.Decode(&doc); derr != nil {
			return fmt.Errorf("c04: the writer's output does not decode: %v\n%s", derr, text)
		}
		o, odesc := obsTerm(got, w.root, rerr, panicked)
		term := emit.App("CRound", cfg.term(), rootTerm, dataTerm, rjTerm(doc), o)
		ctx.Add(term, map[string]interface{}{"yang": w.yang, "what": "json round trip", "world": label, "config": cfg.String(),
			"data": data.Desc(w.root), "json": quoteBytes(text), "observed": odesc}, data.Size() > 0)
		ctx.Count("roundtrip:" + cfg.String())
		if rerr != nil {
			ctx.Count("roundtrip-result:error")
		} else if panicked != "" {
			ctx.Count("roundtrip-result:panic")
		} else {
			ctx.Count("roundtrip-result:ok")
		}
		if probe && (rerr != nil || panicked != "") {
			fmt.Fprintf(os.Stderr, "---- %s %v %s\n%s\n", label, rerr, panicked, quoteBytes(text))
		}
	}
	return nil
}

// unsetLeaves: how many leaves with a schema default the data leaves unset below containers and list
// entries that exist (the places where an export reports a default)
func unsetDefaults(s *tree.SNode, c *tree.Cont, below bool) int {
	n := 0
	for _, kid := range s.Kids {
		switch kid.Kind {
		case tree.KLeaf:
			if _, set := c.Leaves[kid.Name]; !set && below && kid.Leafable().HasDefault() {
				n++
			}
		case tree.KCont:
			if sub, ok := c.Conts[kid.Name]; ok {
				n += unsetDefaults(kid, sub, true)
			}
		case tree.KList:
			if l, ok := c.Lists[kid.Name]; ok {
				for _, row := range l.Rows {
					n += unsetDefaults(kid, row, true)
				}
			}
		}
	}
	return n
}

// C04: export and JSON round trip reproduce exactly the data present.
func C04(ctx *core.Ctx) error {
	ctx.Imports = "Val.Model Tree.Schema Tree.Editor Tree.Export Tree.JsonExp Tree.JsonR Tree.JsonW Tree.JsonSession Check.C04Check"
	ctx.Rule = "tree = generated schema (module m importing mt: containers, lists with 1-2 keys, choices nested in cases, leaf-lists, defaults, 22 leaf types incl. empty, bits, identityref across modules, binary, union, int64/uint64 extremes; and schemas made of typedefs with defaults and groupings - leaves, leaf-lists with several defaults, containers, lists, choices, nested uses - each used at 2-6 places with and without refine of the defaults at every depth) x conforming data (valid UTF-8 strings covering every escaper branch; unions holding numeric strings); export: Selection.UpsertInto/InsertInto a fresh reference store at the root, a container or a list entry (grouping schemas: at every place a grouping is used, in generated order); round trip: real JSON writer (8 configurations) -> nodeutil.ReadJSON -> UpsertFrom into a fresh reference store; session: ONE JSONWtr value (literal or NewJSONWtr) through a generated history of 4-9 operations (Out pointed at one of 2-3 streams, configuration fields changed, InsertInto/UpsertInto(wtr.Node()) of root/container/list/entry/leaf selections, wtr.JSON(sel)), streams accepting any number of bytes or failing at a generated position, one document beyond the 4096-byte buffer; distinct by SHA-256 of the case term; non-trivial = the tree holds data (session: at least two exports)"
	ctx.ShardMax = 150000
	r := gen.New(ctx.Seed)
	probe := os.Getenv("C04_PROBE") != ""
	for n := 0; n < ctx.Scale(60, 1200); n++ {
		opts := tree.GenOpts{MaxDepth: 3, MaxKids: 4, Lists: true, Defaults: true, LeafLists: true, Choices: n%2 == 0}
		w, err := genJSONWorld(r.Fork(uint64(n)), opts)
		if err != nil {
			return err
		}
		dr := r.Fork(uint64(7000 + n))
		data := jsonGenData(ctx, dr, w, w.root, 45+dr.Intn(50), 3, true)
		if n%11 == 10 {
			data = tree.NewCont()
		}
		if err := c04World(ctx, dr, w, data, "generated", false, 2, probe); err != nil {
			return err
		}
	}

	// ---- schemas made of groupings used several times (copies of a leaf share compiled objects, every
	// copy has its own default)
	for n := 0; n < ctx.Scale(14, 160); n++ {
		ur := r.Fork(uint64(200000 + n))
		w, err := genUsesWorld(ur)
		if err != nil {
			return err
		}
		dr := ur.Fork(1)
		data := jsonGenData(ctx, dr, w, w.root, 45+dr.Intn(50), 2, true)
		unsetDefaulted(dr, w.root, data, 30+dr.Intn(60))
		ctx.Hist["uses-unset-leaves-with-default"] += unsetDefaults(w.root, data, false)
		if err := c04World(ctx, dr, w, data, "groupings", true, 1, probe); err != nil {
			return err
		}
	}

	// ---- one writer value, several exports
	for n := 0; n < ctx.Scale(18, 200); n++ {
		sr := r.Fork(uint64(300000 + n))
		var w *jWorld
		var err error
		label := "generated"
		if n%4 == 3 {
			label = "groupings"
			w, err = genUsesWorld(sr.Fork(1))
		} else {
			w, err = genJSONWorld(sr.Fork(1), tree.GenOpts{MaxDepth: 2, MaxKids: 3, Lists: true, Defaults: true, LeafLists: true, Choices: n%2 == 0})
		}
		if err != nil {
			return err
		}
		dr := sr.Fork(2)
		data := jsonGenData(ctx, dr, w, w.root, 40+dr.Intn(40), 2, true)
		if err := c04Session(ctx, dr, w, data, 4+dr.Intn(6), label); err != nil {
			return err
		}
	}
	for n := 0; n < ctx.Scale(1, 3); n++ {
		if err := c04BigSession(ctx, r.Fork(uint64(400000+n))); err != nil {
			return err
		}
	}
	return nil
}
