package props

import (
	"encoding/json"
	"fmt"
	"os"
	"strings"

	"github.com/freeconf/yang/node"
	"github.com/freeconf/yang/nodeutil"

	"yvh/core"
	"yvh/emit"
	"yvh/gen"
	"yvh/tree"
)

func init() { Registry["C04"] = C04 }

// ---- decoded JSON as the reader sees it ----------------------------------------------------------

// rjTerm renders a decoded JSON value (encoding/json with UseNumber, so that the literal is
// available) as the Gallina `rjv`: numbers carry the exact integer when the literal is an integer
// that fits int64/uint64 (what the repaired reader keeps) and the binary64 the literal rounds to.
func rjTerm(v interface{}) string {
	switch x := v.(type) {
	case nil:
		return "RNull"
	case bool:
		return emit.App("RBool", emit.Bool(x))
	case json.Number:
		f, _ := x.Float64()
		m, e := frexpME(f)
		zi := "None"
		s := string(x)
		if !strings.ContainsAny(s, ".eE") {
			if z, ok := parseBigInt(s); ok {
				zi = emit.Some(z)
			}
		}
		return emit.App("RNum", zi, emit.Z(m), emit.Z(e))
	case string:
		return emit.App("RStr", emit.Str(x))
	case []interface{}:
		items := make([]string, len(x))
		for i, it := range x {
			items[i] = rjTerm(it)
		}
		return emit.App("RArr", emit.List(items))
	case map[string]interface{}:
		// member order is irrelevant to the reader (map lookups); emit sorted for determinism
		keys := make([]string, 0, len(x))
		for k := range x {
			keys = append(keys, k)
		}
		c04SortStrings(keys)
		items := make([]string, len(keys))
		for i, k := range keys {
			items[i] = emit.Pair(emit.Str(k), rjTerm(x[k]))
		}
		return emit.App("RObj", emit.List(items))
	}
	return "RNull"
}

func c04SortStrings(s []string) {
	for i := 1; i < len(s); i++ {
		for j := i; j > 0 && s[j] < s[j-1]; j-- {
			s[j], s[j-1] = s[j-1], s[j]
		}
	}
}

// parseBigInt: decimal integer literal within [-2^63, 2^64) as a Z literal
func parseBigInt(s string) (string, bool) {
	neg := strings.HasPrefix(s, "-")
	digits := strings.TrimPrefix(s, "-")
	if len(digits) == 0 || len(digits) > 20 {
		return "", false
	}
	for _, c := range digits {
		if c < '0' || c > '9' {
			return "", false
		}
	}
	// compare with the bounds as strings of equal length
	pad := func(x string) string { return strings.Repeat("0", 20-len(x)) + x }
	if neg {
		if pad(digits) > pad("9223372036854775808") {
			return "", false
		}
		return "(-" + digits + ")", true
	}
	if pad(digits) > pad("18446744073709551615") {
		return "", false
	}
	return digits, true
}

// roundTrip: write data with the real JSON writer, read the text back with the real JSON reader into
// a fresh reference store
func roundTrip(w *jWorld, data *tree.Cont, cfg jCfg) (text []byte, got *tree.Cont, err error, panicked string) {
	defer func() {
		if r := recover(); r != nil {
			panicked = fmt.Sprintf("%v", r)
		}
	}()
	b := node.NewBrowser(w.m, data.Node(w.root, nil, ""))
	text, werr, p := runWriter(b.Root(), cfg, 0, -1)
	if werr != nil || p != "" {
		return text, nil, fmt.Errorf("write: %v %s", werr, p), ""
	}
	rdr, rerr := nodeutil.ReadJSON(string(text))
	if rerr != nil {
		return text, nil, fmt.Errorf("read: %v", rerr), ""
	}
	got = tree.NewCont()
	gb := node.NewBrowser(w.m, got.Node(w.root, nil, ""))
	if uerr := gb.Root().UpsertFrom(rdr); uerr != nil {
		return text, got, fmt.Errorf("upsert: %v", uerr), ""
	}
	return text, got, nil, ""
}

func obsTerm(got *tree.Cont, s *tree.SNode, err error, panicked string) (string, string) {
	switch {
	case panicked != "":
		return "OPanic", "panic: " + panicked
	case err != nil:
		return "OErr", "error: " + err.Error()
	}
	return emit.App("OTree", emit.App("DCont", got.ContentTerm(s))), got.Desc(s)
}

// exportInto reads sel out into a fresh reference store shaped like s
func exportInto(sel *node.Selection, s *tree.SNode, insert bool) (got *tree.Cont, err error, panicked string) {
	defer func() {
		if r := recover(); r != nil {
			panicked = fmt.Sprintf("%v", r)
		}
	}()
	got = tree.NewCont()
	if insert {
		err = sel.InsertInto(got.Node(s, nil, ""))
	} else {
		err = sel.UpsertInto(got.Node(s, nil, ""))
	}
	return
}

// C04: export and JSON round trip reproduce exactly the data present.
func C04(ctx *core.Ctx) error {
	ctx.Imports = "Val.Model Tree.Schema Tree.Editor Tree.Export Tree.JsonExp Tree.JsonR Check.C04Check"
	ctx.Rule = "tree = generated schema (module m importing mt: containers, lists with 1-2 keys, choices nested in cases, leaf-lists, defaults, 22 leaf types incl. empty, bits, identityref across modules, binary, union, int64/uint64 extremes) x conforming data (valid UTF-8 strings covering every escaper branch; unions holding numeric strings); export: Selection.UpsertInto/InsertInto a fresh reference store at the root, a container or a list entry; round trip: real JSON writer (8 configurations) -> nodeutil.ReadJSON -> UpsertFrom into a fresh reference store; distinct by SHA-256 of the case term; non-trivial = the tree holds data"
	ctx.ShardMax = 150000
	r := gen.New(ctx.Seed)
	probe := os.Getenv("C04_PROBE") != ""
	for n := 0; n < ctx.Scale(60, 1200); n++ {
		opts := tree.GenOpts{MaxDepth: 3, MaxKids: 4, Lists: true, Defaults: true, LeafLists: true, Choices: n%2 == 0}
		w, err := genJSONWorld(r.Fork(uint64(n)), opts)
		if err != nil {
			return err
		}
		dr := r.Fork(uint64(7000 + n))
		data := jsonGenData(ctx, dr, w, w.root, 45+dr.Intn(50), 3, true)
		if n%11 == 10 {
			data = tree.NewCont()
		}
		rootTerm := w.root.Term()
		dataTerm := emit.App("DCont", data.ContentTerm(w.root))

		// ---- export into another node
		b := node.NewBrowser(w.m, data.Node(w.root, nil, ""))
		starts := []jStart{{kind: "root", sel: b.Root(), s: w.root, cont: data, size: data.Size()}}
		var others []jStart
		if err := collectStarts(&others, b.Root(), w.root, data, "", true, 0); err != nil {
			return err
		}
		for _, k := range []string{"container", "row"} {
			var l []jStart
			for _, o := range others {
				if o.kind == k {
					l = append(l, o)
				}
			}
			if len(l) > 0 {
				starts = append(starts, gen.Pick(dr, l))
			}
		}
		for _, st := range starts {
			insert := dr.Bool()
			got, eerr, panicked := exportInto(st.sel, st.s, insert)
			o, odesc := obsTerm(got, st.s, eerr, panicked)
			sterm := st.s.Term()
			if st.kind == "row" {
				sterm = emit.App("row_of", sterm)
			}
			term := emit.App("CExport", sterm, emit.App("DCont", st.cont.ContentTerm(st.s)), o)
			call := "UpsertInto"
			if insert {
				call = "InsertInto"
			}
			ctx.Add(term, map[string]interface{}{"yang": w.yang, "what": "export", "start": st.kind, "path": st.path, "call": call,
				"data": st.cont.Desc(st.s), "observed": odesc}, st.cont.Size() > 0)
			ctx.Count("export:" + st.kind)
		}

		// ---- JSON round trip at the root
		for _, cfg := range []jCfg{gen.Pick(dr, allCfgs[:4]), gen.Pick(dr, allCfgs[4:])} {
			text, got, rerr, panicked := roundTrip(w, data, cfg)
			var doc interface{}
			dec := json.NewDecoder(strings.NewReader(string(text)))
			dec.UseNumber()
			if derr := dec.Decode(&doc); derr != nil {
				return fmt.Errorf("c04: the writer's output does not decode: %v\n%s", derr, text)
			}
			o, odesc := obsTerm(got, w.root, rerr, panicked)
			term := emit.App("CRound", cfg.term(), rootTerm, dataTerm, rjTerm(doc), o)
			ctx.Add(term, map[string]interface{}{"yang": w.yang, "what": "json round trip", "config": cfg.String(),
				"data": data.Desc(w.root), "json": quoteBytes(text), "observed": odesc}, data.Size() > 0)
			ctx.Count("roundtrip:" + cfg.String())
			if rerr != nil {
				ctx.Count("roundtrip-result:error")
			} else if panicked != "" {
				ctx.Count("roundtrip-result:panic")
			} else {
				ctx.Count("roundtrip-result:ok")
			}
			if probe && (rerr != nil || panicked != "") {
				fmt.Fprintf(os.Stderr, "---- %d %v %s\n%s\n", n, rerr, panicked, quoteBytes(text))
			}
		}
	}
	return nil
}
