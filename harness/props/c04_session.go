package props

import (
	"fmt"
	"strings"

	"github.com/freeconf/yang/node"
	"github.com/freeconf/yang/nodeutil"
	"github.com/freeconf/yang/parser"
	"github.com/freeconf/yang/val"

	"yvh/core"
	"yvh/emit"
	"yvh/gen"
	"yvh/tree"
)

// ---- one JSONWtr value used for a history of exports ---------------------------------------------
//
// JSONWtr is a plain struct: public Out, Pretty, EnumAsIds, QualifyNamespace, entry points Node()
// and JSON(sel).  A session makes ONE writer (a literal or NewJSONWtr) and then, in generated order:
// points Out at one of 2-3 streams (each accepting any number of bytes or failing after a generated
// number), changes the configuration fields, exports one of the start selections with
// InsertInto/UpsertInto(wtr.Node()), or asks for a string with wtr.JSON(sel).  Observed: what every
// call returned and what every stream received.  For the law of the check every export is also made
// once with a brand-new writer into a buffer of its own.

type sessOp struct {
	kind  string // out | cfg | export | json
	k     int    // out: stream
	cfg   jCfg   // cfg
	start int    // export, json
	api   int    // export: 0 InsertInto, 1 UpsertInto
}

func capTerm(c int) string {
	if c < 0 {
		return "None"
	}
	return emit.Some(emit.Nat(c))
}

func (o sessOp) term() string {
	switch o.kind {
	case "out":
		return emit.App("SOut", emit.Nat(o.k))
	case "cfg":
		return emit.App("SCfg", o.cfg.term())
	case "export":
		return emit.App("SExport", emit.Nat(o.start))
	}
	return emit.App("SJSON", emit.Nat(o.start))
}

func (o sessOp) String(starts []jStart) string {
	switch o.kind {
	case "out":
		return fmt.Sprintf("wtr.Out = stream%d", o.k)
	case "cfg":
		return "wtr: " + o.cfg.String()
	case "export":
		return fmt.Sprintf("%s %q .%s(wtr.Node())", starts[o.start].kind, starts[o.start].path, []string{"InsertInto", "UpsertInto"}[o.api])
	}
	return fmt.Sprintf("wtr.JSON(%s %q)", starts[o.start].kind, starts[o.start].path)
}

// genSessionOps: a history of n operations; an export is usually followed, sooner or later, by a
// change of Out and another export (the streams then have to hold one document each)
func genSessionOps(r *gen.Rng, n, nStreams, nStarts int, out0 int) []sessOp {
	var ops []sessOp
	out := out0
	for len(ops) < n {
		switch roll := r.Intn(20); {
		case roll < 9:
			ops = append(ops, sessOp{kind: "export", start: r.Intn(nStarts), api: r.Intn(2)})
		case roll < 12:
			ops = append(ops, sessOp{kind: "json", start: r.Intn(nStarts)})
		case roll < 17:
			k := r.Intn(nStreams)
			if k == out && r.Chance(2, 3) {
				k = (k + 1) % nStreams
			}
			out = k
			ops = append(ops, sessOp{kind: "out", k: k})
		default:
			ops = append(ops, sessOp{kind: "cfg", cfg: gen.Pick(r, allCfgs)})
		}
	}
	return ops
}

// c04Session runs one history against the real writer and emits the CSession case
func c04Session(ctx *core.Ctx, r *gen.Rng, w *jWorld, data *tree.Cont, nOps int, label string) error {
	oracle := &jOracle{floats: map[[2]int64]string{}}
	oracle.addSchema(w.root)
	oracle.addData(data)
	b := node.NewBrowser(w.m, data.Node(w.root, nil, ""))
	starts := []jStart{{kind: "root", sel: b.Root(), s: w.root, cont: data, size: data.Size(),
		term: emit.App("StCont", "true", w.root.Term(), emit.App("DCont", data.ContentTerm(w.root)))}}
	var others []jStart
	if err := collectStarts(&others, b.Root(), w.root, data, "", true, 0); err != nil {
		return err
	}
	// one more start of another kind, the smaller the better (the case term holds every start once)
	byKind := map[string][]jStart{}
	for _, s := range others {
		if s.size <= 12 {
			byKind[s.kind] = append(byKind[s.kind], s)
		}
	}
	for _, k := range []string{gen.Pick(r, []string{"container", "row", "list"}), "leaf"} {
		if l := byKind[k]; len(l) > 0 && len(starts) < 3 && r.Chance(2, 3) {
			starts = append(starts, gen.Pick(r, l))
		}
	}

	cfg0 := gen.Pick(r, allCfgs)
	nStreams := 2 + r.Intn(2)
	out0 := r.Intn(nStreams)
	ops := genSessionOps(r, nOps, nStreams, len(starts), out0)

	// capacities: relative to the size of the root document so that failures happen at the start of,
	// inside and between documents
	full, _, _ := runWriter(starts[0].sel, cfg0, 0, -1)
	L := len(full)
	caps := make([]int, nStreams)
	for i := range caps {
		caps[i] = -1
		if r.Chance(2, 5) {
			caps[i] = gen.Pick(r, []int{0, 1, L / 2, L - 1, L, L + 1, L + L/2, 2*L - 1, 2 * L, 2*L + 3, r.Intn(3*L + 1)})
			if caps[i] < 0 {
				caps[i] = 0
			}
		}
	}
	sinks := make([]*failSink, nStreams)
	for i := range sinks {
		sinks[i] = &failSink{cap: caps[i]}
	}

	// the writer: a literal or the constructor
	var wtr *nodeutil.JSONWtr
	made := "&JSONWtr{Out: stream, ...}"
	if r.Bool() {
		wtr = &nodeutil.JSONWtr{Out: sinks[out0], Pretty: cfg0.pretty, EnumAsIds: cfg0.enumIds, QualifyNamespace: cfg0.qualify}
	} else {
		made = "NewJSONWtr(stream) + fields"
		wtr = nodeutil.NewJSONWtr(sinks[out0])
		wtr.Pretty, wtr.EnumAsIds, wtr.QualifyNamespace = cfg0.pretty, cfg0.enumIds, cfg0.qualify
	}

	cfg := cfg0
	var fresh, res, story []string
	exports := 0
	for _, op := range ops {
		line := op.String(starts)
		switch op.kind {
		case "out":
			wtr.Out = sinks[op.k]
			fresh = append(fresh, "[]")
			res = append(res, "RSet")
		case "cfg":
			cfg = op.cfg
			wtr.Pretty, wtr.EnumAsIds, wtr.QualifyNamespace = cfg.pretty, cfg.enumIds, cfg.qualify
			fresh = append(fresh, "[]")
			res = append(res, "RSet")
		case "export":
			exports++
			doc, _, _ := runWriter(starts[op.start].sel, cfg, 0, -1)
			fresh = append(fresh, emit.Bytes(doc))
			err, panicked := sessExport(wtr, starts[op.start].sel, op.api)
			res = append(res, emit.App("RExp", emit.Bool(err != nil || panicked != "")))
			if err != nil {
				line += " -> error: " + err.Error()
			}
			if panicked != "" {
				line += " -> panic: " + panicked
			}
		case "json":
			exports++
			doc, _, _ := runWriter(starts[op.start].sel, cfg, 0, -1)
			fresh = append(fresh, emit.Bytes(doc))
			text, err, panicked := sessJSON(wtr, starts[op.start].sel)
			res = append(res, emit.App("RJson", emit.Bool(err != nil || panicked != ""), emit.Str(text)))
			line += " -> " + quoteBytes([]byte(text))
			if err != nil {
				line += " error: " + err.Error()
			}
			if panicked != "" {
				line += " panic: " + panicked
			}
		}
		story = append(story, line)
	}

	startTerms := make([]string, len(starts))
	for i, s := range starts {
		startTerms[i] = s.term
	}
	capTerms := make([]string, nStreams)
	finals := make([]string, nStreams)
	received := map[string]interface{}{}
	total := 0
	for i, s := range sinks {
		capTerms[i] = capTerm(caps[i])
		finals[i] = emit.Bytes(s.buf.Bytes())
		total += s.buf.Len()
		capDesc := "any number of bytes"
		if caps[i] >= 0 {
			capDesc = fmt.Sprintf("%d bytes", caps[i])
		}
		received[fmt.Sprintf("stream%d (accepts %s)", i, capDesc)] = quoteBytes(s.buf.Bytes())
	}
	opTerms := make([]string, len(ops))
	for i, o := range ops {
		opTerms[i] = o.term()
	}
	term := emit.App("CSession", oracle.term(), w.idtabTerm(), emit.List(startTerms), emit.List(capTerms), cfg0.term(), emit.Nat(out0),
		emit.List(opTerms), emit.List(fresh), emit.List(res), emit.List(finals))
	ctx.Add(term, map[string]interface{}{"yang": w.yang, "what": "one JSONWtr, several exports", "world": label, "data": data.Desc(w.root),
		"writer": made + " " + cfg0.String() + fmt.Sprintf(", Out = stream%d", out0), "history": story, "received": received},
		exports >= 2 && total > 2)
	ctx.Count("session")
	ctx.Count(fmt.Sprintf("session-exports:%d", exports))
	failing := 0
	for _, c := range caps {
		if c >= 0 {
			failing++
		}
	}
	ctx.Count(fmt.Sprintf("session-limited-streams:%d", failing))
	if strings.Contains(strings.Join(story, "\n"), "error") {
		ctx.Count("session-with-failed-export")
	}
	return nil
}

func sessExport(wtr *nodeutil.JSONWtr, sel *node.Selection, api int) (err error, panicked string) {
	defer func() {
		if r := recover(); r != nil {
			panicked = fmt.Sprintf("%v", r)
		}
	}()
	if api == 1 {
		return sel.UpsertInto(wtr.Node()), ""
	}
	return sel.InsertInto(wtr.Node()), ""
}

func sessJSON(wtr *nodeutil.JSONWtr, sel *node.Selection) (text string, err error, panicked string) {
	defer func() {
		if r := recover(); r != nil {
			panicked = fmt.Sprintf("%v", r)
		}
	}()
	text, err = wtr.JSON(sel)
	return
}

// c04BigSession: documents larger than bufio's 4096-byte buffer (bytes reach the stream in the middle
// of an export, not only at the final flush), two streams, one of them failing inside the second document
func c04BigSession(ctx *core.Ctx, r *gen.Rng) error {
	m, err := parser.LoadModuleFromString(nil, bigYang)
	if err != nil {
		return err
	}
	w := &jWorld{yang: bigYang, m: m, root: tree.Root(m), idmods: map[string]string{}}
	data := tree.NewCont()
	q := w.root.Kids[w.root.KidIndex("q")]
	l := &tree.List{}
	rows := 70 + r.Intn(30)
	for i := 0; i < rows; i++ {
		row := tree.NewCont()
		row.Leaves["k"] = val.Int32(i)
		row.Leaves["s"] = val.String(strings.Repeat(gen.Pick(r, []string{"ab", "xyz", "q\"", "\u00fc"}), 8+r.Intn(8)))
		if r.Bool() {
			row.Leaves["n"] = val.UInt16List([]uint16{uint16(r.Intn(65536)), uint16(i)})
		}
		l.Rows = append(l.Rows, row)
	}
	_ = q
	data.Lists["q"] = l
	return c04Session(ctx, r, w, data, 5+r.Intn(3), "big")
}
