package props

import (
	"fmt"

	"github.com/freeconf/yang/meta"
	"github.com/freeconf/yang/node"
	"github.com/freeconf/yang/nodeutil"
	"github.com/freeconf/yang/parser"
	"github.com/freeconf/yang/val"

	"yvh/core"
	"yvh/gen"
	"yvh/tree"
)

// A fixed schema with matching Go struct types: the struct-backed targets of C18 (and of C03's
// "every node implementation"): lists held as slices of struct VALUES and of struct POINTERS,
// a compound key, a nested container.
const c18StructYang = `module s {
  namespace "urn:s"; prefix s; revision 2020-01-01;
  list user { key "name"; leaf name { type string; } leaf uid { type int32; }
    container home { leaf dir { type string; } leaf quota { type int32; } } }
  list route { key "vrf dest"; leaf vrf { type string; } leaf dest { type string; } leaf metric { type int32; } }
  list item { key "id"; leaf id { type int32; } leaf label { type string; } }
  container sys { leaf host { type string; } leaf port { type int32; } }
}`

type sHome struct {
	Dir   string
	Quota int
}
type sUser struct {
	Name string
	Uid  int
	Home *sHome
}
type sRoute struct {
	Vrf    string
	Dest   string
	Metric int
}
type sItem struct {
	Id    int
	Label string
}
type sSys struct {
	Host string
	Port int
}
type sApp struct {
	User  []sUser // struct values
	Route []*sRoute
	Item  []*sItem
	Sys   *sSys
}

// nodeutil.Node does not support slices of struct values ("creating type not supported")
type sAppP struct {
	User  []*sUser
	Route []*sRoute
	Item  []*sItem
	Sys   *sSys
}

// struct fields cannot be "unset": zero values read back as data. The generator therefore never
// produces zero values for this schema, and exports drop zero-valued leaves (they stand for unset).
func nonZero(s *tree.SNode, c *tree.Cont) {
	for _, kid := range s.Kids {
		switch kid.Kind {
		case tree.KLeaf:
			if v, ok := c.Leaves[kid.Name]; ok {
				switch x := v.(type) {
				case val.Int32:
					if x == 0 {
						c.Leaves[kid.Name] = val.Int32(7)
					}
				case val.String:
					if x == "" {
						c.Leaves[kid.Name] = val.String("z")
					}
				}
			}
		case tree.KCont:
			if sub := c.Conts[kid.Name]; sub != nil {
				nonZero(kid, sub)
			}
		case tree.KList:
			if l := c.Lists[kid.Name]; l != nil {
				for _, r := range l.Rows {
					nonZero(kid, r)
				}
			}
		}
	}
}

func dropZero(s *tree.SNode, c *tree.Cont) {
	for _, kid := range s.Kids {
		switch kid.Kind {
		case tree.KLeaf:
			if v, ok := c.Leaves[kid.Name]; ok {
				switch x := v.(type) {
				case val.Int32:
					if x == 0 {
						delete(c.Leaves, kid.Name)
					}
				case val.String:
					if x == "" {
						delete(c.Leaves, kid.Name)
					}
				}
			}
		case tree.KCont:
			if sub := c.Conts[kid.Name]; sub != nil {
				dropZero(kid, sub)
			}
		case tree.KList:
			if l := c.Lists[kid.Name]; l != nil {
				for _, r := range l.Rows {
					dropZero(kid, r)
				}
			}
		}
	}
}

// c18ZeroBias sets int32/string leaves (key leaves included) to the Go zero value with probability 1/3:
// struct-backed targets then hold entries whose key is 0 / "" and entries that are all-zero structs
func c18ZeroBias(r *gen.Rng, s *tree.SNode, c *tree.Cont) { c18ZeroBiasX(r, s, c, true) }

func c18ZeroBiasNonKey(r *gen.Rng, s *tree.SNode, c *tree.Cont) { c18ZeroBiasX(r, s, c, false) }

func c18ZeroBiasX(r *gen.Rng, s *tree.SNode, c *tree.Cont, keysToo bool) {
	isKey := map[int]bool{}
	for _, k := range s.Keys {
		isKey[k] = true
	}
	for i, kid := range s.Kids {
		switch kid.Kind {
		case tree.KLeaf:
			if v, ok := c.Leaves[kid.Name]; ok && isKey[i] && v == val.String("") {
				c.Leaves[kid.Name] = val.String("z")
			}
			if v, ok := c.Leaves[kid.Name]; ok && (keysToo || !isKey[i]) && r.Chance(1, 3) {
				switch v.(type) {
				case val.Int32:
					c.Leaves[kid.Name] = val.Int32(0)
				case val.String:
					// "" as a KEY is not generated: nodeutil.Reflect does not read an empty string
					// back as a leaf, so such an entry has no key to be addressed by
					if !isKey[i] {
						c.Leaves[kid.Name] = val.String("")
					}
				}
			}
		case tree.KCont:
			if sub := c.Conts[kid.Name]; sub != nil {
				c18ZeroBiasX(r, kid, sub, true)
			}
		case tree.KList:
			if l := c.Lists[kid.Name]; l != nil {
				for _, row := range l.Rows {
					c18ZeroBiasX(r, kid, row, true)
				}
			}
		}
	}
}

// c18DropLists removes whole top-level lists from an initial tree (probability 1/2 each): edits then
// meet target lists that do not exist yet and have to be created by the edit itself
func c18DropLists(r *gen.Rng, s *tree.SNode, c *tree.Cont) {
	for _, kid := range s.Kids {
		if kid.Kind == tree.KList && c.Lists[kid.Name] != nil && r.Chance(1, 2) {
			delete(c.Lists, kid.Name)
		}
	}
}

func c18RowKeyID(s *tree.SNode, row *tree.Cont) (string, bool) {
	id := ""
	for _, k := range s.Keys {
		v := row.Leaves[s.Kids[k].Name]
		if v == nil {
			return "", false
		}
		id += v.String() + "\x00"
	}
	return id, true
}

func c18HasDupKey(s *tree.SNode, l *tree.List) bool {
	seen := map[string]bool{}
	for _, row := range l.Rows {
		if id, ok := c18RowKeyID(s, row); ok {
			if seen[id] {
				return true
			}
			seen[id] = true
		}
	}
	return false
}

// c18InjectDups makes a payload name the same key twice: for top-level lists with rows (probability
// 1/2 each) a further row with the key of an earlier row and content of its own is added at a
// random later position
func c18InjectDups(r *gen.Rng, s *tree.SNode, c *tree.Cont, zero bool) bool {
	did := false
	for _, kid := range s.Kids {
		l := c.Lists[kid.Name]
		if kid.Kind != tree.KList || l == nil || len(l.Rows) == 0 || !r.Chance(1, 2) {
			continue
		}
		at := r.Intn(len(l.Rows))
		if _, ok := c18RowKeyID(kid, l.Rows[at]); !ok {
			continue
		}
		nrow := tree.GenData(r, kid, 70, 2)
		if zero {
			c18ZeroBiasNonKey(r, kid, nrow)
		}
		for _, k := range kid.Keys {
			nrow.Leaves[kid.Kids[k].Name] = l.Rows[at].Leaves[kid.Kids[k].Name]
		}
		pos := at + 1 + r.Intn(len(l.Rows)-at)
		rows := append([]*tree.Cont{}, l.Rows[:pos]...)
		rows = append(rows, nrow)
		l.Rows = append(rows, l.Rows[pos:]...)
		did = true
	}
	return did
}

// distinct keys after c18ZeroBias (two rows may have collapsed onto the same key)
func dedupRows(s *tree.SNode, c *tree.Cont) {
	for _, kid := range s.Kids {
		if kid.Kind != tree.KList || c.Lists[kid.Name] == nil {
			continue
		}
		seen := map[string]bool{}
		var rows []*tree.Cont
		for _, r := range c.Lists[kid.Name].Rows {
			id := ""
			for _, k := range kid.Keys {
				id += r.Leaves[kid.Kids[k].Name].String() + "\x00"
			}
			if !seen[id] {
				seen[id] = true
				rows = append(rows, r)
			}
		}
		c.Lists[kid.Name].Rows = rows
	}
}

func c18StructHistories(ctx *core.Ctx, r *gen.Rng, count int) error {
	m, err := parser.LoadModuleFromString(nil, c18StructYang)
	if err != nil {
		return fmt.Errorf("struct schema: %v", err)
	}
	root := tree.Root(m)
	for n := 0; n < count; n++ {
		dr := r.Fork(uint64(n))
		universe := tree.GenData(dr, root, 90, 4)
		c18ZeroBias(dr, root, universe)
		dedupRows(root, universe)
		init := tree.Subsample(dr, root, universe, 85, 0)
		c18DropLists(dr, root, init)
		steps := 2 + dr.Intn(6)
		seed := dr.U64()
		for kind := 2; kind < 4; kind++ {
			or := gen.New(seed)
			var n node.Node
			if kind == 2 {
				n = nodeutil.ReflectChild(&sApp{})
			} else {
				n = &nodeutil.Node{Object: &sAppP{}}
			}
			t := &c18Target{kind: kind, m: m, root: root, b: node.NewBrowser(m, n), struct_: true}
			// the initial content is brought in through the library itself
			if err, p := guard(func() error { return t.b.Root().UpsertFrom(init.Node(root, nil, "")) }); err != nil || p != "" {
				ctx.Count("struct-init-failed")
				continue
			}
			for st := 0; st < steps; st++ {
				before, err := t.export()
				if err != nil {
					ctx.Count("export-failed:" + c18Kinds[kind])
					break
				}
				if !c18Step(ctx, or, t, c18StructYang, universe, before) {
					break
				}
			}
		}
	}
	return nil
}

var _ = meta.IsList
