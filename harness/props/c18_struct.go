package props

import (
	"fmt"

	"github.com/freeconf/yang/meta"
	"github.com/freeconf/yang/node"
	"github.com/freeconf/yang/nodeutil"
	"github.com/freeconf/yang/parser"
	"github.com/freeconf/yang/val"

	"yvh/core"
	"yvh/gen"
	"yvh/tree"
)

// A fixed schema with matching Go struct types: the struct-backed targets of C18 (and of C03's
// "every node implementation"): lists held as slices of struct VALUES and of struct POINTERS,
// a compound key, a nested container.
const c18StructYang = `module s {
  namespace "urn:s"; prefix s; revision 2020-01-01;
  list user { key "name"; leaf name { type string; } leaf uid { type int32; }
    container home { leaf dir { type string; } leaf quota { type int32; } } }
  list route { key "vrf dest"; leaf vrf { type string; } leaf dest { type string; } leaf metric { type int32; } }
  list item { key "id"; leaf id { type int32; } leaf label { type string; } }
  container sys { leaf host { type string; } leaf port { type int32; } }
}`

type sHome struct {
	Dir   string
	Quota int
}
type sUser struct {
	Name string
	Uid  int
	Home *sHome
}
type sRoute struct {
	Vrf    string
	Dest   string
	Metric int
}
type sItem struct {
	Id    int
	Label string
}
type sSys struct {
	Host string
	Port int
}
type sApp struct {
	User  []sUser // struct values
	Route []*sRoute
	Item  []*sItem
	Sys   *sSys
}

// nodeutil.Node does not support slices of struct values ("creating type not supported")
type sAppP struct {
	User  []*sUser
	Route []*sRoute
	Item  []*sItem
	Sys   *sSys
}

// struct fields cannot be "unset": zero values read back as data. The generator therefore never
// produces zero values for this schema, and exports drop zero-valued leaves (they stand for unset).
func nonZero(s *tree.SNode, c *tree.Cont) {
	for _, kid := range s.Kids {
		switch kid.Kind {
		case tree.KLeaf:
			if v, ok := c.Leaves[kid.Name]; ok {
				switch x := v.(type) {
				case val.Int32:
					if x == 0 {
						c.Leaves[kid.Name] = val.Int32(7)
					}
				case val.String:
					if x == "" {
						c.Leaves[kid.Name] = val.String("z")
					}
				}
			}
		case tree.KCont:
			if sub := c.Conts[kid.Name]; sub != nil {
				nonZero(kid, sub)
			}
		case tree.KList:
			if l := c.Lists[kid.Name]; l != nil {
				for _, r := range l.Rows {
					nonZero(kid, r)
				}
			}
		}
	}
}

func dropZero(s *tree.SNode, c *tree.Cont) {
	for _, kid := range s.Kids {
		switch kid.Kind {
		case tree.KLeaf:
			if v, ok := c.Leaves[kid.Name]; ok {
				switch x := v.(type) {
				case val.Int32:
					if x == 0 {
						delete(c.Leaves, kid.Name)
					}
				case val.String:
					if x == "" {
						delete(c.Leaves, kid.Name)
					}
				}
			}
		case tree.KCont:
			if sub := c.Conts[kid.Name]; sub != nil {
				dropZero(kid, sub)
			}
		case tree.KList:
			if l := c.Lists[kid.Name]; l != nil {
				for _, r := range l.Rows {
					dropZero(kid, r)
				}
			}
		}
	}
}

// distinct keys after nonZero (two rows may have collapsed onto the same key)
func dedupRows(s *tree.SNode, c *tree.Cont) {
	for _, kid := range s.Kids {
		if kid.Kind != tree.KList || c.Lists[kid.Name] == nil {
			continue
		}
		seen := map[string]bool{}
		var rows []*tree.Cont
		for _, r := range c.Lists[kid.Name].Rows {
			id := ""
			for _, k := range kid.Keys {
				id += r.Leaves[kid.Kids[k].Name].String() + "\x00"
			}
			if !seen[id] {
				seen[id] = true
				rows = append(rows, r)
			}
		}
		c.Lists[kid.Name].Rows = rows
	}
}

func c18StructHistories(ctx *core.Ctx, r *gen.Rng, count int) error {
	m, err := parser.LoadModuleFromString(nil, c18StructYang)
	if err != nil {
		return fmt.Errorf("struct schema: %v", err)
	}
	root := tree.Root(m)
	for n := 0; n < count; n++ {
		dr := r.Fork(uint64(n))
		universe := tree.GenData(dr, root, 90, 4)
		nonZero(root, universe)
		dedupRows(root, universe)
		init := tree.Subsample(dr, root, universe, 85, 0)
		steps := 2 + dr.Intn(6)
		seed := dr.U64()
		for kind := 2; kind < 4; kind++ {
			or := gen.New(seed)
			var n node.Node
			if kind == 2 {
				n = nodeutil.ReflectChild(&sApp{})
			} else {
				n = &nodeutil.Node{Object: &sAppP{}}
			}
			t := &c18Target{kind: kind, m: m, root: root, b: node.NewBrowser(m, n), struct_: true}
			// the initial content is brought in through the library itself
			if err, p := guard(func() error { return t.b.Root().UpsertFrom(init.Node(root, nil, "")) }); err != nil || p != "" {
				ctx.Count("struct-init-failed")
				continue
			}
			for st := 0; st < steps; st++ {
				before, err := t.export()
				if err != nil {
					ctx.Count("export-failed:" + c18Kinds[kind])
					break
				}
				if !c18Step(ctx, or, t, c18StructYang, universe, before) {
					break
				}
			}
		}
	}
	return nil
}

var _ = meta.IsList
