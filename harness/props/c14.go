package props

import (
	"encoding/base64"
	"encoding/json"
	"errors"
	"fmt"
	"io"
	"os"
	"path/filepath"
	"runtime"
	"runtime/debug"
	"sort"
	"strings"
	"time"

	"github.com/freeconf/yang/meta"
	"github.com/freeconf/yang/parser"
	"github.com/freeconf/yang/source"

	"yvh/core"
	"yvh/emit"
	"yvh/gen"
)

func init() {
	Registry["C14"] = C14
	core.WorkerHandlers["c14"] = c14Worker
}

// ---- worker side ------------------------------------------------------------------------------

type c14File struct {
	Kind string `json:"kind"` // text | missing | readerr
	Text string `json:"text"`
}

type c14Req struct {
	Text  string             `json:"text"`
	Files map[string]c14File `json:"files"`
	// Fuse > 0: the opener refuses every request after the first Fuse (a runaway loader then ends
	// with an error instead of killing the worker) and the answer lists the names it was asked for
	Fuse int `json:"fuse,omitempty"`
	// Stack > 0: stack limit of the worker in MB for this request (default 48)
	Stack int `json:"stack,omitempty"`
}

func b64(s string) string { return base64.StdEncoding.EncodeToString([]byte(s)) }

func c14Line(req c14Req) string {
	b, _ := json.Marshal(req)
	return base64.StdEncoding.EncodeToString(b)
}

type c14errReader struct{}

func (c14errReader) Read([]byte) (int, error) { return 0, errors.New("injected read error") }

func c14Site() string {
	pcs := make([]uintptr, 64)
	n := runtime.Callers(3, pcs)
	frames := runtime.CallersFrames(pcs[:n])
	for {
		f, more := frames.Next()
		if strings.HasPrefix(f.Function, "github.com/freeconf/yang/") {
			return strings.TrimPrefix(f.Function, "github.com/freeconf/yang/")
		}
		if !more {
			return "unknown"
		}
	}
}

func c14Worker(line string) (resp string) {
	debug.SetMaxStack(48 << 20) // a runaway recursion dies quickly (fatal) instead of eating 1 GB
	raw, err := base64.StdEncoding.DecodeString(line)
	if err != nil {
		return "badrequest"
	}
	var req c14Req
	if err := json.Unmarshal(raw, &req); err != nil {
		return "badrequest"
	}
	text, err := base64.StdEncoding.DecodeString(req.Text)
	if err != nil {
		return "badrequest"
	}
	if req.Stack > 0 {
		debug.SetMaxStack(req.Stack << 20)
	}
	var opens []string
	if req.Fuse > 0 {
		defer func() { resp += " opens=" + strings.Join(opens, ",") }()
	}
	opener := source.Opener(func(name, ext string) (io.Reader, error) {
		opens = append(opens, name)
		if req.Fuse > 0 && len(opens) > req.Fuse {
			return nil, errors.New("opener fuse: too many requests")
		}
		f, ok := req.Files[name]
		if !ok || f.Kind == "missing" {
			return nil, nil
		}
		if f.Kind == "readerr" {
			return c14errReader{}, nil
		}
		t, _ := base64.StdEncoding.DecodeString(f.Text)
		return strings.NewReader(string(t)), nil
	})
	var m *meta.Module
	var lerr error
	func() {
		defer func() {
			if r := recover(); r != nil {
				resp = "panic:" + c14Site()
			}
		}()
		m, lerr = parser.LoadModuleFromString(opener, string(text))
	}()
	if resp != "" {
		return resp
	}
	if lerr != nil {
		return "error"
	}
	if m == nil {
		return "nilmodule"
	}
	func() {
		defer func() {
			if r := recover(); r != nil {
				resp = "walkpanic:" + c14Site()
			}
		}()
		c14Walk(m)
	}()
	if resp != "" {
		return resp
	}
	return "module"
}

// c14Walk touches the public accessors of everything reachable from a module (schemas may be
// recursive through groupings: the depth is bounded).
func c14Walk(m *meta.Module) int {
	n := 0
	var walk func(d meta.Definition, depth int)
	touchType := func(t *meta.Type) {
		if t == nil {
			return
		}
		_ = t.Ident()
		_ = t.Format()
		_ = t.Path()
		_ = t.FractionDigits()
		_ = t.RequireInstance()
		for _, r := range t.Range() {
			_ = r.String()
		}
		for _, r := range t.Length() {
			_ = r.String()
		}
		for _, p := range t.Patterns() {
			_ = p.Pattern
		}
		for _, e := range t.Enums() {
			_ = e.Ident()
			_ = e.Value()
		}
		_ = t.Enum()
		for _, b := range t.Bits() {
			_ = b.Ident()
		}
		for _, b := range t.Base() {
			_ = b.Ident()
		}
		for _, u := range t.Union() {
			_ = u.Ident()
			_ = u.Format()
		}
		_ = t.UnionFormats()
		if r := t.Resolve(); r != nil {
			_ = r.Format()
		}
	}
	walk = func(d meta.Definition, depth int) {
		if d == nil || depth > 12 {
			return
		}
		n++
		_ = d.Ident()
		_ = meta.SchemaPath(d)
		if x, ok := d.(meta.Describable); ok {
			_ = x.Description()
			_ = x.Reference()
		}
		if x, ok := d.(meta.HasExtensions); ok {
			for _, e := range x.Extensions() {
				_ = e.Prefix() + e.Ident() + e.Argument() + e.Keyword()
			}
		}
		if x, ok := d.(meta.HasConfig); ok {
			_ = x.Config()
		}
		if x, ok := d.(meta.HasMandatory); ok {
			_ = x.Mandatory()
		}
		if x, ok := d.(meta.HasStatus); ok {
			_ = x.Status()
		}
		if x, ok := d.(meta.HasWhen); ok && x.When() != nil {
			_ = x.When().Expression()
		}
		if x, ok := d.(meta.HasMusts); ok {
			for _, mu := range x.Musts() {
				_ = mu.Expression() + mu.ErrorMessage() + mu.ErrorAppTag()
			}
		}
		if x, ok := d.(meta.HasIfFeatures); ok {
			for _, f := range x.IfFeatures() {
				_ = f.Expression()
			}
		}
		if x, ok := d.(meta.HasType); ok {
			touchType(x.Type())
		}
		if x, ok := d.(meta.HasUnits); ok {
			_ = x.Units()
		}
		if x, ok := d.(meta.HasDefault); ok {
			if x.HasDefault() {
				_ = x.DefaultValue()
			}
		}
		if x, ok := d.(meta.HasMinMax); ok {
			_ = x.MinElements() + x.MaxElements()
		}
		if x, ok := d.(meta.HasOrderedBy); ok {
			_ = x.OrderedBy()
		}
		if x, ok := d.(meta.HasUnique); ok {
			_ = x.Unique()
		}
		if x, ok := d.(*meta.List); ok {
			for _, k := range x.KeyMeta() {
				_ = k.Ident()
			}
		}
		if x, ok := d.(meta.HasPresence); ok {
			_ = x.Presence()
		}
		if x, ok := d.(meta.HasTypedefs); ok {
			ids := make([]string, 0)
			for id := range x.Typedefs() {
				ids = append(ids, id)
			}
			sort.Strings(ids)
			for _, id := range ids {
				td := x.Typedefs()[id]
				_ = td.Ident() + td.Units()
				touchType(td.Type())
			}
		}
		if x, ok := d.(meta.HasGroupings); ok {
			for _, g := range x.Groupings() {
				_ = g.Ident()
			}
		}
		if x, ok := d.(meta.HasDataDefinitions); ok {
			for _, c := range x.DataDefinitions() {
				walk(c, depth+1)
			}
		}
		if x, ok := d.(*meta.Choice); ok {
			for _, id := range x.CaseIdents() {
				walk(x.Cases()[id], depth+1)
			}
		}
		if x, ok := d.(meta.HasActions); ok {
			for _, a := range x.Actions() {
				walk(a, depth+1)
				if a.Input() != nil {
					for _, c := range a.Input().DataDefinitions() {
						walk(c, depth+1)
					}
				}
				if a.Output() != nil {
					for _, c := range a.Output().DataDefinitions() {
						walk(c, depth+1)
					}
				}
			}
		}
		if x, ok := d.(meta.HasNotifications); ok {
			for _, nt := range x.Notifications() {
				walk(nt, depth+1)
			}
		}
	}
	_ = m.Namespace() + m.Prefix() + m.Contact() + m.Organization() + m.Version()
	if m.Revision() != nil {
		_ = m.Revision().Ident()
	}
	for _, r := range m.RevisionHistory() {
		_ = r.Ident() + r.Description()
	}
	for _, f := range m.Features() {
		_ = f.Ident()
	}
	for _, i := range m.Identities() {
		_ = i.Ident()
		_ = i.BaseIds()
		for _, d := range i.DerivedDirect() {
			_ = d.Ident()
		}
	}
	for _, i := range m.Imports() {
		_ = i.Prefix()
		if i.Module() != nil {
			_ = i.Module().Ident()
		}
	}
	for _, e := range m.ExtensionDefs() {
		_ = e.Ident()
		if e.Argument() != nil {
			_ = e.Argument().Ident()
		}
	}
	walk(m, 0)
	return n
}

// ---- harness side -----------------------------------------------------------------------------

type c14Runner struct {
	ctx *core.Ctx
	w   *core.Worker
}

func (rn *c14Runner) run(text string, files map[string]c14File) string {
	req := c14Req{Text: b64(text), Files: map[string]c14File{}}
	for k, f := range files {
		req.Files[k] = c14File{Kind: f.Kind, Text: b64(f.Text)}
	}
	line := c14Line(req)
	resp, status := rn.w.Call(line, 2*time.Second)
	if status == "timeout" {
		// a loaded machine can make an innocent load miss the limit: a time-out counts only when it
		// repeats in a fresh worker with a longer limit
		rn.ctx.Count("worker:timeout-retried")
		resp, status = rn.w.Call(line, 6*time.Second)
	}
	if status != "ok" {
		return status
	}
	return resp
}

func c14ObsTerm(o string) string {
	switch {
	case o == "module":
		return "OModule"
	case o == "error":
		return "OError"
	case o == "timeout":
		return "OTimeout"
	case o == "fatal":
		return "OFatal"
	case strings.HasPrefix(o, "panic:"):
		return emit.App("OPanic", emit.Str(o[6:]))
	case strings.HasPrefix(o, "walkpanic:"):
		return emit.App("OWalkPanic", emit.Str(o[10:]))
	}
	return emit.App("OOther", emit.Str(o))
}

func c14Class(o string) string {
	if i := strings.Index(o, ":"); i >= 0 {
		return o[:i]
	}
	return o
}

// add evaluates one input. lexical: the load involves this one text only (no import/include
// resolved through the opener), so the lexer model's verdict is comparable.
func (rn *c14Runner) add(stream string, text string, files map[string]c14File, lexical bool, note string) string {
	o := rn.run(text, files)
	t := emit.App("CLoad", emit.Str(text), emit.Bool(lexical && len(files) == 0), c14ObsTerm(o))
	d := map[string]interface{}{"kind": "load", "stream": stream, "text": text, "observed": o, "lexer_model_compared": lexical && len(files) == 0}
	if note != "" {
		d["note"] = note
	}
	if len(files) > 0 {
		fd := map[string]string{}
		for k, f := range files {
			if f.Kind == "text" {
				fd[k] = f.Text
			} else {
				fd[k] = "<" + f.Kind + ">"
			}
		}
		d["opener"] = fd
	}
	rn.ctx.Add(t, d, o != "module" || len(text) > 40)
	rn.ctx.Count("stream:" + stream)
	rn.ctx.Count("observed:" + c14Class(o))
	return o
}

type c14Mod struct {
	name  string
	text  string
	files map[string]c14File
}

// corpus: the repo's parser/testdata modules that load (with their directory as opener) + generated ones
func c14Corpus(rn *c14Runner, r *gen.Rng) []c14Mod {
	var res []c14Mod
	root := os.Getenv("YV_REPO")
	if root == "" {
		root = "/repo"
	}
	paths, _ := filepath.Glob(filepath.Join(root, "parser", "testdata", "*", "*.yang"))
	more, _ := filepath.Glob(filepath.Join(root, "parser", "testdata", "*.yang"))
	paths = append(paths, more...)
	sort.Strings(paths)
	byDir := map[string]map[string]c14File{}
	for _, p := range paths {
		b, err := os.ReadFile(p)
		if err != nil {
			continue
		}
		dir := filepath.Dir(p)
		if byDir[dir] == nil {
			byDir[dir] = map[string]c14File{}
		}
		byDir[dir][strings.TrimSuffix(filepath.Base(p), ".yang")] = c14File{Kind: "text", Text: string(b)}
	}
	for _, p := range paths {
		b, err := os.ReadFile(p)
		if err != nil || len(b) > 6000 {
			continue
		}
		text := string(b)
		files := map[string]c14File{}
		if strings.Contains(text, "import ") || strings.Contains(text, "include ") {
			for k, f := range byDir[filepath.Dir(p)] {
				files[k] = f
			}
		}
		if strings.HasPrefix(strings.TrimSpace(text), "submodule") {
			continue
		}
		if rn.run(text, files) == "module" {
			res = append(res, c14Mod{name: strings.TrimPrefix(p, root+"/"), text: text, files: files})
		}
	}
	for i := 0; i < 6; i++ {
		g := &c6gen{r: r.Fork(uint64(900 + i))}
		tree := g.module()
		var sb strings.Builder
		tree.render(&sb, 0)
		if rn.run(sb.String(), nil) == "module" {
			res = append(res, c14Mod{name: fmt.Sprintf("generated-%d", i), text: sb.String()})
		}
	}
	return res
}

// c14Tokens splits a module text into tokens the way a reader would (quoted strings, words,
// punctuation, comments), keeping the separators so that the text can be re-assembled.
func c14Tokens(s string) (toks []string, seps []string) {
	i := 0
	sepStart := 0
	flush := func(j int) {
		seps = append(seps, s[sepStart:j])
	}
	for i < len(s) {
		c := s[i]
		switch {
		case c == ' ' || c == '\t' || c == '\n' || c == '\r':
			i++
		case c == '/' && i+1 < len(s) && s[i+1] == '/':
			for i < len(s) && s[i] != '\n' {
				i++
			}
		case c == '/' && i+1 < len(s) && s[i+1] == '*':
			j := strings.Index(s[i+2:], "*/")
			if j < 0 {
				i = len(s)
			} else {
				i += j + 4
			}
		default:
			flush(i)
			start := i
			switch {
			case c == '"':
				i++
				for i < len(s) && s[i] != '"' {
					if s[i] == '\\' {
						i++
					}
					i++
				}
				i++
			case c == '\'':
				i++
				for i < len(s) && s[i] != '\'' {
					i++
				}
				i++
			case c == '{' || c == '}' || c == ';' || c == '+':
				i++
			default:
				for i < len(s) && !strings.ContainsRune(" \t\r\n;{}", rune(s[i])) {
					i++
				}
			}
			if i > len(s) {
				i = len(s)
			}
			toks = append(toks, s[start:i])
			sepStart = i
		}
	}
	seps = append(seps, s[sepStart:])
	return
}

func c14Join(toks, seps []string) string {
	var sb strings.Builder
	for i, t := range toks {
		sb.WriteString(seps[i])
		sb.WriteString(t)
	}
	sb.WriteString(seps[len(seps)-1])
	return sb.String()
}

var c14Subst = []string{"{", "}", ";", "+", "\"", "'", "\"x\"", "'y'", "x", "0", "-1", "true", "module", "container", "leaf", "list", "type",
	"uses", "grouping", "typedef", "import", "include", "deviation", "deviate", "add", "augment", "key", "description", "p:e", "//", "/*", "*/",
	"unbounded", "status", "current", "leafref", "path", "units", "choice", "case", "rpc", "input", "notification", "when", "must", "\x00", "\xff", "é"}

func c14Mutations(rn *c14Runner, r *gen.Rng, corpus []c14Mod, n int) {
	if len(corpus) == 0 {
		return
	}
	tries := 0
	for i := 0; i < n; i++ {
		m := gen.Pick(r, corpus)
		if (!rn.ctx.Thorough() && len(m.text) > 600) || len(m.text) > 2000 {
			i--
			tries++
			if tries > 20*n {
				return
			}
			continue
		}
		toks, seps := c14Tokens(m.text)
		if len(toks) < 3 {
			continue
		}
		k := r.Intn(len(toks))
		var nt, ns []string
		var what string
		switch r.Intn(3) {
		case 0: // deletion
			nt = append(append([]string{}, toks[:k]...), toks[k+1:]...)
			ns = append(append([]string{}, seps[:k+1]...), seps[k+2:]...)
			what = fmt.Sprintf("delete token %d %q", k, toks[k])
		case 1: // duplication
			nt = append(append(append([]string{}, toks[:k+1]...), toks[k]), toks[k+1:]...)
			ns = append(append(append([]string{}, seps[:k+1]...), " "), seps[k+1:]...)
			what = fmt.Sprintf("duplicate token %d %q", k, toks[k])
		default: // substitution
			sub := gen.Pick(r, c14Subst)
			if r.Chance(1, 3) {
				sub = toks[r.Intn(len(toks))]
			}
			nt = append([]string{}, toks...)
			nt[k] = sub
			ns = seps
			what = fmt.Sprintf("replace token %d %q by %q", k, toks[k], sub)
		}
		rn.add("token-mutation", c14Join(nt, ns), m.files, true, m.name+": "+what)
	}
}

func c14Prefixes(rn *c14Runner, r *gen.Rng, corpus []c14Mod, budget int) {
	// every truncation point of as many (small) corpus modules as the budget allows; one table-shaped
	// case per module (the element that fails is named by re-running with -explode)
	idx := make([]int, len(corpus))
	for i := range idx {
		idx[i] = i
	}
	for i := len(idx) - 1; i > 0; i-- {
		j := r.Intn(i + 1)
		idx[i], idx[j] = idx[j], idx[i]
	}
	used := 0
	for _, i := range idx {
		m := corpus[i]
		if len(m.text) > 1500 && !rn.ctx.Thorough() {
			continue
		}
		if used+len(m.text) > budget {
			continue
		}
		used += len(m.text)
		rn.ctx.Count("prefix:modules")
		if len(m.files) > 0 {
			for k := 0; k < len(m.text); k++ {
				rn.add("prefix", m.text[:k], m.files, false, fmt.Sprintf("%s truncated at %d", m.name, k))
			}
			continue
		}
		tableIdx := rn.ctx.N()
		if rn.ctx.Explode >= 0 && rn.ctx.Explode == tableIdx {
			for k := 0; k < len(m.text); k++ {
				rn.add("prefix", m.text[:k], nil, true, fmt.Sprintf("%s truncated at %d", m.name, k))
			}
			continue
		}
		codes := make([]string, len(m.text))
		hist := map[string]int{}
		var bad []int
		for k := 0; k < len(m.text); k++ {
			o := rn.run(m.text[:k], nil)
			hist[c14Class(o)]++
			rn.ctx.Count("observed:" + c14Class(o))
			rn.ctx.Count("stream:prefix")
			switch o {
			case "module":
				codes[k] = emit.Nat(0)
			case "error":
				codes[k] = emit.Nat(1)
			default:
				codes[k] = emit.Nat(2)
				bad = append(bad, k)
			}
		}
		rn.ctx.Add(emit.App("CPrefixes", emit.Str(m.text), emit.List(codes)),
			map[string]interface{}{"kind": "table", "stream": "prefix", "module": m.name, "text": m.text, "observed_histogram": hist}, true)
		for _, k := range bad {
			rn.add("prefix", m.text[:k], nil, true, fmt.Sprintf("%s truncated at %d", m.name, k))
		}
	}
}

const c14Hdr = "module m { namespace \"n\"; prefix p; "

func c14Directed(rn *c14Runner, r *gen.Rng) {
	// lexer corner cases
	for _, t := range []string{"", " ", "//", "// x", "/*", "/* x", "/*/", "module", "module m", "module m {", c14Hdr, c14Hdr + "}",
		c14Hdr + "} // end", c14Hdr + "} /* end", c14Hdr + "description ", c14Hdr + "description", c14Hdr + "description \"abc", c14Hdr + "description 'abc",
		c14Hdr + "description \"a\" +", c14Hdr + "description \"a\" + ", c14Hdr + "p:e", c14Hdr + "p:e ", c14Hdr + "p:e \"a", c14Hdr + "p:e 1", "x:y", ":", "x:y:z;",
		c14Hdr + "leaf l { type string; default \"\\", c14Hdr + "max-elements", c14Hdr + "list l { max-elements ", c14Hdr + "status", c14Hdr + "status x;",
		c14Hdr + "deviate", c14Hdr + "deviation /x { deviate", c14Hdr + "deviation /x { deviate not-supported", c14Hdr + "config", c14Hdr + "config maybe;",
		"}", "{", ";", "+", "\"", "'", "\\", "\x00", "\xff\xfe", "module \x00 {", c14Hdr + "description \"a\x00b\"; }", "module m { namespace \"n\"; prefix p; } }",
		"module m {{", "module m { namespace; }", "module m { prefix p; prefix q; namespace \"n\"; }", "submodule s { belongs-to m { prefix p; } }",
		c14Hdr + "container c; }", c14Hdr + "rpc r; }", c14Hdr + "leaf l { type; } }", c14Hdr + "leaf l { } }", c14Hdr + "leaf l; }",
		c14Hdr + "list l { key \"\"; } }", c14Hdr + "list l { key k; } }", c14Hdr + "list l { key \"a  b\"; leaf a { type string; } leaf b { type string; } } }",
		c14Hdr + "leaf l { type enumeration; } }", c14Hdr + "leaf l { type union; } }", c14Hdr + "leaf l { type leafref; } }",
		c14Hdr + "leaf l { type leafref { path \"\"; } } }", c14Hdr + "leaf l { type leafref { path \"/nope\"; } } }",
		c14Hdr + "container c { leaf x { type string; } } leaf l { type leafref { path \"/c\"; } } }",
		c14Hdr + "leaf l { type identityref { base nope; } } }", c14Hdr + "leaf l { type q:t; } }", c14Hdr + "leaf l { type nope; } }",
		c14Hdr + "uses nope; }", c14Hdr + "uses q:g; }", c14Hdr + "augment /nope { leaf x { type string; } } }", c14Hdr + "augment \"\" { leaf x { type string; } } }",
		c14Hdr + "import nope { prefix q; } }", c14Hdr + "include nope; }", c14Hdr + "import nope; }",
		c14Hdr + "leaf l { type decimal64; } }", c14Hdr + "leaf l { type decimal64 { fraction-digits 99; } } }", c14Hdr + "leaf l { type int32 { range \"x..y\"; } } }",
		c14Hdr + "leaf l { type int32 { range \"10..1\"; } } }", c14Hdr + "leaf l { type string { pattern \"(\"; } } }", c14Hdr + "leaf l { type string { length \"-1\"; } } }",
		c14Hdr + "leaf-list l { type string; max-elements 99999999999999999999; } }", c14Hdr + "leaf-list l { type string; min-elements -1; } }",
		c14Hdr + "leaf l { type enumeration { enum a { value 99999999999; } } } }", c14Hdr + "leaf l { type bits { bit b { position -1; } } } }",
		c14Hdr + "feature f; leaf l { if-feature \"f and\"; type string; } }", c14Hdr + "feature f; leaf l { if-feature \"(f\"; type string; } }",
		c14Hdr + "feature f; leaf l { if-feature \"not\"; type string; } }", c14Hdr + "leaf l { if-feature nope; type string; } }",
		c14Hdr + "choice c { default nope; case a { leaf x { type string; } } } }", c14Hdr + "anydata a { default x; } }",
		c14Hdr + "identity a { base nope; } }", c14Hdr + "extension e { argument; } }", c14Hdr + "p:e { p:e { p:e; } } }",
		c14Hdr + "rpc r { input { } output { } } }", c14Hdr + "notification n { } }", c14Hdr + "container c { action a { input { leaf x { type string; } } } } }",
		c14Hdr + "revision 2020-01-01 { revision 2019-01-01; } }", c14Hdr + "typedef t { } leaf l { type t; } }", c14Hdr + "typedef t { type t; } }",
		c14Hdr + "grouping g { } uses g; }", c14Hdr + "container c { uses g; grouping g { leaf x { type string; } } } }",
	} {
		rn.add("directed", t, nil, true, "")
	}
	// nesting depth
	for _, n := range []int{1, 2, 16, 64, 255, 256, 257, 300} {
		if !rn.ctx.Thorough() && (n == 16 || n == 64) {
			continue
		}
		rn.add("nesting", c14Hdr+strings.Repeat("container c { ", n)+"leaf l { type string; } "+strings.Repeat("} ", n)+"}", nil, true, fmt.Sprintf("%d nested containers", n))
		rn.add("nesting", c14Hdr+strings.Repeat("container c { ", n)+"leaf l { type string; } "+strings.Repeat("} ", n-1), nil, true, fmt.Sprintf("%d nested containers, unclosed", n))
		rn.add("nesting", c14Hdr+strings.Repeat("list l { key k; leaf k { type string; } ", n)+strings.Repeat("} ", n)+"}", nil, true, fmt.Sprintf("%d nested lists", n))
	}
	// concatenated strings and extension arguments
	for _, n := range []int{1, 2, 31, 32, 33, 64, 65, 100} {
		parts := make([]string, n)
		for i := range parts {
			parts[i] = fmt.Sprintf("\"%d\"", i)
		}
		rn.add("concat", c14Hdr+"description "+strings.Join(parts, " + ")+"; }", nil, true, fmt.Sprintf("%d concatenated strings", n))
		rn.add("ext-args", c14Hdr+"extension e { argument a; } p:e "+strings.Join(parts, " ")+"; }", nil, true, fmt.Sprintf("%d extension arguments", n))
	}
	// reference cycles
	for _, c := range []struct{ note, text string }{
		{"typedef a->b->a", c14Hdr + "typedef a { type b; } typedef b { type a; } leaf l { type a; } }"},
		{"typedef a->a", c14Hdr + "typedef a { type a; } leaf l { type a; } }"},
		{"typedef cycle unused", c14Hdr + "typedef a { type b; } typedef b { type c; } typedef c { type a; } }"},
		{"typedef cycle through union", c14Hdr + "typedef a { type union { type string; type a; } } leaf l { type a; } }"},
		{"identity a<->b", c14Hdr + "identity a { base b; } identity b { base a; } leaf l { type identityref { base a; } } }"},
		{"identity a->a", c14Hdr + "identity a { base a; } }"},
		{"grouping with data using itself", c14Hdr + "grouping g { leaf x { type string; } container c { uses g; } } uses g; }"},
		{"leafref to itself", c14Hdr + "leaf l { type leafref { path \"/l\"; } } }"},
		{"leafref a<->b", c14Hdr + "leaf a { type leafref { path \"/b\"; } } leaf b { type leafref { path \"/a\"; } } }"},
		{"augment into itself", c14Hdr + "container c { } augment /c { container c { } } augment /c/c { leaf x { type string; } } }"},
		{"grouping cycle below the augment of a uses", c14Hdr + "grouping g { container k { leaf l { type string; } } } grouping h { leaf m { type string; } uses g { augment k { container z { uses h; } } } } container c { uses h; } }"},
		{"grouping using itself with an augment", c14Hdr + "grouping g { leaf l { type string; } container k { uses g { augment k { leaf q { type string; } } } } } container c { uses g; } }"},
		{"grouping using itself with a refine", c14Hdr + "grouping g { leaf l { type string; } container k { uses g { refine l { description \"d\"; } } } } container c { uses g; } }"},
		{"grouping cycle through an action, used with an augment into the action", c14Hdr + "grouping g { leaf l { type string; } action a { input { container k { uses g; } } } } container c { uses g { augment a/input/k { leaf q { type string; } } } } }"},
	} {
		rn.add("cycle", c.text, nil, true, c.note)
	}
	// (quick tier: one structured case of this kind in the grouping-graph stream, c14graph.go)
	if rn.ctx.Thorough() {
		rn.add("uses-cycle", c14Hdr+"grouping g { uses h; } grouping h { uses g; } uses g; }", nil, true, "grouping g uses h, h uses g, no data nodes (known finding 2)")
		rn.add("uses-cycle", c14Hdr+"grouping g { uses g; } uses g; }", nil, true, "grouping g uses g, no data nodes (known finding 2)")
	}
	// deviations that do not fit their target (known finding 1)
	for _, c := range []struct{ note, body string }{
		{"add units to a container", "container c { leaf x { type string; } } deviation /c { deviate add { units s; } }"},
		{"add default to a container", "container c { leaf x { type string; } } deviation /c { deviate add { default d; } }"},
		{"add max-elements to a leaf", "leaf x { type string; } deviation /x { deviate add { max-elements 3; } }"},
		{"add min-elements to a container", "container c { } deviation /c { deviate add { min-elements 1; } }"},
		{"replace type of a container", "container c { } deviation /c { deviate replace { type string; } }"},
		{"delete units of a container", "container c { } deviation /c { deviate delete { units s; } }"},
		{"add mandatory to an rpc", "rpc r { input { leaf x { type string; } } } deviation /r { deviate add { mandatory true; } }"},
		{"add must to an rpc", "rpc r { input { leaf x { type string; } } } deviation /r { deviate add { must \"1\"; } }"},
		{"not-supported on the module's only container", "container c { } deviation /c { deviate not-supported; }"},
		{"add config to a leaf (fits)", "leaf x { type string; } deviation /x { deviate add { config false; } }"},
	} {
		rn.add("deviation-mismatch", c14Hdr+c.body+" }", nil, true, c.note)
	}
}

func c14Opener(rn *c14Runner, r *gen.Rng) {
	main := "module a { namespace \"a\"; prefix a; import b { prefix b; } include s; leaf l { type b:t; } uses g; }"
	b := "module b { namespace \"b\"; prefix b; typedef t { type string; } }"
	s := "submodule s { belongs-to a { prefix a; } grouping g { leaf x { type string; } } }"
	txt := func(t string) c14File { return c14File{Kind: "text", Text: t} }
	cases := []struct {
		note  string
		files map[string]c14File
		text  string
	}{
		{"all present", map[string]c14File{"b": txt(b), "s": txt(s)}, main},
		{"import missing", map[string]c14File{"s": txt(s)}, main},
		{"include missing", map[string]c14File{"b": txt(b)}, main},
		{"import read error", map[string]c14File{"b": {Kind: "readerr"}, "s": txt(s)}, main},
		{"include read error", map[string]c14File{"b": txt(b), "s": {Kind: "readerr"}}, main},
		{"module where submodule expected", map[string]c14File{"b": txt(b), "s": txt("module s { namespace \"s\"; prefix s; grouping g { leaf x { type string; } } }")}, main},
		{"submodule where module expected", map[string]c14File{"b": txt("submodule b { belongs-to a { prefix a; } typedef t { type string; } }"), "s": txt(s)}, main},
		{"import is garbage", map[string]c14File{"b": txt("module b { namespace"), "s": txt(s)}, main},
		{"include is garbage", map[string]c14File{"b": txt(b), "s": txt("submodule s { belongs-to")}, main},
		{"import is empty", map[string]c14File{"b": txt(""), "s": txt(s)}, main},
		{"include is empty", map[string]c14File{"b": txt(b), "s": txt("")}, main},
		{"imported module has another name", map[string]c14File{"b": txt(strings.Replace(b, "module b", "module c", 1)), "s": txt(s)}, main},
		{"submodule belongs to another module", map[string]c14File{"b": txt(b), "s": txt(strings.Replace(s, "belongs-to a", "belongs-to z", 1))}, main},
		{"self import", map[string]c14File{"a": txt("module a { namespace \"a\"; prefix a; import a { prefix q; } }")}, "module a { namespace \"a\"; prefix a; import a { prefix q; } }"},
		{"mutual import", map[string]c14File{"b": txt("module b { namespace \"b\"; prefix b; import a { prefix a; } }"),
			"a": txt("module a { namespace \"a\"; prefix a; import b { prefix b; } }")}, "module a { namespace \"a\"; prefix a; import b { prefix b; } }"},
		{"import chain of three with cycle", map[string]c14File{"b": txt("module b { namespace \"b\"; prefix b; import c { prefix c; } }"),
			"c": txt("module c { namespace \"c\"; prefix c; import b { prefix b; } }")}, "module a { namespace \"a\"; prefix a; import b { prefix b; } }"},
		{"submodule includes itself", map[string]c14File{"s": txt("submodule s { belongs-to a { prefix a; } include s; }")}, "module a { namespace \"a\"; prefix a; include s; }"},
		{"submodules include each other", map[string]c14File{"s": txt("submodule s { belongs-to a { prefix a; } include t; leaf x { type string; } }"),
			"t": txt("submodule t { belongs-to a { prefix a; } include s; leaf y { type string; } }")}, "module a { namespace \"a\"; prefix a; include s; include t; }"},
		{"same submodule included twice", map[string]c14File{"s": txt(s)}, "module a { namespace \"a\"; prefix a; include s; include s; uses g; }"},
		{"submodule includes itself with a revision-date", map[string]c14File{"s": txt("submodule s { belongs-to a { prefix a; } include s { revision-date 2001-01-01; } revision 2020-01-01; }")}, "module a { namespace \"a\"; prefix a; include s { revision-date 2001-01-01; } }"},
		{"submodules include each other with revision-dates", map[string]c14File{"s": txt("submodule s { belongs-to a { prefix a; } include t { revision-date 2019-01-01; } revision 2020-01-01; revision 2019-01-01; leaf x { type string; } }"),
			"t": txt("submodule t { belongs-to a { prefix a; } include s { revision-date 2019-01-01; } revision 2020-01-01; revision 2019-01-01; leaf y { type string; } }")}, "module a { namespace \"a\"; prefix a; include s { revision-date 2019-01-01; } }"},
		{"self import with a revision-date, import by a submodule", map[string]c14File{"a": txt("module a { namespace \"a\"; prefix a; include s; }"),
			"s": txt("submodule s { belongs-to a { prefix a; } import a { prefix q; revision-date 2001-01-01; } }")}, "module a { namespace \"a\"; prefix a; include s; }"},
		{"import without prefix", map[string]c14File{"b": txt(b)}, "module a { namespace \"a\"; prefix a; import b; }"},
		{"imported typedef cycle across modules", map[string]c14File{"b": txt("module b { namespace \"b\"; prefix b; import a { prefix a; } typedef t { type a:u; } }"),
			"a": txt("module a { namespace \"a\"; prefix a; import b { prefix b; } typedef u { type b:t; } leaf l { type u; } }")},
			"module a { namespace \"a\"; prefix a; import b { prefix b; } typedef u { type b:t; } leaf l { type u; } }"},
	}
	for _, c := range cases {
		rn.add("opener", c.text, c.files, false, c.note)
	}
	// every truncation point of an imported file and of an included file
	if rn.ctx.Thorough() {
		for k := 0; k < len(b); k++ {
			rn.add("opener-prefix", main, map[string]c14File{"b": txt(b[:k]), "s": txt(s)}, false, fmt.Sprintf("import truncated at %d", k))
		}
		for k := 0; k < len(s); k++ {
			rn.add("opener-prefix", main, map[string]c14File{"b": txt(b), "s": txt(s[:k])}, false, fmt.Sprintf("include truncated at %d", k))
		}
	} else {
		for i := 0; i < 30; i++ {
			k := r.Intn(len(b))
			rn.add("opener-prefix", main, map[string]c14File{"b": txt(b[:k]), "s": txt(s)}, false, fmt.Sprintf("import truncated at %d", k))
			k = r.Intn(len(s))
			rn.add("opener-prefix", main, map[string]c14File{"b": txt(b), "s": txt(s[:k])}, false, fmt.Sprintf("include truncated at %d", k))
		}
	}
}

func c14Random(rn *c14Runner, r *gen.Rng, n int) {
	alpha := []string{"module", "container", "leaf", "list", "type", "string", "description", "{", "}", ";", " ", " ", "\n", "\"", "'", "\\", "+", "/", "*", "//", "/*", "*/",
		"m", "x", "1", "p:e", "uses", "grouping", "key", "deviate", "add", "status", "config", "true", "max-elements", "unbounded", "\x00", "\xff", "é", " ", ":", "."}
	for i := 0; i < n; i++ {
		var sb strings.Builder
		if r.Chance(2, 3) {
			sb.WriteString(c14Hdr)
		}
		for k := r.Intn(30); k > 0; k-- {
			sb.WriteString(gen.Pick(r, alpha))
			if r.Chance(1, 2) {
				sb.WriteByte(' ')
			}
		}
		rn.add("random", sb.String(), nil, true, "")
	}
}

// C14: loading any text terminates with a module or an error.
func C14(ctx *core.Ctx) error {
	ctx.Imports = "YLex.Keywords YLex.Model Load.Model Check.C14Check"
	ctx.Rule = "one load of one text (with an in-memory opener) in a worker sub-process, 2 s limit, followed by a walk of the module through the public accessors; non-trivial when the load did not simply succeed or the text is longer than 40 bytes"
	ctx.ShardMax = 150000
	r := gen.New(ctx.Seed)
	rn := &c14Runner{ctx: ctx, w: core.NewWorker("c14")}
	defer rn.w.Close()
	corpus := c14Corpus(rn, r.Fork(1))
	ctx.Extra["corpus_modules"] = len(corpus)
	c14Directed(rn, r.Fork(2))
	c14Opener(rn, r.Fork(3))
	c14Prefixes(rn, r.Fork(4), corpus, ctx.Scale(1500, 12000))
	n := ctx.Scale(300, 3000)
	if ctx.Tier == "search" {
		n = 4000
	}
	c14Mutations(rn, r.Fork(5), corpus, n)
	c14Random(rn, r.Fork(6), ctx.Scale(200, 2000))
	c14ImportGraphs(rn, r.Fork(7))
	c14GroupingGraphs(rn, r.Fork(8))
	c14ModKinds(rn, r.Fork(9))
	c14UpPaths(rn, r.Fork(10))
	c14Singletons(rn, r.Fork(11))
	c14SubImports(rn, r.Fork(12))
	ctx.Extra["worker_restarts"] = rn.w.Restarts
	return nil
}
