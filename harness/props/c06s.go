package props

import (
	"fmt"
	"sort"
	"strconv"
	"strings"

	"github.com/freeconf/yang/meta"

	"yvh/core"
	"yvh/emit"
	"yvh/gen"
)

// ---- (S) statement fidelity: a generated statement tree read back through the accessors ----------
// Correspondence only (no algorithmic model): the spec oracle is equality with what was written.

type c6stmt struct {
	kw   string
	arg  string
	raw  bool // argument written unquoted (keywords, numbers, identifiers)
	subs []*c6stmt
}

func (s *c6stmt) add(kw, arg string, raw bool) *c6stmt {
	c := &c6stmt{kw: kw, arg: arg, raw: raw}
	s.subs = append(s.subs, c)
	return c
}

func c6q(s string) string {
	r := strings.NewReplacer("\\", "\\\\", "\"", "\\\"", "\n", "\\n", "\t", "\\t")
	return "\"" + r.Replace(s) + "\""
}

func (s *c6stmt) render(sb *strings.Builder, indent int) {
	sb.WriteString(strings.Repeat(" ", indent))
	sb.WriteString(s.kw)
	if s.arg != "" || !s.raw {
		sb.WriteByte(' ')
		if s.raw {
			sb.WriteString(s.arg)
		} else {
			sb.WriteString(c6q(s.arg))
		}
	}
	if len(s.subs) == 0 {
		sb.WriteString(";\n")
		return
	}
	sb.WriteString(" {\n")
	for _, c := range s.subs {
		c.render(sb, indent+1)
	}
	sb.WriteString(strings.Repeat(" ", indent) + "}\n")
}

func (s *c6stmt) find(kw string) []*c6stmt {
	var r []*c6stmt
	for _, c := range s.subs {
		if c.kw == kw {
			r = append(r, c)
		}
	}
	return r
}

var c6words = []string{"alpha", "beta gamma", "x", "the quick; brown {fox}", "a\nb", "tab\there", "q\"uote", "back\\slash", "it's", "50%", "/a/b", "é", "a + b", "// no comment", "/* nor this */"}

func c6word(r *gen.Rng) string { return gen.Pick(r, c6words) }

type c6gen struct {
	r        *gen.Rng
	seq      int
	cfgFalse int // > 0 below a definition written with config false
}

func (g *c6gen) id(p string) string { g.seq++; return fmt.Sprintf("%s%d", p, g.seq) }

func (g *c6gen) common(s *c6stmt, status bool) {
	r := g.r
	if r.Chance(1, 2) {
		d := s.add("description", c6word(r), false)
		if r.Chance(1, 6) {
			d.add("m:e", "sec-"+c6word(r), false) // extension on a secondary keyword (known finding 6)
		}
	}
	if r.Chance(1, 3) {
		s.add("reference", c6word(r), false)
	}
	if status && r.Chance(1, 4) {
		s.add("status", gen.Pick(r, []string{"current", "deprecated", "obsolete"}), true)
	}
	if r.Chance(1, 4) {
		s.add("m:e", "ext-"+c6word(r), false)
	}
}

func (g *c6gen) musts(s *c6stmt) {
	r := g.r
	for n := r.Intn(3); n > 0; n-- {
		m := s.add("must", gen.Pick(r, []string{"../x = 'a b'", "count(*) > 0", ". != \"q\"", "a/b"}), false)
		if r.Chance(1, 2) {
			m.add("error-message", c6word(r), false)
		}
		if r.Chance(1, 2) {
			m.add("error-app-tag", c6word(r), false)
		}
		if r.Chance(1, 3) {
			m.add("description", c6word(r), false)
		}
		if r.Chance(1, 4) {
			m.add("reference", c6word(r), false)
		}
	}
}

func (g *c6gen) when(s *c6stmt) {
	if g.r.Chance(1, 4) {
		w := s.add("when", gen.Pick(g.r, []string{"../a = 'b'", "x > 5", "not(y)"}), false)
		if g.r.Chance(1, 3) {
			w.add("description", c6word(g.r), false)
		}
	}
}

func (g *c6gen) config(s *c6stmt) bool {
	if g.r.Chance(1, 3) {
		v := gen.Pick(g.r, []string{"true", "false"})
		if g.cfgFalse > 0 {
			v = "false"
		}
		s.add("config", v, true)
		return v == "false"
	}
	return false
}

func (g *c6gen) typ(s *c6stmt) (kind string) {
	r := g.r
	kind = gen.Pick(r, []string{"string", "string", "int32", "uint8", "boolean", "enumeration", "decimal64", "bits", "union", "leafref", "identityref"})
	switch kind {
	case "string":
		t := s.add("type", "string", true)
		if r.Chance(1, 3) {
			l := t.add("length", gen.Pick(r, []string{"1..10", "0..5 | 7", "min..max"}), false)
			if r.Chance(1, 2) {
				l.add("error-message", c6word(r), false)
			}
		}
		if r.Chance(1, 3) {
			p := t.add("pattern", gen.Pick(r, []string{"[a-z]+", "\\d{2}", "a|b", "x\"y"}), false)
			if r.Chance(1, 2) {
				p.add("error-message", c6word(r), false)
			}
			if r.Chance(1, 3) {
				p.add("error-app-tag", c6word(r), false)
			}
			if r.Chance(1, 3) {
				p.add("description", c6word(r), false)
			}
		}
	case "int32", "uint8":
		t := s.add("type", kind, true)
		if r.Chance(1, 2) {
			rg := t.add("range", gen.Pick(r, []string{"1..10", "0..5 | 7..9", "3"}), false)
			if r.Chance(1, 2) {
				rg.add("error-app-tag", c6word(r), false)
			}
			if r.Chance(1, 3) {
				rg.add("description", c6word(r), false)
			}
		}
	case "boolean":
		s.add("type", "boolean", true)
	case "enumeration":
		t := s.add("type", "enumeration", true)
		n := 1 + r.Intn(4)
		v := r.Intn(5)
		for i := 0; i < n; i++ {
			e := t.add("enum", g.id("e"), r.Chance(1, 2))
			if r.Chance(1, 2) {
				v += 1 + r.Intn(3)
				e.add("value", strconv.Itoa(v), true)
			}
			if r.Chance(1, 3) {
				e.add("description", c6word(r), false)
			}
		}
	case "decimal64":
		t := s.add("type", "decimal64", true)
		t.add("fraction-digits", strconv.Itoa(1+r.Intn(6)), true)
	case "bits":
		t := s.add("type", "bits", true)
		n := 1 + r.Intn(3)
		for i := 0; i < n; i++ {
			b := t.add("bit", g.id("b"), true)
			if r.Chance(1, 2) {
				b.add("position", strconv.Itoa(i*2), true)
			}
			if r.Chance(1, 3) {
				b.add("description", c6word(r), false)
			}
		}
	case "union":
		t := s.add("type", "union", true)
		t.add("type", "int32", true)
		t.add("type", "string", true)
	case "leafref":
		t := s.add("type", "leafref", true)
		t.add("path", "/m:top/m:name", false)
		if r.Chance(1, 3) {
			t.add("require-instance", gen.Pick(r, []string{"true", "false"}), true)
		}
	case "identityref":
		t := s.add("type", "identityref", true)
		t.add("base", "idbase", true)
	}
	return kind
}

func c6defaultFor(r *gen.Rng, kind string, t *c6stmt) (string, bool) {
	switch kind {
	case "string":
		if len(t.subs) == 0 {
			return c6word(r), true
		}
	case "boolean":
		return gen.Pick(r, []string{"true", "false"}), true
	case "enumeration":
		return t.find("enum")[0].arg, true
	}
	return "", false
}

func (g *c6gen) leaf(parent *c6stmt, ident string, forceString bool) *c6stmt {
	r := g.r
	l := parent.add("leaf", ident, true)
	kind := "string"
	if forceString {
		l.add("type", "string", true)
	} else {
		kind = g.typ(l)
	}
	t := l.find("type")[0]
	if r.Chance(1, 3) {
		l.add("units", c6word(r), r.Chance(1, 2) == false && false)
	}
	hasDefault := false
	if !forceString && r.Chance(1, 3) {
		if d, ok := c6defaultFor(r, kind, t); ok {
			l.add("default", d, false)
			hasDefault = true
		}
	}
	if !hasDefault && !forceString && r.Chance(1, 4) {
		l.add("mandatory", gen.Pick(r, []string{"true", "false"}), true)
	}
	if !forceString {
		g.config(l)
		g.when(l)
		g.musts(l)
	}
	g.common(l, true)
	return l
}

func (g *c6gen) minmax(s *c6stmt) {
	r := g.r
	if r.Chance(1, 3) {
		s.add("min-elements", strconv.Itoa(r.Intn(4)), true)
	}
	if r.Chance(1, 3) {
		s.add("max-elements", gen.Pick(r, []string{"unbounded", "10", "4", "1000000"}), true)
	}
	if r.Chance(1, 3) {
		s.add("ordered-by", gen.Pick(r, []string{"system", "user"}), true)
	}
}

func (g *c6gen) dataDef(parent *c6stmt, depth int, allowAction bool) {
	r := g.r
	k := r.Intn(12)
	if depth <= 0 && k < 5 {
		k = 5 + r.Intn(3)
	}
	switch {
	case k < 3: // container
		c := parent.add("container", g.id("c"), true)
		if r.Chance(1, 3) {
			c.add("presence", c6word(r), false)
		}
		if g.config(c) {
			g.cfgFalse++
			defer func() { g.cfgFalse-- }()
		}
		g.when(c)
		g.musts(c)
		g.common(c, true)
		for n := 1 + r.Intn(3); n > 0; n-- {
			g.dataDef(c, depth-1, true)
		}
		if allowAction && r.Chance(1, 5) {
			g.rpc(c, "action")
		}
	case k < 5: // list
		l := parent.add("list", g.id("l"), true)
		nk := 1 + r.Intn(2)
		var keys []string
		for i := 0; i < nk; i++ {
			keys = append(keys, g.id("k"))
		}
		l.add("key", strings.Join(keys, " "), r.Chance(1, 2) && nk == 1)
		var extra []string
		for n := r.Intn(3); n > 0; n-- {
			extra = append(extra, g.id("u"))
		}
		if len(extra) > 0 && r.Chance(1, 2) {
			l.add("unique", strings.Join(extra, " "), false)
		}
		g.minmax(l)
		if g.config(l) {
			g.cfgFalse++
			defer func() { g.cfgFalse-- }()
		}
		g.when(l)
		g.musts(l)
		g.common(l, true)
		for _, kk := range keys {
			g.leaf(l, kk, true)
		}
		for _, u := range extra {
			g.leaf(l, u, true)
		}
		for n := r.Intn(3); n > 0; n-- {
			g.dataDef(l, depth-1, true)
		}
	case k < 8:
		g.leaf(parent, g.id("f"), false)
	case k < 9: // leaf-list
		l := parent.add("leaf-list", g.id("ll"), true)
		kind := g.typ(l)
		if r.Chance(1, 3) {
			l.add("units", c6word(r), false)
		}
		if kind == "string" && len(l.find("type")[0].subs) == 0 && r.Chance(1, 3) {
			for n := 1 + r.Intn(3); n > 0; n-- {
				l.add("default", g.id("dv"), false)
			}
		}
		g.minmax(l)
		g.config(l)
		g.when(l)
		g.common(l, true)
	case k < 10: // choice
		c := parent.add("choice", g.id("ch"), true)
		if r.Chance(1, 4) {
			c.add("mandatory", gen.Pick(r, []string{"true", "false"}), true)
		}
		g.common(c, true)
		for n := 1 + r.Intn(3); n > 0; n-- {
			cs := c.add("case", g.id("cs"), true)
			g.common(cs, true)
			for m := 1 + r.Intn(2); m > 0; m-- {
				g.leaf(cs, g.id("f"), false)
			}
		}
	default: // anydata / anyxml
		a := parent.add(gen.Pick(r, []string{"anydata", "anyxml"}), g.id("any"), true)
		if r.Chance(1, 3) {
			a.add("mandatory", gen.Pick(r, []string{"true", "false"}), true)
		}
		g.config(a)
		g.when(a)
		g.common(a, true)
	}
}

func (g *c6gen) rpc(parent *c6stmt, kw string) {
	r := g.r
	a := parent.add(kw, g.id("op"), true)
	g.common(a, true)
	if r.Chance(2, 3) {
		in := a.add("input", "", true)
		for n := 1 + r.Intn(2); n > 0; n-- {
			g.leaf(in, g.id("f"), false)
		}
	}
	if r.Chance(2, 3) {
		out := a.add("output", "", true)
		for n := 1 + r.Intn(2); n > 0; n-- {
			g.leaf(out, g.id("f"), false)
		}
	}
	if len(a.subs) == 0 {
		// "rpc x;" is legal YANG but the lexer insists on a block after these keywords (reported, not generated)
		a.add("description", c6word(r), false)
	}
}

// ---- pattern statements ----------------------------------------------------------------------
// A pattern statement is a statement of its own: two of them with the same expression text (in one
// type, in two leaves, in a typedef, in another module text loaded by the same process) each keep
// their own description, reference, error-message, error-app-tag, modifier and extensions. Every
// module gets a section whose pattern texts come from a sub-pool of 3 of these, so that every module
// repeats at least one expression and successive modules share expressions.
var c6patTexts = []string{"[0-9]+", "[a-z]+", "\\d{2}", "a|b", "x\"y", "[a-f]{4}-c06", "(ab)*c?", ".*"}

func (g *c6gen) patternStmt(r *gen.Rng, t *c6stmt, text string) {
	p := t.add("pattern", text, false)
	if r.Chance(1, 4) {
		return // bare: pattern "x";
	}
	// sub-statements in any order
	kinds := []string{"description", "reference", "error-message", "error-app-tag", "modifier", "m:e"}
	for i := len(kinds) - 1; i > 0; i-- {
		j := r.Intn(i + 1)
		kinds[i], kinds[j] = kinds[j], kinds[i]
	}
	for _, k := range kinds {
		switch k {
		case "modifier":
			if r.Chance(1, 3) {
				p.add("modifier", "invert-match", true)
			}
		case "m:e":
			if r.Chance(1, 4) {
				p.add("m:e", "pat-"+c6word(r), false)
			}
		default:
			if r.Chance(2, 5) {
				p.add(k, c6word(r), false)
			}
		}
	}
}

func (g *c6gen) patternSection(m *c6stmt, r *gen.Rng) {
	pool := append([]string(nil), c6patTexts...)
	for i := len(pool) - 1; i > 0; i-- {
		j := r.Intn(i + 1)
		pool[i], pool[j] = pool[j], pool[i]
	}
	pool = pool[:3]
	total := 0
	stringType := func(s *c6stmt, min int) {
		t := s.add("type", "string", true)
		for n := min + r.Intn(3); n > 0; n-- {
			g.patternStmt(r, t, gen.Pick(r, pool))
			total++
		}
	}
	if r.Chance(1, 2) {
		stringType(m.add("typedef", g.id("ptd"), true), 1)
	}
	c := m.add("container", g.id("pats"), true)
	for n := 2 + r.Intn(3); n > 0 || total < 4; n-- {
		kw := "leaf"
		if r.Chance(1, 5) {
			kw = "leaf-list"
		}
		stringType(c.add(kw, g.id("pf"), true), 1)
	}
}

func (g *c6gen) module() *c6stmt {
	r := g.r
	pr := *g.r // the pattern section draws from a stream of its own: the rest of the module is as before
	rr := *g.r // and so does the order of the revisions
	m := &c6stmt{kw: "module", arg: "m", raw: true}
	m.add("yang-version", "1.1", true)
	m.add("namespace", "urn:"+c6word(r), false)
	m.add("prefix", "m", r.Chance(1, 2))
	if r.Chance(1, 2) {
		m.add("organization", c6word(r), false)
	}
	if r.Chance(1, 2) {
		m.add("contact", c6word(r), false)
	}
	if r.Chance(1, 2) {
		m.add("description", c6word(r), false)
	}
	if r.Chance(1, 2) {
		m.add("reference", c6word(r), false)
	}
	year := 2024
	var revs []*c6stmt
	for n := r.Intn(4); n > 0; n-- {
		rv := m.add("revision", fmt.Sprintf("%d-0%d-1%d", year, 1+r.Intn(9), r.Intn(10)), true)
		year -= 1 + r.Intn(3)
		if r.Chance(1, 2) {
			rv.add("description", c6word(r), false)
		}
		if r.Chance(1, 3) {
			rv.add("reference", c6word(r), false)
		}
		revs = append(revs, rv)
	}
	// the dates in any order (newest first is a SHOULD of RFC 7950 7.1.9), drawn from a stream of its own
	for i, sr := len(revs)-1, rr.Fork(0x726576); i > 0; i-- {
		j := sr.Intn(i + 1)
		revs[i].arg, revs[j].arg = revs[j].arg, revs[i].arg
	}
	e := m.add("extension", "e", true)
	ea := e.add("argument", "a", true)
	if r.Chance(1, 2) {
		ea.add("yin-element", gen.Pick(r, []string{"true", "false"}), true)
	}
	if r.Chance(1, 2) {
		e.add("description", c6word(r), false)
	}
	for n := r.Intn(3); n > 0; n-- {
		f := m.add("feature", g.id("ft"), true)
		g.common(f, true)
	}
	ib := m.add("identity", "idbase", true)
	if r.Chance(1, 2) {
		ib.add("description", c6word(r), false)
	}
	for n := r.Intn(3); n > 0; n-- {
		i := m.add("identity", g.id("id"), true)
		i.add("base", "idbase", true)
		g.common(i, true)
	}
	for n := r.Intn(3); n > 0; n-- {
		t := m.add("typedef", g.id("td"), true)
		kind := g.typ(t)
		if r.Chance(1, 3) {
			t.add("units", c6word(r), false)
		}
		if r.Chance(1, 3) {
			if d, ok := c6defaultFor(r, kind, t.find("type")[0]); ok {
				t.add("default", d, false)
			}
		}
		if r.Chance(1, 2) {
			t.add("description", c6word(r), false)
		}
	}
	top := m.add("container", "top", true)
	top.add("leaf", "name", true).add("type", "string", true)
	for n := 2 + r.Intn(4); n > 0; n-- {
		g.dataDef(m, 2, true)
	}
	if r.Chance(1, 2) {
		g.rpc(m, "rpc")
	}
	if r.Chance(1, 2) {
		n := m.add("notification", g.id("nt"), true)
		g.common(n, true)
		for k := 1 + r.Intn(2); k > 0; k-- {
			g.leaf(n, g.id("f"), false)
		}
	}
	g.patternSection(m, pr.Fork(0x706174))
	return m
}

// ---- reading back ---------------------------------------------------------------------------

type c6rec struct {
	path    string
	kind    int
	written []string
	read    []string
}

type c6reader struct {
	recs []c6rec
}

func c6bool(set, v bool) string {
	if !set {
		return "<unset>"
	}
	return strconv.FormatBool(v)
}

var c6statusNames = map[meta.Status]string{meta.Current: "current", meta.Deprecated: "deprecated", meta.Obsolete: "obsolete"}

var c6dataKw = map[string]bool{"container": true, "list": true, "leaf": true, "leaf-list": true, "choice": true, "case": true, "anydata": true, "anyxml": true}

func c6extsOf(o interface{}, keyword string) []string {
	h, ok := o.(meta.HasExtensions)
	if !ok {
		return []string{"<no extensions>"}
	}
	var r []string
	for _, e := range h.Extensions() {
		if e.Keyword() == keyword {
			r = append(r, e.Prefix()+":"+e.Ident()+" "+e.Argument())
		}
	}
	return r
}

// scalar reads one written sub-statement of st back from o; ok=false when this reader does not know it
func (rd *c6reader) scalars(path string, st *c6stmt, o interface{}) {
	rec := c6rec{path: path}
	w := func(name, written, read string) {
		rec.written = append(rec.written, name+"="+written)
		rec.read = append(rec.read, name+"="+read)
	}
	if id, ok := o.(meta.Identifiable); ok && st.arg != "" && st.kw != "must" && st.kw != "when" && st.kw != "type" &&
		st.kw != "pattern" && st.kw != "range" && st.kw != "length" {
		w("ident", st.arg, id.Ident())
	}
	var exts, defaults, uniques []string
	for _, s := range st.subs {
		switch s.kw {
		case "description":
			w(s.kw, s.arg, o.(meta.Describable).Description())
			for _, e := range s.find("m:e") {
				rd.recs = append(rd.recs, c6rec{path: path + "/description/m:e", kind: 2,
					written: []string{"m:e " + e.arg}, read: c6extsOf(o, "description")})
			}
		case "reference":
			w(s.kw, s.arg, o.(meta.Describable).Reference())
		case "presence":
			w(s.kw, s.arg, o.(meta.HasPresence).Presence())
		case "units":
			w(s.kw, s.arg, o.(meta.HasUnits).Units())
		case "config":
			h := o.(meta.HasConfig)
			w(s.kw, s.arg, c6bool(h.IsConfigSet(), h.Config()))
		case "mandatory":
			h := o.(meta.HasMandatory)
			w(s.kw, s.arg, c6bool(h.IsMandatorySet(), h.Mandatory()))
		case "min-elements":
			h := o.(meta.HasMinMax)
			if h.IsMinElementsSet() {
				w(s.kw, s.arg, strconv.Itoa(h.MinElements()))
			} else {
				w(s.kw, s.arg, "<unset>")
			}
		case "max-elements":
			h := o.(meta.HasMinMax)
			u := o.(meta.HasUnbounded)
			switch {
			case u.IsUnboundedSet() && u.Unbounded():
				w(s.kw, s.arg, "unbounded")
			case h.IsMaxElementsSet():
				w(s.kw, s.arg, strconv.Itoa(h.MaxElements()))
			default:
				w(s.kw, s.arg, "<unset>")
			}
		case "ordered-by":
			if o.(meta.HasOrderedBy).OrderedBy() == meta.OrderedByUser {
				w(s.kw, s.arg, "user")
			} else {
				w(s.kw, s.arg, "system")
			}
		case "status":
			rd.recs = append(rd.recs, c6rec{path: path + "/status", kind: 1, written: []string{s.arg},
				read: []string{c6statusNames[o.(meta.HasStatus).Status()]}})
		case "key":
			var ks []string
			for _, k := range o.(*meta.List).KeyMeta() {
				ks = append(ks, k.Ident())
			}
			w(s.kw, s.arg, strings.Join(ks, " "))
		case "unique":
			uniques = append(uniques, s.arg)
		case "default":
			defaults = append(defaults, s.arg)
		case "m:e":
			exts = append(exts, "m:e "+s.arg)
		case "namespace":
			w(s.kw, s.arg, o.(*meta.Module).Namespace())
		case "prefix":
			w(s.kw, s.arg, o.(*meta.Module).Prefix())
		case "organization":
			w(s.kw, s.arg, o.(*meta.Module).Organization())
		case "contact":
			w(s.kw, s.arg, o.(*meta.Module).Contact())
		case "yang-version":
			w(s.kw, s.arg, o.(*meta.Module).Version())
		case "error-message":
			w(s.kw, s.arg, o.(meta.HasErrorMessage).ErrorMessage())
		case "error-app-tag":
			w(s.kw, s.arg, o.(meta.HasErrorMessage).ErrorAppTag())
		case "value":
			w(s.kw, s.arg, strconv.Itoa(o.(*meta.Enum).Value()))
		case "position":
			w(s.kw, s.arg, strconv.Itoa(o.(*meta.Bit).Position))
		case "fraction-digits":
			w(s.kw, s.arg, strconv.Itoa(o.(*meta.Type).FractionDigits()))
		case "path":
			w(s.kw, s.arg, o.(*meta.Type).Path())
		case "require-instance":
			w(s.kw, s.arg, strconv.FormatBool(o.(*meta.Type).RequireInstance()))
		case "yin-element":
			w(s.kw, s.arg, strconv.FormatBool(o.(*meta.ExtensionDefArg).YinElement()))
		case "base":
			switch x := o.(type) {
			case *meta.Identity:
				w(s.kw, s.arg, strings.Join(x.BaseIds(), ","))
			case *meta.Type:
				var ids []string
				for _, b := range x.Base() {
					ids = append(ids, b.Ident())
				}
				w(s.kw, s.arg, strings.Join(ids, ","))
			}
		}
	}
	if len(uniques) > 0 {
		var got []string
		for _, u := range o.(meta.HasUnique).Unique() {
			got = append(got, strings.Join(u, " "))
		}
		w("unique", strings.Join(uniques, "|"), strings.Join(got, "|"))
	}
	if len(defaults) > 0 {
		switch h := o.(type) {
		case meta.HasDefaultValues:
			w("default", strings.Join(defaults, "|"), strings.Join(h.Default(), "|"))
		case meta.HasDefaultValue:
			w("default", strings.Join(defaults, "|"), h.Default())
		}
	}
	if len(exts) > 0 {
		w("extensions", strings.Join(exts, "|"), strings.Join(c6extsOf(o, ""), "|"))
	}
	// order of child data definitions
	var kids []string
	for _, s := range st.subs {
		if c6dataKw[s.kw] {
			kids = append(kids, s.arg)
		}
	}
	if h, ok := o.(meta.HasDataDefinitions); ok && len(kids) > 0 {
		var got []string
		for _, d := range h.DataDefinitions() {
			got = append(got, d.Ident())
		}
		w("children", strings.Join(kids, ","), strings.Join(got, ","))
	}
	if len(rec.written) > 0 {
		rd.recs = append(rd.recs, rec)
	}
}

func (rd *c6reader) walk(path string, st *c6stmt, o interface{}) {
	defer func() {
		if r := recover(); r != nil {
			rd.recs = append(rd.recs, c6rec{path: path, written: []string{"readable"}, read: []string{fmt.Sprintf("panic: %v", r)}})
		}
	}()
	rd.scalars(path, st, o)
	musts := st.find("must")
	if len(musts) > 0 {
		got := o.(meta.HasMusts).Musts()
		var wr, rdx []string
		for _, m := range musts {
			wr = append(wr, m.arg)
		}
		for _, m := range got {
			rdx = append(rdx, m.Expression())
		}
		rd.recs = append(rd.recs, c6rec{path: path + "/must*", written: wr, read: rdx})
		if len(got) == len(musts) {
			for i, m := range musts {
				rd.walk(fmt.Sprintf("%s/must[%d]", path, i), m, got[i])
			}
		}
	}
	for _, wn := range st.find("when") {
		w := o.(meta.HasWhen).When()
		if w == nil {
			rd.recs = append(rd.recs, c6rec{path: path + "/when", written: []string{wn.arg}, read: []string{"<nil>"}})
			continue
		}
		rd.recs = append(rd.recs, c6rec{path: path + "/when", written: []string{wn.arg}, read: []string{w.Expression()}})
		rd.walk(path+"/when", wn, w)
	}
	for _, ts := range st.find("type") {
		ht, ok := o.(meta.HasType)
		if !ok {
			continue // member types of a union are read through Union() below
		}
		rd.typ(path+"/type", ts, ht.Type())
	}
	for _, s := range st.subs {
		var child interface{}
		switch s.kw {
		case "container", "list", "leaf", "leaf-list", "choice", "anydata", "anyxml":
			if h, ok := o.(meta.HasDataDefinitions); ok {
				for _, d := range h.DataDefinitions() {
					if d.Ident() == s.arg {
						child = d
					}
				}
			}
		case "case":
			child = o.(*meta.Choice).Cases()[s.arg]
		case "action":
			child = o.(meta.HasActions).Actions()[s.arg]
		case "rpc":
			child = o.(*meta.Module).Actions()[s.arg]
		case "notification":
			child = o.(meta.HasNotifications).Notifications()[s.arg]
		case "input":
			child = o.(*meta.Rpc).Input()
		case "output":
			child = o.(*meta.Rpc).Output()
		case "typedef":
			child = o.(meta.HasTypedefs).Typedefs()[s.arg]
		case "feature":
			child = o.(*meta.Module).Features()[s.arg]
		case "identity":
			child = o.(*meta.Module).Identities()[s.arg]
		case "extension":
			child = o.(*meta.Module).ExtensionDefs()[s.arg]
		case "argument":
			child = o.(*meta.ExtensionDef).Argument()
		default:
			continue
		}
		p := path + "/" + s.kw + ":" + s.arg
		if child == nil || fmt.Sprintf("%v", child) == "<nil>" {
			rd.recs = append(rd.recs, c6rec{path: p, written: []string{"present"}, read: []string{"<missing>"}})
			continue
		}
		rd.walk(p, s, child)
	}
	if st.kw == "module" {
		var wr, got []string
		for _, rv := range st.find("revision") {
			wr = append(wr, rv.arg)
		}
		m := o.(*meta.Module)
		for _, rv := range m.RevisionHistory() {
			got = append(got, rv.Ident())
		}
		if len(wr) > 0 {
			rd.recs = append(rd.recs, c6rec{path: path + "/revision*", written: wr, read: got})
			if len(got) == len(wr) {
				for i, rv := range st.find("revision") {
					rd.scalars(fmt.Sprintf("%s/revision[%d]", path, i), &c6stmt{kw: "revision", subs: rv.subs}, m.RevisionHistory()[i])
				}
			}
		}
	}
}

func (rd *c6reader) typ(path string, ts *c6stmt, t *meta.Type) {
	if t == nil {
		rd.recs = append(rd.recs, c6rec{path: path, written: []string{ts.arg}, read: []string{"<nil>"}})
		return
	}
	rd.recs = append(rd.recs, c6rec{path: path, written: []string{"type=" + ts.arg}, read: []string{"type=" + t.Ident()}})
	rd.scalars(path, &c6stmt{kw: "type", subs: ts.subs}, t)
	if es := ts.find("enum"); len(es) > 0 {
		var wr, got []string
		for _, e := range es {
			wr = append(wr, e.arg)
		}
		for _, e := range t.Enums() {
			got = append(got, e.Ident())
		}
		rd.recs = append(rd.recs, c6rec{path: path + "/enum*", written: wr, read: got})
		if len(got) == len(wr) {
			for i, e := range es {
				rd.scalars(fmt.Sprintf("%s/enum[%d]", path, i), &c6stmt{kw: "enum", subs: e.subs}, t.Enums()[i])
			}
		}
	}
	if bs := ts.find("bit"); len(bs) > 0 {
		var wr, got []string
		for _, b := range bs {
			wr = append(wr, b.arg)
		}
		for _, b := range t.Bits() {
			got = append(got, b.Ident())
		}
		rd.recs = append(rd.recs, c6rec{path: path + "/bit*", written: wr, read: got})
		if len(got) == len(wr) {
			for i, b := range bs {
				rd.scalars(fmt.Sprintf("%s/bit[%d]", path, i), &c6stmt{kw: "bit", subs: b.subs}, t.Bits()[i])
			}
		}
	}
	if ps := ts.find("pattern"); len(ps) > 0 {
		got := t.Patterns()
		if len(got) != len(ps) {
			rd.recs = append(rd.recs, c6rec{path: path + "/pattern*", written: []string{strconv.Itoa(len(ps))}, read: []string{strconv.Itoa(len(got))}})
		} else {
			for i, p := range ps {
				rd.recs = append(rd.recs, c6patternRec(fmt.Sprintf("%s/pattern[%d]", path, i), p, got[i]))
			}
		}
	}
	for _, kw := range []string{"range", "length"} {
		rs := ts.find(kw)
		if len(rs) == 0 {
			continue
		}
		got := t.Range()
		if kw == "length" {
			got = t.Length()
		}
		if len(got) != len(rs) {
			rd.recs = append(rd.recs, c6rec{path: path + "/" + kw + "*", written: []string{strconv.Itoa(len(rs))}, read: []string{strconv.Itoa(len(got))}})
			continue
		}
		for i, r := range rs {
			rd.recs = append(rd.recs, c6rec{path: path + "/" + kw, written: []string{strings.ReplaceAll(r.arg, " ", "")},
				read: []string{strings.ReplaceAll(got[i].String(), " ", "")}})
			rd.scalars(fmt.Sprintf("%s/%s[%d]", path, kw, i), &c6stmt{kw: kw, subs: r.subs}, got[i])
		}
	}
	if us := ts.find("type"); len(us) > 0 {
		var wr, got []string
		for _, u := range us {
			wr = append(wr, u.arg)
		}
		for _, u := range t.Union() {
			got = append(got, u.Ident())
		}
		rd.recs = append(rd.recs, c6rec{path: path + "/union", written: wr, read: got})
	}
}

// c6patternFields: everything a pattern statement can carry, whether written or not (a statement
// that was not written reads back empty / not inverted / no extension)
func c6patternFields(p *meta.Pattern) []string {
	mod := "<none>"
	if p.Inverted() {
		mod = "invert-match"
	}
	return []string{"pattern=" + p.Pattern, "description=" + p.Description(), "reference=" + p.Reference(),
		"error-message=" + p.ErrorMessage(), "error-app-tag=" + p.ErrorAppTag(), "modifier=" + mod,
		"extensions=" + strings.Join(c6extsOf(p, ""), "|")}
}

func c6patternRec(path string, st *c6stmt, p *meta.Pattern) c6rec {
	one := func(kw string) string {
		var as []string
		for _, s := range st.find(kw) {
			as = append(as, s.arg)
		}
		return strings.Join(as, "|")
	}
	mod := "<none>"
	if len(st.find("modifier")) > 0 {
		mod = one("modifier")
	}
	var exts []string
	for _, e := range st.find("m:e") {
		exts = append(exts, "m:e "+e.arg)
	}
	return c6rec{path: path, written: []string{"pattern=" + st.arg, "description=" + one("description"), "reference=" + one("reference"),
		"error-message=" + one("error-message"), "error-app-tag=" + one("error-app-tag"), "modifier=" + mod,
		"extensions=" + strings.Join(exts, "|")}, read: c6patternFields(p)}
}

// canonical dump of everything the reader looked at (map-derived collections sorted by the walk itself)
func c6dump(recs []c6rec) string {
	var sb strings.Builder
	for _, r := range recs {
		fmt.Fprintf(&sb, "%s %d %q\n", r.path, r.kind, r.read)
	}
	return sb.String()
}

func c6dumpModule(m *meta.Module) string {
	var sb strings.Builder
	var walk func(indent string, d meta.Definition)
	walk = func(indent string, d meta.Definition) {
		fmt.Fprintf(&sb, "%s%T %s", indent, d, d.Ident())
		if x, ok := d.(meta.Describable); ok {
			fmt.Fprintf(&sb, " desc=%q ref=%q", x.Description(), x.Reference())
		}
		if x, ok := d.(meta.HasConfig); ok {
			fmt.Fprintf(&sb, " config=%v/%v", x.IsConfigSet(), x.Config())
		}
		if x, ok := d.(meta.HasType); ok && x.Type() != nil {
			fmt.Fprintf(&sb, " type=%s/%v", x.Type().Ident(), x.Type().Format())
		}
		if x, ok := d.(meta.HasExtensions); ok {
			for _, e := range x.Extensions() {
				fmt.Fprintf(&sb, " ext=%s:%s(%q)@%s", e.Prefix(), e.Ident(), e.Argument(), e.Keyword())
			}
		}
		sb.WriteByte('\n')
		if x, ok := d.(meta.HasDataDefinitions); ok {
			for _, c := range x.DataDefinitions() {
				walk(indent+" ", c)
			}
		}
		if x, ok := d.(*meta.Choice); ok {
			for _, id := range x.CaseIdents() {
				walk(indent+" ", x.Cases()[id])
			}
		}
		if x, ok := d.(meta.HasActions); ok {
			var ids []string
			for id := range x.Actions() {
				ids = append(ids, id)
			}
			sort.Strings(ids)
			for _, id := range ids {
				a := x.Actions()[id]
				fmt.Fprintf(&sb, "%s action %s\n", indent, id)
				if a.Input() != nil {
					for _, c := range a.Input().DataDefinitions() {
						walk(indent+"  in ", c)
					}
				}
				if a.Output() != nil {
					for _, c := range a.Output().DataDefinitions() {
						walk(indent+"  out ", c)
					}
				}
			}
		}
		if x, ok := d.(meta.HasNotifications); ok {
			var ids []string
			for id := range x.Notifications() {
				ids = append(ids, id)
			}
			sort.Strings(ids)
			for _, id := range ids {
				walk(indent+" notif ", x.Notifications()[id])
			}
		}
	}
	walk("", m)
	return sb.String()
}

func c06Statements(ctx *core.Ctx, r *gen.Rng) {
	n := ctx.Scale(12, 60)
	if ctx.Tier == "search" {
		n = 240
	}
	var prev *c6loaded
	for i := 0; i < n; i++ {
		g := &c6gen{r: r.Fork(uint64(i))}
		tree := g.module()
		var sb strings.Builder
		tree.render(&sb, 0)
		text := sb.String()
		var dumps []string
		var recs []c6rec
		var first *meta.Module
		loadErr := ""
		for k := 0; k < 3; k++ {
			m, err := c6load(text)
			if err != nil {
				loadErr = err.Error()
				break
			}
			rd := &c6reader{}
			rd.walk("/m", tree, m)
			if k == 0 {
				recs = rd.recs
				first = m
			}
			dumps = append(dumps, c6dump(rd.recs)+c6dumpModule(m))
		}
		if loadErr != "" {
			ctx.Add(emit.App("CRead", emit.Nat(0), emit.List([]string{emit.Str("module loads")}), emit.List([]string{emit.Str("error")})),
				map[string]interface{}{"kind": "stmt", "module_index": i, "path": "/m", "written": "module loads", "read": "error: " + loadErr, "module": text}, true)
			ctx.Count("S:load-error")
			continue
		}
		for _, rc := range recs {
			wr := make([]string, len(rc.written))
			rdl := make([]string, len(rc.read))
			for k, s := range rc.written {
				wr[k] = emit.Str(s)
			}
			for k, s := range rc.read {
				rdl[k] = emit.Str(s)
			}
			d := map[string]interface{}{"kind": "stmt", "module_index": i, "path": rc.path, "record_kind": rc.kind, "written": rc.written, "read": rc.read}
			if fmt.Sprint(rc.written) != fmt.Sprint(rc.read) {
				d["module"] = text
			}
			ctx.Add(emit.App("CRead", emit.Nat(rc.kind), emit.List(wr), emit.List(rdl)), d, len(rc.written) >= 3)
			ctx.Count("S:record:" + c6pathClass(rc.path))
		}
		eq := true
		for _, d := range dumps[1:] {
			if d != dumps[0] {
				eq = false
			}
		}
		ctx.Add(emit.App("CDet", emit.Nat(len(dumps)), emit.Bool(eq)),
			map[string]interface{}{"kind": "determinism", "module_index": i, "loads": len(dumps), "all_equal": eq, "module": text}, true)
		ctx.Count("D:modules")
		// reading does not change what is read: the revision accessors in a random sequence, then every
		// exported accessor of every reachable object, then the whole tree once more
		var written []g6cell
		for _, rv := range tree.find("revision") {
			c := g6cell{rv.arg, "", ""}
			for _, x := range rv.find("description") {
				c[1] = x.arg
			}
			for _, x := range rv.find("reference") {
				c[2] = x.arg
			}
			written = append(written, c)
		}
		c6revCalls(ctx, r.Fork(uint64(i)^0x726576), first, written, i, text)
		calls := c6sweep(first)
		again := c6dumpOf(tree, first)
		sd := map[string]interface{}{"kind": "accessor-sweep", "module_index": i, "accessor_calls": calls, "same": again == dumps[0]}
		if again != dumps[0] {
			sd["module"] = text
			sd["first_difference"] = c6firstDiff(dumps[0], again)
		}
		ctx.Add(emit.App("CSweep", emit.Nat(calls), emit.Bool(again == dumps[0])), sd, true)
		ctx.Count("D:accessor-sweep")
		// successive loads of different texts in one process: the schema compiled from the previous text is
		// still what it was, and the previous text loaded again still gives the same schema
		if prev != nil {
			reread := c6dumpOf(prev.tree, prev.m)
			reload := "load error"
			if m, err := c6load(prev.text); err == nil {
				reload = c6dumpOf(prev.tree, m)
			} else {
				reload += ": " + err.Error()
			}
			d := map[string]interface{}{"kind": "interleaved-loads", "module_index": prev.idx, "other_module_index": i,
				"reread_equal": reread == prev.dump, "reload_equal": reload == prev.dump}
			if reread != prev.dump || reload != prev.dump {
				d["module"], d["other_module"] = prev.text, text
				d["reread_first_difference"] = c6firstDiff(prev.dump, reread)
				d["reload_first_difference"] = c6firstDiff(prev.dump, reload)
			}
			ctx.Add(emit.App("CInter", emit.Nat(1), emit.Bool(reread == prev.dump), emit.Bool(reload == prev.dump)), d, true)
			ctx.Count("D:interleaved")
		}
		prev = &c6loaded{idx: i, tree: tree, text: text, m: first, dump: dumps[0]}
	}
}

type c6loaded struct {
	idx  int
	tree *c6stmt
	text string
	m    *meta.Module
	dump string
}

func c6dumpOf(tree *c6stmt, m *meta.Module) string {
	rd := &c6reader{}
	rd.walk("/m", tree, m)
	return c6dump(rd.recs) + c6dumpModule(m)
}

// first line on which two dumps differ: [was, now]
func c6firstDiff(a, b string) []string {
	if a == b {
		return nil
	}
	la, lb := strings.Split(a, "\n"), strings.Split(b, "\n")
	for i := 0; i < len(la) || i < len(lb); i++ {
		x, y := "<end>", "<end>"
		if i < len(la) {
			x = la[i]
		}
		if i < len(lb) {
			y = lb[i]
		}
		if x != y {
			return []string{x, y}
		}
	}
	return nil
}

func c6pathClass(p string) string {
	i := strings.LastIndex(p, "/")
	s := p[i+1:]
	if j := strings.IndexAny(s, ":["); j >= 0 {
		s = s[:j]
	}
	return s
}
