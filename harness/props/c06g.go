package props

import (
	"fmt"
	"reflect"
	"sort"
	"strings"

	"github.com/freeconf/yang/meta"

	"yvh/core"
	"yvh/emit"
	"yvh/gen"
)

// ---- (G) list-valued statements through grouping expansion, refine and deviation -------------------
// must (with error-message, error-app-tag, description, reference), unique and revision are kept by the
// library in Go slices that are appended to by the builder, copied by clone() when a grouping is used
// or an augment applied, appended to again by refine and "deviate add", and rebuilt by "deviate
// delete". The generated modules put such statements on nodes of groupings (0..8 of them, so that every
// capacity the builder's appends can leave behind occurs), use every grouping several times (in
// containers, lists, cases, notifications, rpc input, and inside other groupings), refine the copies
// and deviate them. The Coq model (Meta/Slices.v) runs the same sequence of operations on an explicit
// heap of backing arrays; the specification is the list of entries written for each node.

type g6cell []string

type g6step struct{ kind, ident string } // grouping, def, case, rpc, input, notif

type g6obj struct {
	id    int
	kind  string // must, unique, rev
	steps []g6step
	cur   []int // what the text says it holds now (indexes into the cell table)
}

func (o *g6obj) path() string {
	var sb strings.Builder
	for _, s := range o.steps {
		switch s.kind {
		case "grouping":
			sb.WriteString("grouping " + s.ident + ":")
		case "input":
			sb.WriteString("/input")
		default:
			sb.WriteString("/" + s.ident)
		}
	}
	if len(o.steps) == 0 {
		sb.WriteString("module")
	}
	return sb.String() + " " + o.kind
}

type g6node struct {
	kw, ident string
	st        *c6stmt
	must      *g6obj
	uniq      *g6obj
	desc, ref string
	when      string
	body      []g6item
}

type g6item struct {
	node *g6node
	use  *g6use
}

type g6refine struct {
	path      []string
	musts     []int
	desc, ref string
}

type g6use struct {
	grp     *g6grp
	when    string
	refines []*g6refine
}

type g6grp struct {
	name string
	body []g6item
	tops map[string]bool
}

type g6inst struct {
	node      *g6node
	steps     []g6step
	must      *g6obj
	uniq      *g6obj
	desc, ref string
	whens     []string // own, of the uses that copied it, of the uses around that one; nil: written in place
	kids      []*g6inst
}

type g6op struct {
	kind byte // a(ppend) c(lone) d(elete)
	a, b int
	set  bool // delete: compare the entry as a set of names (unique)
}

type g6gen struct {
	r       *gen.Rng
	seq     int
	objs    []*g6obj
	build   []g6op
	resolve []g6op
	cells   []g6cell
	cellIdx map[string]int
	grps    []*g6grp
	exprSeq int
}

func (g *g6gen) id(p string) string { g.seq++; return fmt.Sprintf("%s%d", p, g.seq) }

func (g *g6gen) cell(c g6cell) int {
	k := strings.Join(c, "\x00") + fmt.Sprintf("\x00%d", len(c))
	if i, ok := g.cellIdx[k]; ok {
		return i
	}
	g.cells = append(g.cells, c)
	g.cellIdx[k] = len(g.cells) - 1
	return len(g.cells) - 1
}

func (g *g6gen) newObj(kind string, steps []g6step) *g6obj {
	o := &g6obj{id: len(g.objs), kind: kind, steps: append([]g6step(nil), steps...)}
	g.objs = append(g.objs, o)
	return o
}

func (g *g6gen) opAppend(ops *[]g6op, o *g6obj, c int) {
	*ops = append(*ops, g6op{kind: 'a', a: o.id, b: c})
	o.cur = append(o.cur, c)
}

func (g *g6gen) opClone(src, dst *g6obj) {
	g.resolve = append(g.resolve, g6op{kind: 'c', a: src.id, b: dst.id})
	dst.cur = append([]int(nil), src.cur...)
}

func (g *g6gen) opDelete(o *g6obj, c int) {
	set := o.kind == "unique"
	g.resolve = append(g.resolve, g6op{kind: 'd', a: o.id, b: c, set: set})
	key := append([]string(nil), g.cells[c]...)
	sort.Strings(key)
	var keep []int
	for _, x := range o.cur {
		same := g.cells[x][0] == g.cells[c][0]
		if set {
			cand := append([]string(nil), g.cells[x]...)
			sort.Strings(cand)
			same = strings.Join(cand, " ") == strings.Join(key, " ")
		}
		if !same {
			keep = append(keep, x)
		}
	}
	o.cur = keep
}

var g6exprs = []string{"count(*) > 0", "../a = 'b c'", ". != \"q\"", "not(x)"}

// a must statement below st, and its cell [expression, error-message, error-app-tag, description, reference]
func (g *g6gen) mustStmt(st *c6stmt) int {
	r := g.r
	g.exprSeq++
	expr := fmt.Sprintf(". != %d", g.exprSeq)
	if r.Chance(1, 6) {
		expr = gen.Pick(r, g6exprs) // repeated expressions: "deviate delete" removes all of them
	}
	c := g6cell{expr, "", "", "", ""}
	m := st.add("must", expr, false)
	for i, kw := range []string{"error-message", "error-app-tag", "description", "reference"} {
		if r.Chance(2, 5) {
			c[i+1] = c6word(r)
			m.add(kw, c[i+1], false)
		}
	}
	return g.cell(c)
}

func (g *g6gen) mustCount() int {
	if g.r.Chance(1, 4) {
		return 0
	}
	return g.r.Intn(9)
}

var g6whens = []string{"../a = 'b'", "x > 5", "not(y)", "count(../*) > 2"}

func (g *g6gen) describe(n *g6node) {
	if g.r.Chance(1, 5) {
		n.when = gen.Pick(g.r, g6whens) + fmt.Sprintf(" or %d", g.seq)
		n.st.add("when", n.when, false)
	}
	if g.r.Chance(1, 2) {
		n.desc = c6word(g.r)
		n.st.add("description", n.desc, false)
	}
	if g.r.Chance(1, 4) {
		n.ref = c6word(g.r)
		n.st.add("reference", n.ref, false)
	}
}

// a node with its list-valued statements; steps: where its parent is
func (g *g6gen) node(parent *c6stmt, steps []g6step, depth, maxGrp int) *g6node {
	r := g.r
	kinds := []string{"leaf", "leaf", "leaf", "leaf-list", "anydata", "anyxml"}
	if depth > 0 {
		kinds = append(kinds, "container", "container", "list", "list", "list")
	}
	n := &g6node{kw: gen.Pick(r, kinds)}
	n.ident = g.id(map[string]string{"leaf": "f", "leaf-list": "ll", "anydata": "any", "anyxml": "any", "container": "c", "list": "l"}[n.kw])
	n.st = parent.add(n.kw, n.ident, true)
	mine := append(append([]g6step(nil), steps...), g6step{"def", n.ident})
	n.must = g.newObj("must", mine)
	var leaves []string
	switch n.kw {
	case "leaf", "leaf-list":
		n.st.add("type", gen.Pick(r, []string{"string", "int32", "boolean"}), true)
	case "container":
		if r.Chance(1, 4) {
			n.st.add("presence", c6word(r), false)
		}
	case "list":
		k := g.id("k")
		n.st.add("key", k, true)
		leaves = append(leaves, k)
		for i := 2 + r.Intn(2); i > 0; i-- {
			leaves = append(leaves, g.id("u"))
		}
		n.uniq = g.newObj("unique", mine)
		if r.Chance(2, 3) {
			for i := r.Intn(6); i > 0; i-- {
				names := g6cell{gen.Pick(r, leaves[1:])}
				if x := gen.Pick(r, leaves[1:]); x != names[0] && r.Chance(1, 2) {
					names = append(names, x)
				}
				n.st.add("unique", strings.Join(names, " "), false)
				g.opAppend(&g.build, n.uniq, g.cell(names))
			}
		}
	}
	for i := g.mustCount(); i > 0; i-- {
		g.opAppend(&g.build, n.must, g.mustStmt(n.st))
	}
	g.describe(n)
	for _, l := range leaves {
		ln := &g6node{kw: "leaf", ident: l}
		ln.st = n.st.add("leaf", l, true)
		ln.st.add("type", "string", true)
		ln.must = g.newObj("must", append(append([]g6step(nil), mine...), g6step{"def", l}))
		n.body = append(n.body, g6item{node: ln})
	}
	if n.kw == "container" || n.kw == "list" {
		taken := map[string]bool{}
		n.body = append(n.body, g.items(n.st, mine, depth-1, maxGrp, 1+r.Intn(2), taken)...)
	}
	return n
}

func g6disjoint(a, b map[string]bool) bool {
	for k := range a {
		if b[k] {
			return false
		}
	}
	return true
}

// every node the expansion of a grouping delivers, by its path below the place of the uses
func g6targets(body []g6item, prefix []string) (paths [][]string) {
	for _, it := range body {
		if it.node != nil {
			p := append(append([]string(nil), prefix...), it.node.ident)
			paths = append(paths, p)
			paths = append(paths, g6targets(it.node.body, p)...)
		} else {
			paths = append(paths, g6targets(it.use.grp.body, prefix)...)
		}
	}
	return
}

func (g *g6gen) use(parent *c6stmt, grp *g6grp) *g6use {
	r := g.r
	u := &g6use{grp: grp}
	st := parent.add("uses", grp.name, true)
	if r.Chance(1, 5) {
		u.when = gen.Pick(r, g6whens) + fmt.Sprintf(" and %d", g.seq)
		st.add("when", u.when, false)
	}
	for _, p := range g6targets(grp.body, nil) {
		for n := 0; n < 2; n++ { // now and then two refine statements for one target
			if !r.Chance(2, 5) || (n == 1 && !r.Chance(1, 4)) {
				break
			}
			rf := &g6refine{path: p}
			rs := st.add("refine", strings.Join(p, "/"), r.Chance(1, 2))
			if r.Chance(3, 4) {
				for k := 1 + r.Intn(2); k > 0; k-- {
					rf.musts = append(rf.musts, g.mustStmt(rs))
				}
			}
			if r.Chance(1, 3) || len(rf.musts) == 0 {
				rf.desc = "refined " + c6word(r)
				rs.add("description", rf.desc, false)
			}
			if r.Chance(1, 5) {
				rf.ref = "refined " + c6word(r)
				rs.add("reference", rf.ref, false)
			}
			u.refines = append(u.refines, rf)
		}
	}
	return u
}

// n items of a body: nodes, and uses of the groupings defined so far whose nodes fit in
func (g *g6gen) items(parent *c6stmt, steps []g6step, depth, maxGrp, n int, taken map[string]bool) (out []g6item) {
	for ; n > 0; n-- {
		if maxGrp > 0 && g.r.Chance(1, 3) {
			grp := g.grps[g.r.Intn(maxGrp)]
			if g6disjoint(grp.tops, taken) {
				for k := range grp.tops {
					taken[k] = true
				}
				out = append(out, g6item{use: g.use(parent, grp)})
				continue
			}
		}
		nd := g.node(parent, steps, depth, maxGrp)
		taken[nd.ident] = true
		out = append(out, g6item{node: nd})
	}
	return
}

func g6find(insts []*g6inst, path []string) *g6inst {
	for _, i := range insts {
		if i.node.ident == path[0] {
			if len(path) == 1 {
				return i
			}
			return g6find(i.kids, path[1:])
		}
	}
	return nil
}

// what the loader does with a body at [steps]: nodes written there stay, nodes of a grouping are copied
func (g *g6gen) expand(body []g6item, steps []g6step, direct bool, uses []string) (out []*g6inst) {
	for _, it := range body {
		if it.node != nil {
			n := it.node
			in := &g6inst{node: n, steps: append(append([]g6step(nil), steps...), g6step{"def", n.ident}), desc: n.desc, ref: n.ref}
			if direct {
				in.must, in.uniq = n.must, n.uniq
			} else {
				in.whens = append([]string{n.when}, uses...)
				in.must = g.newObj("must", in.steps)
				g.opClone(n.must, in.must)
				if n.uniq != nil {
					in.uniq = g.newObj("unique", in.steps)
					g.opClone(n.uniq, in.uniq)
				}
			}
			in.kids = g.expand(n.body, in.steps, direct, nil)
			out = append(out, in)
			continue
		}
		sub := g.expand(it.use.grp.body, steps, false, append([]string{it.use.when}, uses...))
		for _, rf := range it.use.refines {
			t := g6find(sub, rf.path)
			for _, c := range rf.musts {
				g.opAppend(&g.resolve, t.must, c)
			}
			if rf.desc != "" {
				t.desc = rf.desc
			}
			if rf.ref != "" {
				t.ref = rf.ref
			}
		}
		out = append(out, sub...)
	}
	return
}

type g6site struct {
	steps []g6step
	body  []g6item
	insts []*g6inst
	st    *c6stmt // the statement the children are read from
}

func g6allDefs(steps []g6step) bool {
	for _, s := range steps {
		if s.kind != "def" {
			return false
		}
	}
	return true
}

func g6collect(insts []*g6inst, out *[]*g6inst) {
	for _, i := range insts {
		*out = append(*out, i)
		g6collect(i.kids, out)
	}
}

func (g *g6gen) module() (*c6stmt, []*g6site, *g6obj) {
	r := g.r
	m := &c6stmt{kw: "module", arg: "g", raw: true}
	m.add("yang-version", "1.1", true)
	m.add("namespace", "urn:g", false)
	m.add("prefix", "g", true)
	// revisions in any order (RFC 7950 7.1.9: newest first is a SHOULD)
	rev := g.newObj("rev", nil)
	seen := map[string]bool{}
	for n := r.Intn(6); n > 0; n-- {
		d := fmt.Sprintf("20%02d-%02d-%02d", r.Intn(30), 1+r.Intn(12), 1+r.Intn(28))
		if seen[d] {
			continue
		}
		seen[d] = true
		c := g6cell{d, "", ""}
		rv := m.add("revision", d, true)
		if r.Chance(1, 2) {
			c[1] = c6word(r)
			rv.add("description", c[1], false)
		}
		if r.Chance(1, 3) {
			c[2] = c6word(r)
			rv.add("reference", c[2], false)
		}
		g.opAppend(&g.build, rev, g.cell(c))
	}
	for i, n := 0, 2+r.Intn(2); i < n; i++ {
		grp := &g6grp{name: g.id("g"), tops: map[string]bool{}}
		st := m.add("grouping", grp.name, true)
		grp.body = g.items(st, []g6step{{"grouping", grp.name}}, 1, i, 2+r.Intn(2), grp.tops)
		g.grps = append(g.grps, grp)
	}
	// places where the groupings are used: every grouping at least twice, some more often
	var sites []*g6site
	var plan []*g6grp
	for _, grp := range g.grps {
		for k := 2 + r.Intn(2); k > 0; k-- {
			plan = append(plan, grp)
		}
	}
	for i := len(plan) - 1; i > 0; i-- {
		j := r.Intn(i + 1)
		plan[i], plan[j] = plan[j], plan[i]
	}
	usedCase := false
	for _, grp := range plan {
		s := &g6site{}
		var st *c6stmt
		kind := r.Intn(8)
		if kind == 1 && usedCase {
			kind = 7 // the nodes of all cases share the namespace of the module: one case per module
		}
		switch kind {
		case 0: // list
			id, k := g.id("ul"), g.id("k")
			st = m.add("list", id, true)
			st.add("key", k, true)
			s.steps = []g6step{{"def", id}}
			kn := &g6node{kw: "leaf", ident: k}
			kn.st = st.add("leaf", k, true)
			kn.st.add("type", "string", true)
			kn.must = g.newObj("must", []g6step{{"def", id}, {"def", k}})
			s.body = append(s.body, g6item{node: kn})
		case 1: // case of a choice
			usedCase = true
			ch, cs := g.id("ch"), g.id("cs")
			st = m.add("choice", ch, true).add("case", cs, true)
			s.steps = []g6step{{"def", ch}, {"case", cs}}
		case 2: // notification
			id := g.id("nt")
			st = m.add("notification", id, true)
			s.steps = []g6step{{"notif", id}}
		case 3: // rpc input
			id := g.id("op")
			st = m.add("rpc", id, true).add("input", "", true)
			s.steps = []g6step{{"rpc", id}, {"input", ""}}
		default:
			id := g.id("uc")
			st = m.add("container", id, true)
			s.steps = []g6step{{"def", id}}
		}
		s.st = st
		taken := map[string]bool{}
		for k := range grp.tops {
			taken[k] = true
		}
		if r.Chance(1, 3) {
			s.body = append(s.body, g.items(st, s.steps, 1, 0, 1, taken)...)
		}
		s.body = append(s.body, g6item{use: g.use(st, grp)})
		if r.Chance(1, 3) {
			s.body = append(s.body, g.items(st, s.steps, 1, len(g.grps), 1, taken)...)
		}
		sites = append(sites, s)
	}
	// a few nodes written directly in the module, deviated like the copies
	top := &g6site{st: m}
	top.body = g.items(m, nil, 1, 0, 1+r.Intn(2), map[string]bool{})
	sites = append(sites, top)
	for _, s := range sites {
		s.insts = g.expand(s.body, s.steps, true, nil)
	}
	// deviations
	var all []*g6inst
	for _, s := range sites {
		if g6allDefs(s.steps) {
			g6collect(s.insts, &all)
		}
	}
	for i := len(all) - 1; i > 0; i-- {
		j := r.Intn(i + 1)
		all[i], all[j] = all[j], all[i]
	}
	for _, in := range all {
		if !g6allDefs(in.steps) {
			continue
		}
		var ids []string
		for _, s := range in.steps {
			ids = append(ids, s.ident)
		}
		path := "/" + strings.Join(ids, "/")
		for n := 0; n < 2; n++ {
			if !r.Chance(1, 3) {
				break
			}
			if in.uniq != nil && len(in.uniq.cur) > 0 && r.Chance(1, 3) {
				// the leaf names of one of its unique statements, in any order
				c := gen.Pick(r, in.uniq.cur)
				names := append(g6cell(nil), g.cells[c]...)
				if len(names) == 2 && r.Chance(1, 2) {
					names[0], names[1] = names[1], names[0]
				}
				dv := m.add("deviation", path, false).add("deviate", "delete", true)
				dv.add("unique", strings.Join(names, " "), false)
				g.opDelete(in.uniq, g.cell(names))
				continue
			}
			if len(in.must.cur) > 0 && r.Chance(1, 3) {
				c := gen.Pick(r, in.must.cur)
				dv := m.add("deviation", path, false).add("deviate", "delete", true)
				dv.add("must", g.cells[c][0], false)
				g.opDelete(in.must, c)
				continue
			}
			dv := m.add("deviation", path, false).add("deviate", "add", true)
			k := 1 + r.Intn(2)
			if in.uniq != nil && r.Chance(1, 2) {
				var leaves []string
				for _, it := range in.node.body {
					if it.node != nil && strings.HasPrefix(it.node.ident, "u") {
						leaves = append(leaves, it.node.ident)
					}
				}
				names := g6cell{gen.Pick(r, leaves)}
				dv.add("unique", names[0], false)
				g.opAppend(&g.resolve, in.uniq, g.cell(names))
				k--
			}
			for ; k > 0; k-- {
				g.opAppend(&g.resolve, in.must, g.mustStmt(dv))
			}
		}
	}
	return m, sites, rev
}

// ---- reading back ---------------------------------------------------------------------------------

func g6nav(m *meta.Module, steps []g6step) (cur interface{}) {
	defer func() {
		if r := recover(); r != nil {
			cur = nil
		}
	}()
	cur = m
	for _, s := range steps {
		var next interface{}
		switch s.kind {
		case "grouping":
			if x := cur.(meta.HasGroupings).Groupings()[s.ident]; x != nil {
				next = x
			}
		case "def":
			for _, d := range cur.(meta.HasDataDefinitions).DataDefinitions() {
				if d.Ident() == s.ident {
					next = d
				}
			}
		case "case":
			if x := cur.(*meta.Choice).Cases()[s.ident]; x != nil {
				next = x
			}
		case "rpc":
			if x := cur.(meta.HasActions).Actions()[s.ident]; x != nil {
				next = x
			}
		case "input":
			if x := cur.(*meta.Rpc).Input(); x != nil {
				next = x
			}
		case "notif":
			if x := cur.(meta.HasNotifications).Notifications()[s.ident]; x != nil {
				next = x
			}
		}
		if next == nil {
			return nil
		}
		cur = next
	}
	return cur
}

func g6readObj(m *meta.Module, o *g6obj) (cells []g6cell) {
	defer func() {
		if r := recover(); r != nil {
			cells = []g6cell{{fmt.Sprintf("<panic: %v>", r)}}
		}
	}()
	x := g6nav(m, o.steps)
	if x == nil {
		return []g6cell{{"<missing>"}}
	}
	switch o.kind {
	case "must":
		for _, mu := range x.(meta.HasMusts).Musts() {
			cells = append(cells, g6cell{mu.Expression(), mu.ErrorMessage(), mu.ErrorAppTag(), mu.Description(), mu.Reference()})
		}
	case "unique":
		for _, u := range x.(*meta.List).Unique() {
			cells = append(cells, append(g6cell(nil), u...))
		}
	case "rev":
		for _, rv := range x.(*meta.Module).RevisionHistory() {
			cells = append(cells, g6cell{rv.Ident(), rv.Description(), rv.Reference()})
		}
	}
	return
}

func g6cellsTerm(cs []g6cell) string {
	items := make([]string, len(cs))
	for i, c := range cs {
		ss := make([]string, len(c))
		for k, s := range c {
			ss[k] = emit.Str(s)
		}
		items[i] = emit.List(ss)
	}
	return emit.List(items)
}

// c6sweep calls every exported method without arguments of every object of package meta reachable
// from root (through what those methods return). Reading a schema must not change it.
func c6sweep(root interface{}) (calls int) {
	seen := map[uintptr]bool{}
	var visit func(v reflect.Value, depth int)
	visit = func(v reflect.Value, depth int) {
		if !v.IsValid() || depth > 200 {
			return
		}
		switch v.Kind() {
		case reflect.Interface:
			if !v.IsNil() {
				visit(v.Elem(), depth)
			}
		case reflect.Slice, reflect.Array:
			for i := 0; i < v.Len(); i++ {
				visit(v.Index(i), depth+1)
			}
		case reflect.Map:
			for _, k := range v.MapKeys() {
				visit(v.MapIndex(k), depth+1)
			}
		case reflect.Ptr:
			if v.IsNil() || !strings.HasSuffix(v.Type().Elem().PkgPath(), "freeconf/yang/meta") || seen[v.Pointer()] {
				return
			}
			seen[v.Pointer()] = true
			t := v.Type()
			for i := 0; i < t.NumMethod(); i++ {
				if t.Method(i).Type.NumIn() != 1 {
					continue
				}
				func() {
					defer func() { recover() }()
					outs := v.Method(i).Call(nil)
					calls++
					for _, o := range outs {
						visit(o, depth+1)
					}
				}()
			}
		}
	}
	visit(reflect.ValueOf(root), 0)
	return
}

var g6accNames = []string{"ARevision", "AHistory", "ARevisions"}

// c6revCalls: a random sequence of calls of the three revision accessors, with what they answered
func c6revCalls(ctx *core.Ctx, r *gen.Rng, m *meta.Module, written []g6cell, idx int, text string) {
	one := func(rv *meta.Revision) g6cell { return g6cell{rv.Ident(), rv.Description(), rv.Reference()} }
	var calls, answers, log []string
	for n := 3 + r.Intn(5); n > 0; n-- {
		a := r.Intn(3)
		var ans []g6cell
		switch a {
		case 0:
			if rv := m.Revision(); rv != nil {
				ans = append(ans, one(rv))
			}
		case 1:
			for _, rv := range m.RevisionHistory() {
				ans = append(ans, one(rv))
			}
		case 2:
			for _, rv := range m.Revisions() {
				ans = append(ans, one(rv))
			}
		}
		calls = append(calls, g6accNames[a])
		answers = append(answers, g6cellsTerm(ans))
		log = append(log, fmt.Sprintf("%s -> %q", g6accNames[a][1:], ans))
	}
	d := map[string]interface{}{"kind": "revision-accessors", "module_index": idx, "written_revisions": written, "calls": log}
	if len(written) > 1 {
		d["module"] = text
	}
	ctx.Add(emit.App("CRevAcc", g6cellsTerm(written), emit.List(calls), emit.List(answers)), d, len(written) > 1)
	ctx.Count(fmt.Sprintf("R:revisions:%d", len(written)))
}

func c06Groupings(ctx *core.Ctx, r *gen.Rng) {
	n := ctx.Scale(14, 70)
	if ctx.Tier == "search" {
		n = 280
	}
	for i := 0; i < n; i++ {
		// the size of a module is bounded (the heap model is evaluated on unary numbers)
		var g *g6gen
		var tree *c6stmt
		var sites []*g6site
		var rev *g6obj
		for attempt := 0; ; attempt++ {
			g = &g6gen{r: r.Fork(uint64(i) + uint64(attempt)<<32), cellIdx: map[string]int{}}
			tree, sites, rev = g.module()
			if len(g.objs) <= 160 || attempt == 20 {
				break
			}
			ctx.Count("G:regenerated-too-big")
		}
		var sb strings.Builder
		tree.render(&sb, 0)
		text := sb.String()
		m, err := c6load(text)
		// program
		prog := make([]string, 0, len(g.build)+len(g.resolve))
		for _, o := range append(append([]g6op(nil), g.build...), g.resolve...) {
			switch o.kind {
			case 'a':
				prog = append(prog, emit.App("IAppend", emit.Nat(o.a), emit.Nat(o.b)))
			case 'c':
				prog = append(prog, emit.App("IClone", emit.Nat(o.a), emit.Nat(o.b)))
			case 'd':
				prog = append(prog, emit.App("IDelete", emit.Nat(o.a), emit.Nat(o.b), emit.Bool(o.set)))
			}
		}
		obs := "None"
		var diffs []map[string]interface{}
		var first [][]g6cell
		if err == nil {
			rows := make([]string, len(g.objs))
			for k, o := range g.objs {
				cells := g6readObj(m, o)
				first = append(first, cells)
				idxs := make([]string, len(cells))
				same := len(cells) == len(o.cur)
				for j, c := range cells {
					ci := g.cell(c)
					idxs[j] = emit.Nat(ci)
					if same && ci != o.cur[j] {
						same = false
					}
				}
				rows[k] = emit.List(idxs)
				if !same {
					var want []g6cell
					for _, c := range o.cur {
						want = append(want, g.cells[c])
					}
					diffs = append(diffs, map[string]interface{}{"object": o.path(), "written": want, "read": cells})
				}
			}
			obs = emit.Some(emit.List(rows))
		}
		d := map[string]interface{}{"kind": "grouping-expansion", "module_index": i, "objects": len(g.objs),
			"operations": len(prog), "differences": diffs}
		if err != nil {
			d["load_error"] = err.Error()
		}
		if err != nil || len(diffs) > 0 {
			d["module"] = text
		}
		ctx.Add(emit.App("CGroup", g6cellsTerm(g.cells), emit.List(prog), emit.Nat(len(g.objs)), obs), d, true)
		ctx.Count("G:modules")
		g6histogram(ctx, g)
		if err != nil {
			ctx.Count("G:load-error")
			continue
		}
		// scalar statements a refine can replace, and the order of the children of every place
		for _, s := range sites {
			g6readSite(ctx, m, s, i, text)
		}
		// the accessors of the revision list, then every accessor there is, then everything once more
		var written []g6cell
		for _, c := range rev.cur {
			written = append(written, g.cells[c])
		}
		c6revCalls(ctx, r.Fork(uint64(i)^0x726576), m, written, i, text)
		before := c6dumpModule(m)
		calls := c6sweep(m)
		same := c6dumpModule(m) == before
		var changed []map[string]interface{}
		for k, o := range g.objs {
			if again := g6readObj(m, o); fmt.Sprint(again) != fmt.Sprint(first[k]) {
				same = false
				changed = append(changed, map[string]interface{}{"object": o.path(), "read_before": first[k], "read_after": again})
			}
		}
		sd := map[string]interface{}{"kind": "accessor-sweep", "module_index": i, "accessor_calls": calls, "same": same, "changed": changed}
		if !same {
			sd["module"] = text
		}
		ctx.Add(emit.App("CSweep", emit.Nat(calls), emit.Bool(same)), sd, true)
	}
}

func g6histogram(ctx *core.Ctx, g *g6gen) {
	appends := map[int]int{}
	clones := map[int]int{}
	later := map[int]int{}
	for _, o := range g.build {
		appends[o.a]++
	}
	for _, o := range g.resolve {
		switch o.kind {
		case 'c':
			clones[o.a]++
			later[o.b] = 0
		case 'a':
			later[o.a]++
		case 'd':
			ctx.Count("G:deviate-delete:" + map[bool]string{false: "must", true: "unique"}[o.set])
		}
	}
	for _, o := range g.objs {
		if o.kind == "rev" || len(o.steps) == 0 || o.steps[0].kind != "grouping" {
			continue
		}
		ctx.Count(fmt.Sprintf("G:%s-written-on-grouping-node:%d", o.kind, appends[o.id]))
		ctx.Count(fmt.Sprintf("G:copies-of-grouping-node:%d", c6bucket(clones[o.id])))
	}
	var ids []int
	for id := range later {
		ids = append(ids, id)
	}
	sort.Ints(ids)
	for _, id := range ids {
		ctx.Count(fmt.Sprintf("G:entries-added-to-a-copy:%d", later[id]))
	}
}

func g6readSite(ctx *core.Ctx, m *meta.Module, s *g6site, idx int, text string) {
	var written, read []string
	var walk func(parent interface{}, insts []*g6inst, path string)
	walk = func(parent interface{}, insts []*g6inst, path string) {
		var want, got []string
		for _, in := range insts {
			want = append(want, in.node.ident)
		}
		if h, ok := parent.(meta.HasDataDefinitions); ok {
			for _, d := range h.DataDefinitions() {
				got = append(got, d.Ident())
			}
		} else {
			got = []string{fmt.Sprintf("<%T has no data definitions>", parent)}
		}
		if _, isModule := parent.(*meta.Module); len(insts) > 0 && !isModule {
			written = append(written, path+" children="+strings.Join(want, ","))
			read = append(read, path+" children="+strings.Join(got, ","))
		}
		for _, in := range insts {
			x := g6nav(m, in.steps)
			p := path + "/" + in.node.ident
			if x == nil {
				written, read = append(written, p+" present"), append(read, p+" <missing>")
				continue
			}
			dsc, ok := x.(meta.Describable)
			if !ok {
				written, read = append(written, p+" describable"), append(read, fmt.Sprintf("%s %T", p, x))
				continue
			}
			written = append(written, p+" description="+in.desc, p+" reference="+in.ref)
			read = append(read, p+" description="+dsc.Description(), p+" reference="+dsc.Reference())
			if any := strings.Join(in.whens, "") != ""; any || in.node.when != "" {
				conds := in.whens
				if conds == nil {
					conds = []string{in.node.when} // written in place
				}
				var got []string
				if hw, ok := x.(meta.HasWhen); ok && hw.When() != nil {
					got = append(got, hw.When().Expression())
				}
				wr, rd := make([]string, len(conds)), make([]string, len(got))
				for k, c := range conds {
					wr[k] = emit.Str(c)
				}
				for k, c := range got {
					rd[k] = emit.Str(c)
				}
				n := 0
				for _, c := range conds {
					if c != "" {
						n++
					}
				}
				d := map[string]interface{}{"kind": "stmt", "stream": "G", "module_index": idx, "path": p + "/when", "record_kind": 3,
					"written": conds, "read": got, "note": "written: the node's own when, the when of the uses that copied it, of the uses around that one"}
				if n > 1 || (n == 1 && len(got) == 0) {
					d["module"] = text
				}
				ctx.Add(emit.App("CRead", emit.Nat(3), emit.List(wr), emit.List(rd)), d, n > 1)
				ctx.Count(fmt.Sprintf("G:when-conditions-on-a-copy:%d", n))
			}
			walk(x, in.kids, p)
		}
	}
	var ids []string
	for _, st := range s.steps {
		ids = append(ids, st.ident)
	}
	root := g6nav(m, s.steps)
	if root == nil {
		written, read = []string{"present"}, []string{"<missing>"}
	} else {
		walk(root, s.insts, "/"+strings.Join(ids, "/"))
	}
	if len(written) == 0 {
		return
	}
	wr, rd := make([]string, len(written)), make([]string, len(read))
	for k, x := range written {
		wr[k] = emit.Str(x)
	}
	for k, x := range read {
		rd[k] = emit.Str(x)
	}
	d := map[string]interface{}{"kind": "stmt", "stream": "G", "module_index": idx, "path": "/" + strings.Join(ids, "/"), "written": written, "read": read}
	if fmt.Sprint(written) != fmt.Sprint(read) {
		d["module"] = text
	}
	ctx.Add(emit.App("CRead", emit.Nat(0), emit.List(wr), emit.List(rd)), d, len(written) >= 3)
	ctx.Count("G:record:place")
}
