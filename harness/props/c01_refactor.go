package props

// C01: meaning-preserving refactorings of a module set (RFC 7950 reading, written on the harness'
// AST, independent of the Coq model): each returns false when it does not apply.

import (
	"fmt"

	"yvh/gen"
)

type c01Site struct {
	list   *[]*c01Stmt
	idx    int
	file   *c01Module
	parent *c01Stmt // nil at module level
}

func c01SitesIn(list *[]*c01Stmt, parent *c01Stmt, file *c01Module, out *[]c01Site) {
	for i, s := range *list {
		*out = append(*out, c01Site{list, i, file, parent})
		for _, g := range s.Grps {
			c01SitesIn(&g.Kids, g, file, out)
			c01SitesInGrps(g, file, out)
		}
		if s.T == tNode || s.T == tAugment {
			c01SitesIn(&s.Kids, s, file, out)
		}
		for _, a := range s.Augs {
			c01SitesIn(&a.Kids, a, file, out)
		}
	}
}

func c01SitesInGrps(g *c01Stmt, file *c01Module, out *[]c01Site) {
	for _, gg := range g.Grps {
		c01SitesIn(&gg.Kids, gg, file, out)
		c01SitesInGrps(gg, file, out)
	}
}

// every position of a data-definition list in the local files
func (ms *c01Modset) sites(localOnly bool) []c01Site {
	var out []c01Site
	for _, m := range ms.files() {
		if localOnly && !ms.isLocal(m) {
			continue
		}
		c01SitesIn(&m.Body, nil, m, &out)
		for _, g := range m.Grps {
			c01SitesIn(&g.Kids, g, m, &out)
			c01SitesInGrps(g, m, &out)
		}
		for _, a := range m.Augs {
			c01SitesIn(&a.Kids, a, m, &out)
		}
	}
	return out
}

// c01ScopedResolve: does every uses of a SCOPED grouping inside l (deep) find, by the name it
// prints and walking the enclosing scopes that lie inside l innermost first (what the parser
// does), its own target or a copy of it? A grouping of the same name elsewhere in l does not
// count: names of scoped groupings are only unique along one scope chain.
func (ms *c01Modset) c01ScopedResolve(l []*c01Stmt, frames [][]*c01Stmt) bool {
	grouping := func(g *c01Stmt, fr [][]*c01Stmt) bool { return true }
	grouping = func(g *c01Stmt, fr [][]*c01Stmt) bool {
		f2 := append(append([][]*c01Stmt(nil), fr...), g.Grps)
		for _, ng := range g.Grps {
			if !grouping(ng, f2) {
				return false
			}
		}
		return ms.c01ScopedResolve(g.Kids, f2)
	}
	for _, s := range l {
		switch s.T {
		case tUses:
			if ms.ownerOf(s.Target) == nil {
				var hit *c01Stmt
				for i := len(frames) - 1; i >= 0 && hit == nil; i-- {
					for _, g := range frames[i] {
						if g.Name == s.Target.Name {
							hit = g
							break
						}
					}
				}
				if hit == nil || !c01Same(hit, s.Target) {
					return false
				}
			}
			for _, a := range s.Augs {
				if !ms.c01ScopedResolve(a.Kids, frames) {
					return false
				}
			}
		case tNode:
			f2 := append(append([][]*c01Stmt(nil), frames...), s.Grps)
			for _, g := range s.Grps {
				if !grouping(g, f2) {
					return false
				}
			}
			if !ms.c01ScopedResolve(s.Kids, f2) {
				return false
			}
		case tGrouping:
			if !grouping(s, frames) {
				return false
			}
		case tAugment:
			if !ms.c01ScopedResolve(s.Kids, frames) {
				return false
			}
		}
	}
	return true
}

// can every uses inside l (deep) be written in file `to`?
func (ms *c01Modset) usesVisible(l []*c01Stmt, to *c01Module) bool {
	// scoped groupings: only fine when the definition travels along with l
	if !ms.c01ScopedResolve(l, nil) {
		return false
	}
	ok := true
	c01WalkList(l, func(s *c01Stmt) {
		if s.T != tUses {
			return
		}
		owner := ms.ownerOf(s.Target)
		switch {
		case owner == nil:
		case ms.isLocal(owner):
			if !ms.isLocal(to) {
				ok = false
			}
		default: // imported module
			if to != ms.Main && to != owner {
				ok = false
			}
		}
	})
	return ok
}

func c01And(outer string, own *string) *string {
	if own == nil {
		return &outer
	}
	s := "(" + outer + ") and (" + *own + ")"
	return &s
}

// a condition inherited from an enclosing uses/augment is added to the statement's own
func c01AddWhen(s *c01Stmt, w *string) {
	if w == nil {
		return
	}
	switch s.T {
	case tNode:
		if s.K >= kAction {
			// an rpc/action or notification takes no condition (no `when` sub-statement): the
			// copy that a conditional uses makes of it is unconditional as well
			return
		}
		s.P.When = c01And(*w, s.P.When)
	case tUses:
		s.W = c01And(*w, s.W)
	}
}

func c01TopNames(l []*c01Stmt, depth int) map[string]bool {
	out := map[string]bool{}
	if depth > 12 {
		return out
	}
	for _, s := range l {
		switch s.T {
		case tNode:
			out[s.Name] = true
		case tUses:
			for n := range c01TopNames(s.Target.Kids, depth+1) {
				out[n] = true
			}
		}
	}
	return out
}

// c01Locate walks `path` through explicit nodes of l. Result: the explicit node reached (rest
// empty), or the uses statement through which the rest of the path continues.
func c01Locate(l []*c01Stmt, path []string, inChoice bool) (node *c01Stmt, via *c01Stmt, rest []string, impliedCaseOf *c01Stmt, ok bool) {
	if len(path) == 0 {
		return nil, nil, nil, nil, false
	}
	seg := path[0]
	for _, s := range l {
		if s.T == tNode && s.Name == seg {
			if inChoice && s.K != kCase {
				// implied case segment
				if len(path) == 1 {
					return nil, nil, nil, s, true
				}
				if path[1] != seg {
					return nil, nil, nil, nil, false
				}
				path = path[1:]
			}
			if len(path) == 1 {
				return s, nil, nil, nil, true
			}
			return c01Locate(s.Kids, path[1:], s.K == kChoice)
		}
	}
	for _, s := range l {
		if s.T == tUses && c01TopNames(s.Target.Kids, 0)[seg] {
			return nil, s, path, nil, true
		}
	}
	return nil, nil, nil, nil, false
}

func c01ApplyRefine(n *c01Stmt, r *c01Refine) {
	if r.Desc != "" {
		n.P.Desc = r.Desc
	}
	if len(r.Dflt) > 0 {
		n.P.Dflt = append([]string(nil), r.Dflt...)
	}
	if r.Config != nil {
		v := *r.Config
		n.P.Config = &v
	}
	if r.Mand != nil {
		v := *r.Mand
		n.P.Mand = &v
	}
	if r.Min != nil {
		v := *r.Min
		n.P.Min = &v
	}
	if r.Max != nil {
		v := *r.Max
		n.P.Max = &v
	}
	n.P.Musts = append(n.P.Musts, r.Musts...)
}

// T1: replace one uses by a copy of the grouping's body with the uses' when, refines and augments
// applied (pushed into a nested uses where the target lies inside it)
func (ms *c01Modset) inlineUses(site c01Site) bool {
	u := (*site.list)[site.idx]
	if u.T != tUses {
		return false
	}
	g := u.Target
	if !ms.usesVisible(g.Kids, site.file) {
		return false
	}
	// a uses of a scoped grouping defined outside the body cannot move
	body := c01CopyBody(g.Kids)
	inChoice := site.parent != nil && site.parent.T == tNode && site.parent.K == kChoice
	if inChoice {
		return false
	}
	for _, b := range body {
		c01AddWhen(b, u.W)
	}
	for _, r := range u.Refs {
		node, via, rest, implied, ok := c01Locate(body, r.Path, false)
		switch {
		case !ok || implied != nil:
			return false
		case node != nil:
			c01ApplyRefine(node, r)
		default:
			rr := *r
			rr.Path = append([]string(nil), rest...)
			via.Refs = append(via.Refs, &rr)
		}
	}
	for _, a := range u.Augs {
		node, via, rest, implied, ok := c01Locate(body, a.Path, false)
		switch {
		case !ok || implied != nil:
			return false
		case node != nil:
			add := c01CopyBody(a.Kids)
			for _, x := range add {
				c01AddWhen(x, a.W)
			}
			node.Kids = append(node.Kids, add...)
		default:
			aa := *a
			aa.Path = append([]string(nil), rest...)
			aa.Kids = c01CopyBody(a.Kids)
			via.Augs = append(via.Augs, &aa)
		}
	}
	nl := append([]*c01Stmt(nil), (*site.list)[:site.idx]...)
	nl = append(nl, body...)
	nl = append(nl, (*site.list)[site.idx+1:]...)
	*site.list = nl
	return true
}

// T2: move a contiguous block of sibling definitions into a new module-level grouping
func (ms *c01Modset) extractGrouping(site c01Site, n int, name string) bool {
	if site.parent != nil && site.parent.T == tNode && site.parent.K == kChoice {
		return false
	}
	if site.parent != nil && site.parent.T == tAugment {
		// the members of an augment of a choice are cases; keep it simple
		return false
	}
	if site.idx+n > len(*site.list) {
		n = len(*site.list) - site.idx
	}
	block := append([]*c01Stmt(nil), (*site.list)[site.idx:site.idx+n]...)
	for _, b := range block {
		if b.T == tNode && (b.K == kCase || b.K == kInput || b.K == kOutput) {
			return false
		}
	}
	if !ms.isLocal(site.file) || !ms.usesVisible(block, ms.Main) {
		return false
	}
	g := &c01Stmt{T: tGrouping, Name: name, Kids: block}
	ms.Main.Grps = append(ms.Main.Grps, g)
	nl := append([]*c01Stmt(nil), (*site.list)[:site.idx]...)
	nl = append(nl, &c01Stmt{T: tUses, Target: g})
	nl = append(nl, (*site.list)[site.idx+n:]...)
	*site.list = nl
	return true
}

func (ms *c01Modset) allAugs() []*c01Stmt {
	out := append([]*c01Stmt(nil), ms.Main.Augs...)
	for _, s := range ms.Subs {
		out = append(out, s.Augs...)
	}
	return out
}

func c01SamePath(a, b []string) bool {
	if len(a) != len(b) {
		return false
	}
	for i := range a {
		if a[i] != b[i] {
			return false
		}
	}
	return true
}

// T3: move the body of a module-level augment to the end of its (explicitly written) target
func (ms *c01Modset) inlineAugment(k int) bool {
	augs := ms.allAugs()
	if k >= len(augs) {
		return false
	}
	a := augs[k]
	for _, e := range augs[:k] {
		if c01SamePath(e.Path, a.Path) {
			return false
		}
		// an EARLIER augment whose path runs through a node this augment adds fails ("target not
		// found": augments apply in textual order) and would succeed once the body is inline
		if len(e.Path) > len(a.Path) && c01SamePath(e.Path[:len(a.Path)], a.Path) {
			for _, x := range a.Kids {
				if x.T == tNode && x.Name == e.Path[len(a.Path)] {
					return false
				}
			}
		}
	}
	var node, implied *c01Stmt
	var file *c01Module
	for _, m := range append([]*c01Module{ms.Main}, ms.Subs...) {
		n, via, _, imp, ok := c01Locate(m.Body, a.Path, false)
		if ok && via == nil {
			node, implied, file = n, imp, m
			break
		}
		if ok && via != nil {
			return false
		}
	}
	if node == nil && implied == nil {
		return false
	}
	if !ms.usesVisible(a.Kids, file) {
		return false
	}
	add := c01CopyBody(a.Kids)
	for _, x := range add {
		c01AddWhen(x, a.W)
	}
	if implied != nil {
		// the target is the implied case of a shorthand member: write the case out
		inner := *implied
		*implied = c01Stmt{T: tNode, K: kCase, Name: inner.Name, Kids: append([]*c01Stmt{&inner}, add...)}
	} else {
		node.Kids = append(node.Kids, add...)
	}
	for _, m := range append([]*c01Module{ms.Main}, ms.Subs...) {
		for i, x := range m.Augs {
			if x == a {
				m.Augs = append(append([]*c01Stmt(nil), m.Augs[:i]...), m.Augs[i+1:]...)
				return true
			}
		}
	}
	return false
}

func (ms *c01Modset) firstSub() *c01Module {
	if len(ms.Subs) == 0 {
		ms.Subs = append(ms.Subs, &c01Module{Name: ms.Main.Name + "-sx", Prefix: ms.Main.Prefix})
	}
	return ms.Subs[0]
}

// T4: move a top-level definition of the main module into a submodule (what: 0 last data
// definition, 1 a grouping, 2 last augment)
func (ms *c01Modset) moveToSubmodule(what int, r *gen.Rng) bool {
	switch what {
	case 0:
		if len(ms.Main.Body) == 0 {
			return false
		}
		last := ms.Main.Body[len(ms.Main.Body)-1]
		sub := ms.firstSub()
		if !ms.usesVisible([]*c01Stmt{last}, sub) {
			return false
		}
		ms.Main.Body = ms.Main.Body[:len(ms.Main.Body)-1]
		sub.Body = append([]*c01Stmt{last}, sub.Body...)
		return true
	case 1:
		if len(ms.Main.Grps) == 0 {
			return false
		}
		i := r.Intn(len(ms.Main.Grps))
		g := ms.Main.Grps[i]
		sub := ms.firstSub()
		if len(ms.Subs) > 1 {
			sub = ms.Subs[r.Intn(len(ms.Subs))]
		}
		if !ms.usesVisible([]*c01Stmt{g}, sub) {
			return false
		}
		ms.Main.Grps = append(append([]*c01Stmt(nil), ms.Main.Grps[:i]...), ms.Main.Grps[i+1:]...)
		sub.Grps = append(sub.Grps, g)
		return true
	default:
		if len(ms.Main.Augs) == 0 {
			return false
		}
		last := ms.Main.Augs[len(ms.Main.Augs)-1]
		sub := ms.firstSub()
		if !ms.usesVisible([]*c01Stmt{last}, sub) {
			return false
		}
		ms.Main.Augs = ms.Main.Augs[:len(ms.Main.Augs)-1]
		sub.Augs = append([]*c01Stmt{last}, sub.Augs...)
		return true
	}
}

// T5: move a module-level grouping into an imported module; its uses get the import's prefix
func (ms *c01Modset) moveToImport(r *gen.Rng) bool {
	var cands []*c01Stmt
	for _, m := range append([]*c01Module{ms.Main}, ms.Subs...) {
		for _, g := range m.Grps {
			hasUses := false
			c01WalkList([]*c01Stmt{g}, func(s *c01Stmt) {
				if s.T == tUses {
					hasUses = true
				}
			})
			if hasUses {
				continue
			}
			usedFromSub := false
			for _, sm := range ms.Subs {
				sm.walk(func(s *c01Stmt) {
					if s.T == tUses && s.Target == g {
						usedFromSub = true
					}
				})
			}
			if !usedFromSub {
				cands = append(cands, g)
			}
		}
	}
	if len(cands) == 0 {
		return false
	}
	g := cands[r.Intn(len(cands))]
	for _, m := range append([]*c01Module{ms.Main}, ms.Subs...) {
		for i, x := range m.Grps {
			if x == g {
				m.Grps = append(append([]*c01Stmt(nil), m.Grps[:i]...), m.Grps[i+1:]...)
			}
		}
	}
	if len(ms.Imps) == 0 {
		ms.Imps = append(ms.Imps, &c01Imp{Prefix: "ix", M: &c01Module{Name: ms.Main.Name + "-ix", Prefix: "ixo"}})
	}
	im := ms.Imps[r.Intn(len(ms.Imps))]
	im.M.Grps = append(im.M.Grps, g)
	return true
}

// local groupings (module level, nested, sibling-scoped) in textual order
func (ms *c01Modset) localGroupings() []*c01Stmt {
	var out []*c01Stmt
	for _, m := range append([]*c01Module{ms.Main}, ms.Subs...) {
		m.walk(func(s *c01Stmt) {
			if s.T == tGrouping {
				out = append(out, s)
			}
		})
	}
	return out
}

// sameNameGroupings: is some grouping NAME bound by two different local definitions (necessarily
// in disjoint or nested scopes), and are two such definitions both used
func (ms *c01Modset) sameNameGroupings() (dup bool, bothUsed bool) {
	used := map[*c01Stmt]bool{}
	for _, m := range ms.files() {
		m.walk(func(s *c01Stmt) {
			if s.T == tUses {
				used[c01Root(s.Target)] = true
			}
		})
	}
	roots := map[string]map[*c01Stmt]bool{}
	for _, g := range ms.localGroupings() {
		if roots[g.Name] == nil {
			roots[g.Name] = map[*c01Stmt]bool{}
		}
		roots[g.Name][c01Root(g)] = true
	}
	for _, rs := range roots {
		nu := 0
		for r := range rs {
			if used[r] {
				nu++
			}
		}
		if len(rs) > 1 {
			dup = true
		}
		if nu > 1 {
			bothUsed = true
		}
	}
	return
}

// T7: grouping names are bound names. Give every local grouping definition a fresh name of its own
// (copies of one definition share it) - every uses follows, since it prints its target's name.
func (ms *c01Modset) renameApart(fresh func() string) int {
	names := map[*c01Stmt]string{}
	for _, g := range ms.localGroupings() {
		r := c01Root(g)
		if _, ok := names[r]; !ok {
			names[r] = fresh()
		}
	}
	// uses inside copied bodies may still point at the definition the copy was taken from
	for _, m := range ms.files() {
		m.walk(func(s *c01Stmt) {
			if s.T == tUses {
				if n, ok := names[c01Root(s.Target)]; ok {
					s.Target.Name = n
				}
			}
		})
	}
	for _, g := range ms.localGroupings() {
		g.Name = names[c01Root(g)]
	}
	return len(names)
}

var c01TNames = []string{"load", "inline-uses", "extract-grouping", "inline-augment", "to-submodule", "to-import", "independent-copies", "rename-groupings-apart"}

// applyRandom tries refactoring kind tk on ms (already a private copy)
func (ms *c01Modset) applyRefactoring(tk int, r *gen.Rng, fresh func() string) (string, bool) {
	switch tk {
	case 1:
		var us []c01Site
		for _, s := range ms.sites(true) {
			if (*s.list)[s.idx].T == tUses {
				us = append(us, s)
			}
		}
		for try := 0; try < 4 && len(us) > 0; try++ {
			s := us[r.Intn(len(us))]
			name := (*s.list)[s.idx].Target.Name
			if ms.inlineUses(s) {
				return "uses " + name, true
			}
		}
	case 2:
		ss := ms.sites(true)
		for try := 0; try < 4 && len(ss) > 0; try++ {
			s := ss[r.Intn(len(ss))]
			n := 1 + r.Intn(3)
			name := fresh()
			if ms.extractGrouping(s, n, name) {
				return fmt.Sprintf("%d definitions -> grouping %s", n, name), true
			}
		}
	case 3:
		n := len(ms.allAugs())
		for k := 0; k < n; k++ {
			if ms.inlineAugment(k) {
				return fmt.Sprintf("augment #%d", k), true
			}
		}
	case 4:
		w := r.Intn(3)
		for i := 0; i < 3; i++ {
			if ms.moveToSubmodule((w+i)%3, r) {
				return []string{"last data definition", "a grouping", "last augment"}[(w+i)%3], true
			}
		}
	case 5:
		if ms.moveToImport(r) {
			return "a grouping", true
		}
	case 7:
		if n := ms.renameApart(fresh); n > 0 {
			return fmt.Sprintf("%d grouping definitions renamed apart", n), true
		}
	}
	return "", false
}
