package props

import (
	"fmt"
	"reflect"
	"sort"

	"github.com/freeconf/yang/meta"
	"github.com/freeconf/yang/node"
	"github.com/freeconf/yang/nodeutil"
	"github.com/freeconf/yang/val"

	"yvh/core"
	"yvh/emit"
	"yvh/gen"
	"yvh/tree"
)

// ---- stream "list-switch": ONE upsert switches the case of the same choice in several entries ----

// listWithChoice reports whether some list of the schema holds a choice directly in its entries
func listWithChoice(s *tree.SNode) bool {
	for _, kid := range s.Kids {
		if kid.Kind == tree.KList && len(kid.Choices) > 0 {
			return true
		}
		if kid.Kind != tree.KLeaf && listWithChoice(kid) {
			return true
		}
	}
	return false
}

func anyChoice(s *tree.SNode) bool {
	if len(s.Choices) > 0 {
		return true
	}
	for _, kid := range s.Kids {
		if kid.Kind != tree.KLeaf && anyChoice(kid) {
			return true
		}
	}
	return false
}

// switchedEntries counts, per list of the tree, the entries whose selected case of some choice
// differs between before and after (entries matched by position: upserts keep existing rows in place)
func switchedEntries(s *tree.SNode, before, after *tree.Cont) int {
	most := 0
	for _, kid := range s.Kids {
		switch kid.Kind {
		case tree.KCont:
			if b, a := before.Conts[kid.Name], after.Conts[kid.Name]; b != nil && a != nil {
				if n := switchedEntries(kid, b, a); n > most {
					most = n
				}
			}
		case tree.KList:
			b, a := before.Lists[kid.Name], after.Lists[kid.Name]
			if b == nil || a == nil {
				continue
			}
			n := 0
			for i := 0; i < len(b.Rows) && i < len(a.Rows); i++ {
				cb, ca := map[string]int{}, map[string]int{}
				b.Rows[i].ChosenCases(kid, "", cb)
				a.Rows[i].ChosenCases(kid, "", ca)
				for k, v := range cb {
					if w, ok := ca[k]; ok && w != v && len(k) > 0 && k[0] == '#' {
						n++
						break
					}
				}
				if m := switchedEntries(kid, b.Rows[i], a.Rows[i]); m > most {
					most = m
				}
			}
			if n > most {
				most = n
			}
		}
	}
	return most
}

// rowWithCase generates an entry of list s whose choice h (if it populates it at all) sits on case k
func rowWithCase(r *gen.Rng, s *tree.SNode, density, h, k int) *tree.Cont {
	var row *tree.Cont
	for try := 0; try < 40; try++ {
		row = tree.GenData(r, s, density, 1)
		cs := map[string]int{}
		row.ChosenCases(s, "", cs)
		if got, ok := cs[fmt.Sprintf("#%d", h)]; ok && got == k {
			return row
		}
	}
	return row
}

// moveEntries rewrites, in src, every list that holds a choice in its entries and has two or more
// entries in tgt: most of the target's entries are addressed (by their keys) by source entries that
// all populate the SAME case of one of the entry's choices - the case switch of a whole list at once
func moveEntries(r *gen.Rng, s *tree.SNode, src, tgt *tree.Cont) {
	for _, kid := range s.Kids {
		switch kid.Kind {
		case tree.KCont:
			if a, b := src.Conts[kid.Name], tgt.Conts[kid.Name]; a != nil && b != nil {
				moveEntries(r, kid, a, b)
			}
		case tree.KList:
			tl := tgt.Lists[kid.Name]
			if tl == nil || len(tl.Rows) < 2 || len(kid.Choices) == 0 {
				continue
			}
			if _, ok := src.Lists[kid.Name]; !ok && len(kid.Guard) > 0 {
				continue // adding it could populate a second case of the source
			}
			h := r.Intn(len(kid.Choices))
			k := r.Intn(len(kid.Choices[h].CaseIdents()))
			density := 60 + r.Intn(40)
			l := &tree.List{}
			for _, tr := range tl.Rows {
				if !r.Chance(5, 6) {
					continue
				}
				row := rowWithCase(r, kid, density, h, k)
				ok := true
				for _, ki := range kid.Keys {
					v := tr.Leaves[kid.Kids[ki].Name]
					if v == nil {
						ok = false
						break
					}
					row.Leaves[kid.Kids[ki].Name] = v
				}
				if ok {
					l.Rows = append(l.Rows, row)
				}
			}
			for i := len(l.Rows) - 1; i > 0; i-- {
				j := r.Intn(i + 1)
				l.Rows[i], l.Rows[j] = l.Rows[j], l.Rows[i]
			}
			src.Lists[kid.Name] = l
		}
	}
}

func rowsOfListsWithChoice(s *tree.SNode, c *tree.Cont) int {
	most := 0
	for _, kid := range s.Kids {
		switch kid.Kind {
		case tree.KCont:
			if sub := c.Conts[kid.Name]; sub != nil {
				if n := rowsOfListsWithChoice(kid, sub); n > most {
					most = n
				}
			}
		case tree.KList:
			if l := c.Lists[kid.Name]; l != nil && len(kid.Choices) > 0 && len(l.Rows) > most {
				most = len(l.Rows)
			}
		}
	}
	return most
}

// c09ListSwitch: schemas in which a list holds a choice in its entries; the target holds several
// entries, the source addresses most of them and moves them to another case of the entry's choice
// in ONE upsert (the editor meets the same schema case once per entry).
func c09ListSwitch(ctx *core.Ctx, r *gen.Rng, count int) error {
	opts := tree.GenOpts{MaxDepth: 2, MaxKids: 3, Lists: true, Defaults: true, LeafLists: true, Choices: true, ChoiceHeavy: true, ListHeavy: true}
	made := 0
	for n := 0; made < count && n < count*40; n++ {
		yang, m, root, err := tree.GenSchema(r.Fork(uint64(n)), opts)
		if err != nil {
			return fmt.Errorf("generated schema does not load: %v\n%s", err, yang)
		}
		if !listWithChoice(root) {
			continue
		}
		made++
		dr := r.Fork(uint64(9000 + n))
		tgt := tree.GenData(dr, root, 85, 4)
		for try := 0; try < 8 && rowsOfListsWithChoice(root, tgt) < 2; try++ {
			tgt = tree.GenData(dr, root, 85, 4)
		}
		steps := 1 + dr.Intn(3)
		for k := 0; k < steps; k++ {
			src := tree.GenDataAgainst(dr, root, 55+dr.Intn(40), 1, tgt)
			if dr.Chance(3, 4) {
				moveEntries(dr, root, src, tgt)
			}
			e := entry{kind: "root", s: root, src: src, tgt: tgt}
			if dr.Chance(1, 4) {
				if e = pickEntry(dr, root, src, tgt); e.kind == "list" || e.kind == "row" {
					e = entry{kind: "root", s: root, src: src, tgt: tgt}
				}
			}
			before := tgt.Clone()
			if err := runEdit(ctx, m, root, yang, src, tgt, e, 0, dr.Bool()); err != nil {
				return err
			}
			ctx.Count("stream:list-switch")
			switch n := switchedEntries(root, before, tgt); {
			case n >= 2:
				ctx.Count("list-switch:one upsert switches a case in >=2 entries of a list")
			case n == 1:
				ctx.Count("list-switch:one entry switches")
			default:
				ctx.Count("list-switch:no entry switches")
			}
		}
	}
	return nil
}

// ---- stream "node-target": upsert histories on nodeutil.Node over Go maps -------------------------

// zeroOf is the zero value of the leaf's Go representation (false, 0, "", 0.0), nil when the type
// has none (enumerations hold a label, leaf-lists are never empty)
func zeroOf(l meta.Leafable) val.Value {
	t := l.Type()
	var x interface{}
	switch t.Format() {
	case val.FmtInt8, val.FmtInt16, val.FmtInt32, val.FmtInt64:
		x = int64(0)
	case val.FmtUInt8, val.FmtUInt16, val.FmtUInt32, val.FmtUInt64:
		x = uint64(0)
	case val.FmtString:
		x = ""
	case val.FmtBool:
		x = false
	case val.FmtDecimal64:
		x = float64(0)
	default:
		return nil
	}
	v, err := node.NewValue(t, x)
	if err != nil {
		return nil
	}
	return v
}

// zeroBias rewrites non-key leaves to the zero value of their type: per content node either all of
// them, about half of them, or none (boundary values false / 0 / "" are legal data like any other)
func zeroBias(r *gen.Rng, s *tree.SNode, c *tree.Cont) {
	isKey := map[string]bool{}
	for _, k := range s.Keys {
		isKey[s.Kids[k].Name] = true
	}
	mode := r.Intn(3)
	for _, kid := range s.Kids {
		switch kid.Kind {
		case tree.KLeaf:
			if _, ok := c.Leaves[kid.Name]; !ok || isKey[kid.Name] || mode == 0 {
				continue
			}
			if mode == 2 && r.Bool() {
				continue
			}
			if z := zeroOf(kid.Leafable()); z != nil {
				c.Leaves[kid.Name] = z
			}
		case tree.KCont:
			if sub := c.Conts[kid.Name]; sub != nil {
				zeroBias(r, kid, sub)
			}
		case tree.KList:
			if l := c.Lists[kid.Name]; l != nil {
				for _, row := range l.Rows {
					zeroBias(r, kid, row)
				}
			}
		}
	}
}

// fromGo converts the Go maps / slices a nodeutil.Node target edits back into reference-store
// content WITHOUT going through the library's node API (no Choose, no Field): what the target holds.
// Lists are slices (initial data) or Go maps keyed by the key leaf (created by nodeutil.Node at run
// time; rows taken in the order of their printed keys, compared as multisets by the check).
func fromGo(s *tree.SNode, obj interface{}) (*tree.Cont, error) {
	rv := reflect.ValueOf(obj)
	for rv.IsValid() && rv.Kind() == reflect.Interface {
		rv = rv.Elem()
	}
	if !rv.IsValid() || rv.Kind() != reflect.Map {
		return nil, fmt.Errorf("fromGo: %s is held as %T, not a map", s.Name, obj)
	}
	c := tree.NewCont()
	known := map[string]bool{}
	for _, kid := range s.Kids {
		known[kid.Name] = true
		v := rv.MapIndex(reflect.ValueOf(kid.Name))
		for v.IsValid() && v.Kind() == reflect.Interface {
			v = v.Elem()
		}
		if !v.IsValid() {
			continue
		}
		switch kid.Kind {
		case tree.KLeaf:
			lv, err := node.NewValue(kid.Leafable().Type(), v.Interface())
			if err != nil || lv == nil {
				return nil, fmt.Errorf("fromGo: leaf %s holds %#v: %v", kid.Name, v.Interface(), err)
			}
			c.Leaves[kid.Name] = lv
		case tree.KCont:
			sub, err := fromGo(kid, v.Interface())
			if err != nil {
				return nil, err
			}
			c.Conts[kid.Name] = sub
		case tree.KList:
			l := &tree.List{}
			switch v.Kind() {
			case reflect.Slice:
				for i := 0; i < v.Len(); i++ {
					row, err := fromGo(kid, v.Index(i).Interface())
					if err != nil {
						return nil, err
					}
					l.Rows = append(l.Rows, row)
				}
			case reflect.Map:
				keys := v.MapKeys()
				sort.Slice(keys, func(i, j int) bool {
					return fmt.Sprint(keys[i].Interface()) < fmt.Sprint(keys[j].Interface())
				})
				for _, k := range keys {
					row, err := fromGo(kid, v.MapIndex(k).Interface())
					if err != nil {
						return nil, err
					}
					l.Rows = append(l.Rows, row)
				}
			default:
				return nil, fmt.Errorf("fromGo: list %s is held as %s", kid.Name, v.Type())
			}
			c.Lists[kid.Name] = l
		}
	}
	for _, k := range rv.MapKeys() {
		if name := fmt.Sprint(k.Interface()); !known[name] {
			return nil, fmt.Errorf("fromGo: %s holds an entry %q that is no child of it", s.Name, name)
		}
	}
	return c, nil
}

// allZeroCase reports whether somewhere in c the selected case of a choice consists of zero-valued
// leaves only (the boundary the node-target stream is biased towards)
func allZeroCase(s *tree.SNode, c *tree.Cont) bool {
	type st struct{ n, zero int }
	per := map[[2]int]*st{}
	for _, kid := range s.Kids {
		if !hasKid(c, kid) {
			continue
		}
		for _, g := range kid.Guard {
			p := per[g]
			if p == nil {
				p = &st{}
				per[g] = p
			}
			p.n++
			if kid.Kind == tree.KLeaf {
				if z := zeroOf(kid.Leafable()); z != nil && val.Equal(z, c.Leaves[kid.Name]) {
					p.zero++
				}
			}
		}
		switch kid.Kind {
		case tree.KCont:
			if allZeroCase(kid, c.Conts[kid.Name]) {
				return true
			}
		case tree.KList:
			for _, row := range c.Lists[kid.Name].Rows {
				if allZeroCase(kid, row) {
					return true
				}
			}
		}
	}
	for _, p := range per {
		if p.n > 0 && p.n == p.zero {
			return true
		}
	}
	return false
}

func hasKid(c *tree.Cont, kid *tree.SNode) bool {
	switch kid.Kind {
	case tree.KLeaf:
		_, ok := c.Leaves[kid.Name]
		return ok
	case tree.KCont:
		_, ok := c.Conts[kid.Name]
		return ok
	}
	_, ok := c.Lists[kid.Name]
	return ok
}

// c09NodeTargets: upsert histories whose target is nodeutil.Node over Go maps (initial lists are
// slices of maps, lists created at run time are Go maps).  After every step the harness records what
// the target HOLDS (fromGo: the maps themselves) and what a READ of it reports (UpsertInto a
// capturing reference store, i.e. through the target's own Choose).
func c09NodeTargets(ctx *core.Ctx, r *gen.Rng, count int) error {
	opts := tree.GenOpts{MaxDepth: 2, MaxKids: 3, Lists: true, Defaults: true, LeafLists: true, Choices: true, ChoiceHeavy: true,
		SingleKey: true, KeyTypes: []string{"string"},
		Types: []string{"int32", "int64", "uint8", "string", "boolean", "decimal64 { fraction-digits 2; }"}}
	made := 0
	for n := 0; made < count && n < count*40; n++ {
		yang, m, root, err := tree.GenSchema(r.Fork(uint64(n)), opts)
		if err != nil {
			return fmt.Errorf("generated schema does not load: %v\n%s", err, yang)
		}
		if !anyChoice(root) {
			continue
		}
		made++
		dr := r.Fork(uint64(11000 + n))
		init := tree.GenData(dr, root, 60, 2)
		zeroBias(dr, root, init)
		obj := goMap(root, init)
		b := node.NewBrowser(m, &nodeutil.Node{Object: obj})
		steps := 2 + dr.Intn(4)
		for k := 0; k < steps; k++ {
			before, err := fromGo(root, obj)
			if err != nil {
				return fmt.Errorf("c09 node-target: %v\n%s", err, yang)
			}
			src := tree.GenDataAgainst(dr, root, 40+dr.Intn(55), 2, before)
			zeroBias(dr, root, src)
			fromDir := dr.Bool()
			callErr, panicked := guard(func() error {
				if fromDir {
					return b.Root().UpsertFrom(src.Node(root, nil, ""))
				}
				return node.NewBrowser(m, src.Node(root, nil, "")).Root().UpsertInto(&nodeutil.Node{Object: obj})
			})
			var obs, obsDesc string
			cont := true
			switch {
			case panicked != "":
				obs, obsDesc, cont = "NObsPanic", "panic: "+panicked, false
			case callErr != nil:
				obs, obsDesc, cont = emit.App("NObsErr", errClass(callErr)), errClass(callErr)+": "+callErr.Error(), false
			default:
				raw, err := fromGo(root, obj)
				if err != nil {
					obs, obsDesc, cont = "NObsPanic", "the target's maps are not shaped like the schema: "+err.Error(), false
					break
				}
				read := tree.NewCont()
				rerr, rp := guard(func() error { return b.Root().UpsertInto(read.Node(root, nil, "")) })
				if rerr != nil || rp != "" {
					obs, obsDesc, cont = "NObsPanic", fmt.Sprintf("reading the target back failed: %v %s", rerr, rp), false
					break
				}
				obs = emit.App("NObsOk", raw.ContentTerm(root), read.ContentTerm(root))
				obsDesc = "holds " + raw.Desc(root) + " ; a read reports " + read.Desc(root)
				if allZeroCase(root, raw) {
					ctx.Count("node-target:after the step a selected case holds zero-valued leaves only")
				}
			}
			dir := "UpsertInto"
			if fromDir {
				dir = "UpsertFrom"
			}
			ctx.Add(emit.App("CNode", root.KidsTerm(), src.ContentTerm(root), before.ContentTerm(root), obs),
				map[string]interface{}{"yang": yang, "target": "nodeutil.Node over Go maps (map[string]interface{}; initial lists are slices of maps)",
					"call": dir + " at the root", "source": src.Desc(root), "target_before": before.Desc(root), "observed": obsDesc}, src.Size() > 0)
			ctx.Count("stream:node-target")
			ctx.Count("call:" + dir)
			if allZeroCase(root, before) {
				ctx.Count("node-target:before the step a selected case holds zero-valued leaves only")
			}
			if !cont {
				ctx.Count("node-target:history stopped (error or panic)")
				break
			}
		}
	}
	return nil
}
