package props

import (
	"fmt"
	"sort"
	"strings"

	"github.com/freeconf/yang/meta"
	"github.com/freeconf/yang/parser"

	"yvh/core"
	"yvh/emit"
	"yvh/gen"
)

// C11 part (ii), statements at every depth: a generated module in which guarded statements stand
// wherever a statement can stand - in containers and lists, in cases and directly in a choice, in
// groupings (used once or several times, uses nested in groupings), in the refine and augment
// substatements of a uses, in module-level augments (onto containers, lists, choices, cases, also
// onto what a uses or another grouping added), in the input/output of rpcs and actions and in
// notifications, wherever those can be written (module, container, list, grouping, augment).
// Observed: for every statement whether it is in the compiled tree (one flag tree of the shape of
// the module), and that nothing absent is still found by name.  Model: Feature/GuardTree.v.

type c11tStep struct{ kind, name string }

type c11tNode struct {
	kind  string // leaf leaf-list anyxml container list choice case uses refine augment maugment rpc action input output notification
	name  string
	ifs   []string
	kids  []*c11tNode
	group *c11tGroup // uses
	steps []c11tStep // refine / augment: schema nodes from the place of the uses (or from the module) to the target
}

type c11tGroup struct {
	name   string
	body   []*c11tNode
	hasRpc bool                // an action or notification anywhere inside
	incl   map[*c11tGroup]bool // itself and every grouping used anywhere inside
}

type c11tCtx struct {
	depth    int
	allowRpc bool // an action / notification may be written here
	inRpc    bool // inside an rpc, action or notification
}

type c11tGen struct {
	r      *gen.Rng
	seq    int
	done   []*c11tGroup // completed groupings, in order of completion
	active []*c11tGroup // groupings whose uses statement is being written
	budget int
	bad    string // a malformed expression still to be placed ("" = none)
	placed bool
}

const c11tMaxDepth = 4

func (g *c11tGen) id(prefix string) string {
	g.seq++
	return fmt.Sprintf("%s%d", prefix, g.seq)
}

func (g *c11tGen) guards() []string {
	n := []int{0, 0, 0, 1, 1, 1, 1, 2}[g.r.Intn(8)]
	gs := make([]string, n)
	for i := range gs {
		gs[i] = c11GuardExpr(g.r)
	}
	if g.bad != "" && !g.placed && g.r.Chance(1, 8) {
		p := g.r.Intn(len(gs) + 1)
		gs = append(gs[:p], append([]string{g.bad}, gs[p:]...)...)
		g.placed = true
	}
	return gs
}

func (g *c11tGen) leafish() *c11tNode {
	g.budget--
	return &c11tNode{kind: []string{"leaf", "leaf", "leaf", "leaf-list", "anyxml"}[g.r.Intn(5)], name: g.id("n"), ifs: g.guards()}
}

func (g *c11tGen) marker() *c11tNode {
	return &c11tNode{kind: "leaf", name: g.id("m")}
}

func (g *c11tGen) dataKids(ctx c11tCtx, min, max int) []*c11tNode {
	n := min + g.r.Intn(max-min+1)
	var out []*c11tNode
	for i := 0; i < n; i++ {
		out = append(out, g.dataNode(ctx))
	}
	return out
}

// actions and notifications of a container, list, grouping or augment
func (g *c11tGen) rpcish(ctx c11tCtx, atModule bool) []*c11tNode {
	var out []*c11tNode
	if !ctx.allowRpc || ctx.inRpc || g.budget <= 0 {
		return nil
	}
	den := 5
	if atModule {
		den = 2
	}
	if g.r.Chance(1, den) {
		kind := "action"
		if atModule {
			kind = "rpc"
		}
		a := &c11tNode{kind: kind, name: g.id("r")}
		in := c11tCtx{depth: ctx.depth + 2, inRpc: true}
		switch g.r.Intn(3) {
		case 0:
			a.kids = []*c11tNode{{kind: "input", name: "input", kids: g.dataKids(in, 1, 2)}}
		case 1:
			a.kids = []*c11tNode{{kind: "output", name: "output", kids: g.dataKids(in, 1, 2)}}
		default:
			a.kids = []*c11tNode{{kind: "input", name: "input", kids: g.dataKids(in, 1, 2)}, {kind: "output", name: "output", kids: g.dataKids(in, 1, 2)}}
		}
		out = append(out, a)
	}
	if g.r.Chance(1, den+2) {
		out = append(out, &c11tNode{kind: "notification", name: g.id("e"), kids: g.dataKids(c11tCtx{depth: ctx.depth + 2, inRpc: true}, 1, 2)})
	}
	return out
}

func (g *c11tGen) dataNode(ctx c11tCtx) *c11tNode {
	if g.budget <= 0 || ctx.depth >= c11tMaxDepth {
		return g.leafish()
	}
	sub := c11tCtx{depth: ctx.depth + 1, allowRpc: !ctx.inRpc, inRpc: ctx.inRpc}
	switch p := g.r.Intn(100); {
	case p < 34:
		return g.leafish()
	case p < 54:
		g.budget--
		n := &c11tNode{kind: gen.Pick(g.r, []string{"container", "container", "list"}), name: g.id("n"), ifs: g.guards()}
		n.kids = append(g.dataKids(sub, 0, 3), g.rpcish(sub, false)...)
		return n
	case p < 68:
		return g.choice(ctx)
	case p < 90:
		return g.uses(ctx, nil)
	default:
		// an earlier grouping used once more, alone in a new container (its names cannot clash there)
		var fit []*c11tGroup
		for _, gr := range g.done {
			// not inside a uses of the same grouping (the resolver takes that for a grouping
			// that uses itself)
			busy := false
			for _, a := range g.active {
				busy = busy || gr.incl[a]
			}
			if !busy && !(gr.hasRpc && ctx.inRpc) {
				fit = append(fit, gr)
			}
		}
		if len(fit) == 0 {
			return g.leafish()
		}
		g.budget--
		n := &c11tNode{kind: "container", name: g.id("n"), ifs: g.guards()}
		n.kids = []*c11tNode{g.uses(sub, gen.Pick(g.r, fit))}
		return n
	}
}

func (g *c11tGen) choice(ctx c11tCtx) *c11tNode {
	g.budget--
	n := &c11tNode{kind: "choice", name: g.id("n"), ifs: g.guards()}
	n.kids = g.choiceKids(ctx, 1, 3)
	return n
}

// what may stand in a choice (or in an augment of a choice): cases and, as shorthand, data nodes
func (g *c11tGen) choiceKids(ctx c11tCtx, min, max int) []*c11tNode {
	k := min + g.r.Intn(max-min+1)
	var out []*c11tNode
	for i := 0; i < k; i++ {
		inCase := c11tCtx{depth: ctx.depth + 2, allowRpc: false, inRpc: ctx.inRpc}
		switch g.r.Intn(5) {
		case 0, 1:
			g.budget--
			out = append(out, &c11tNode{kind: "case", name: g.id("n"), ifs: g.guards(), kids: g.dataKids(inCase, 1, 2)})
		case 2:
			g.budget--
			out = append(out, &c11tNode{kind: gen.Pick(g.r, []string{"container", "list"}), name: g.id("n"), ifs: g.guards(),
				kids: g.dataKids(c11tCtx{depth: ctx.depth + 2, allowRpc: false, inRpc: ctx.inRpc}, 0, 2)})
		default:
			out = append(out, g.leafish())
		}
	}
	return out
}

type c11tTarget struct {
	steps []c11tStep
	kind  string
	node  *c11tNode
}

// every statement below [nodes] that is reached through statements without if-feature (so that it
// exists whenever the uses / the module is there); intoUses: also what a nested uses brings
func c11tTargets(nodes []*c11tNode, chain []c11tStep, inChoice bool, intoUses bool, out *[]c11tTarget) {
	for _, n := range nodes {
		if len(n.ifs) > 0 {
			continue
		}
		here := append([]c11tStep{}, chain...)
		if inChoice && n.kind != "case" {
			here = append(here, c11tStep{"case", n.name}) // the case a shorthand node implies
		}
		switch n.kind {
		case "leaf", "leaf-list", "anyxml":
			*out = append(*out, c11tTarget{append(here, c11tStep{n.kind, n.name}), n.kind, n})
		case "container", "list":
			here = append(here, c11tStep{n.kind, n.name})
			*out = append(*out, c11tTarget{here, n.kind, n})
			c11tTargets(n.kids, here, false, intoUses, out)
		case "choice":
			here = append(here, c11tStep{n.kind, n.name})
			*out = append(*out, c11tTarget{here, n.kind, n})
			c11tTargets(n.kids, here, true, intoUses, out)
		case "case":
			here = append(here, c11tStep{n.kind, n.name})
			*out = append(*out, c11tTarget{here, n.kind, n})
			c11tTargets(n.kids, here, false, intoUses, out)
		case "uses":
			if intoUses {
				c11tTargets(n.group.body, here, false, intoUses, out)
			}
		}
	}
}

func c11tPath(steps []c11tStep) string {
	names := make([]string, len(steps))
	for i, s := range steps {
		names[i] = s.name
	}
	return strings.Join(names, "/")
}

// the definitions an augment of [t] holds
func (g *c11tGen) augmentKids(ctx c11tCtx, t c11tTarget) []*c11tNode {
	kids := []*c11tNode{g.marker()}
	if t.kind == "choice" {
		return append(kids, g.choiceKids(ctx, 1, 2)...)
	}
	sub := c11tCtx{depth: ctx.depth + 1, allowRpc: (t.kind == "container" || t.kind == "list") && !ctx.inRpc, inRpc: ctx.inRpc}
	kids = append(kids, g.dataKids(sub, 1, 3)...)
	return append(kids, g.rpcish(sub, false)...)
}

func c11tIncluded(nodes []*c11tNode, into map[*c11tGroup]bool) {
	for _, n := range nodes {
		if n.kind == "uses" {
			for k := range n.group.incl {
				into[k] = true
			}
		}
		c11tIncluded(n.kids, into)
	}
}

func c11tHasRpc(nodes []*c11tNode) bool {
	for _, n := range nodes {
		switch n.kind {
		case "action", "rpc", "notification":
			return true
		case "uses":
			if n.group.hasRpc {
				return true
			}
		}
		if c11tHasRpc(n.kids) {
			return true
		}
	}
	return false
}

func (g *c11tGen) uses(ctx c11tCtx, gr *c11tGroup) *c11tNode {
	g.budget--
	if gr == nil {
		gr = &c11tGroup{name: g.id("g")}
		in := c11tCtx{depth: ctx.depth + 1, allowRpc: ctx.allowRpc, inRpc: ctx.inRpc}
		gr.body = []*c11tNode{g.marker()}
		if g.r.Chance(3, 4) {
			// something without if-feature that a refine or an augment of the uses can name
			sub := c11tCtx{depth: in.depth + 1, allowRpc: !in.inRpc, inRpc: in.inRpc}
			if g.r.Chance(1, 3) {
				ch := g.choice(in)
				ch.ifs = nil
				gr.body = append(gr.body, ch)
			} else {
				g.budget--
				gr.body = append(gr.body, &c11tNode{kind: gen.Pick(g.r, []string{"container", "container", "list"}), name: g.id("n"), kids: g.dataKids(sub, 0, 2)})
			}
		}
		gr.body = append(gr.body, g.dataKids(in, 1, 2)...)
		gr.body = append(gr.body, g.rpcish(in, false)...)
		gr.hasRpc = c11tHasRpc(gr.body)
		gr.incl = map[*c11tGroup]bool{gr: true}
		c11tIncluded(gr.body, gr.incl)
		g.done = append(g.done, gr)
	}
	g.active = append(g.active, gr)
	defer func() { g.active = g.active[:len(g.active)-1] }()
	u := &c11tNode{kind: "uses", name: gr.name, group: gr, ifs: g.guards()}
	u.kids = append(u.kids, gr.body...)
	// refine: definitions of the grouping itself, each at most once
	var rt []c11tTarget
	c11tTargets(gr.body[1:], nil, false, false, &rt)
	for i := g.r.Intn(3); i > 0 && len(rt) > 0; i-- {
		k := g.r.Intn(len(rt))
		t := rt[k]
		rt = append(rt[:k], rt[k+1:]...)
		if t.kind == "case" {
			continue
		}
		u.kids = append(u.kids, &c11tNode{kind: "refine", name: c11tPath(t.steps), ifs: g.guards(), steps: t.steps})
	}
	// augment: anything below the place of the uses that can hold definitions
	var at []c11tTarget
	c11tTargets(gr.body[1:], nil, false, true, &at)
	for i := []int{0, 1, 1, 1, 2, 2}[g.r.Intn(6)]; i > 0; i-- {
		var fit []c11tTarget
		for _, t := range at {
			if t.kind == "container" || t.kind == "list" || t.kind == "choice" || t.kind == "case" {
				fit = append(fit, t)
			}
		}
		if len(fit) == 0 {
			break
		}
		t := gen.Pick(g.r, fit)
		a := &c11tNode{kind: "augment", name: c11tPath(t.steps), ifs: g.guards(), steps: t.steps}
		a.kids = g.augmentKids(c11tCtx{depth: ctx.depth + 1, inRpc: ctx.inRpc}, t)
		u.kids = append(u.kids, a)
	}
	return u
}

type c11tModule struct {
	cfgKind  string
	cfgList  []string
	declared []string
	top      []*c11tNode
	groups   []*c11tGroup
	bad      string
}

func c11tGenerate(r *gen.Rng) *c11tModule {
	m := &c11tModule{}
	m.declared = c11Subset(r, []string{"a", "b", "c", "d"})
	if len(m.declared) == 0 {
		m.declared = []string{"a"}
	}
	switch r.Intn(3) {
	case 0:
		m.cfgKind = "all-on"
	case 1:
		m.cfgKind, m.cfgList = "allow-list", c11Subset(r, []string{"a", "b", "c", "d", "zz"})
	default:
		m.cfgKind, m.cfgList = "deny-list", c11Subset(r, []string{"a", "b", "c", "d", "zz"})
	}
	g := &c11tGen{r: r, budget: 14 + r.Intn(22)}
	if r.Chance(1, 10) {
		g.bad = gen.Pick(r, c11GuardBad)
	}
	ctx := c11tCtx{depth: 0, allowRpc: true}
	m.top = g.dataKids(ctx, 2, 4)
	m.top = append(m.top, g.rpcish(ctx, true)...)
	// module-level augments: onto anything the module holds once every uses is expanded
	var at []c11tTarget
	c11tTargets(m.top, nil, false, true, &at)
	var fit []c11tTarget
	for _, t := range at {
		if t.kind == "container" || t.kind == "list" || t.kind == "choice" || t.kind == "case" {
			fit = append(fit, t)
		}
	}
	for i := []int{0, 1, 1, 2, 2}[r.Intn(5)]; i > 0 && len(fit) > 0; i-- {
		t := gen.Pick(r, fit)
		a := &c11tNode{kind: "maugment", name: "/" + c11tPath(t.steps), ifs: g.guards(), steps: t.steps}
		g.budget += 4
		a.kids = g.augmentKids(c11tCtx{depth: 1}, t)
		m.top = append(m.top, a)
	}
	m.groups = g.done
	if g.placed {
		m.bad = g.bad
	}
	return m
}

// ---- text ---------------------------------------------------------------------------------------

func (n *c11tNode) yang(b *strings.Builder, ind string) {
	g := c11GuardYang(n.ifs)
	body := func() {
		for _, k := range n.kids {
			k.yang(b, ind+" ")
		}
	}
	switch n.kind {
	case "leaf", "leaf-list":
		fmt.Fprintf(b, "%s%s %s { %stype string; }\n", ind, n.kind, n.name, g)
	case "anyxml":
		fmt.Fprintf(b, "%sanyxml %s { %sdescription \"x\"; }\n", ind, n.name, g)
	case "list":
		fmt.Fprintf(b, "%slist %s { %skey k%s; leaf k%s { type string; }\n", ind, n.name, g, n.name, n.name)
		body()
		fmt.Fprintf(b, "%s}\n", ind)
	case "container", "choice", "case", "rpc", "action", "notification":
		fmt.Fprintf(b, "%s%s %s { %s\n", ind, n.kind, n.name, g)
		body()
		fmt.Fprintf(b, "%s}\n", ind)
	case "input", "output":
		fmt.Fprintf(b, "%s%s {\n", ind, n.kind)
		body()
		fmt.Fprintf(b, "%s}\n", ind)
	case "uses":
		fmt.Fprintf(b, "%suses %s { %s\n", ind, n.name, g)
		for _, k := range n.kids {
			if k.kind == "refine" || k.kind == "augment" {
				k.yang(b, ind+" ")
			}
		}
		fmt.Fprintf(b, "%s}\n", ind)
	case "refine":
		fmt.Fprintf(b, "%srefine \"%s\" { %sdescription \"R\"; }\n", ind, n.name, g)
	case "augment", "maugment":
		fmt.Fprintf(b, "%saugment \"%s\" { %s\n", ind, n.name, g)
		body()
		fmt.Fprintf(b, "%s}\n", ind)
	}
}

func (m *c11tModule) yang() string {
	var b strings.Builder
	b.WriteString("module m { namespace \"urn:m\"; prefix p; revision 2020-01-01;\n")
	for _, f := range m.declared {
		fmt.Fprintf(&b, " feature %s;\n", f)
	}
	for _, g := range m.groups {
		fmt.Fprintf(&b, " grouping %s {\n", g.name)
		for _, k := range g.body {
			k.yang(&b, "  ")
		}
		b.WriteString(" }\n")
	}
	for _, n := range m.top {
		n.yang(&b, " ")
	}
	b.WriteString("}\n")
	return b.String()
}

// ---- the order of the resolver -----------------------------------------------------------------

func c11tClass(parent string, k *c11tNode) int {
	cls := 0 // data definitions, cases, uses
	switch k.kind {
	case "rpc", "action":
		cls = 1
	case "notification":
		cls = 2
	case "refine":
		cls = 3
	case "augment", "maugment":
		cls = 4
	}
	switch parent {
	case "uses", "augment", "maugment":
		return cls // definitions, actions, notifications, refines, augments
	}
	// enter: actions, notifications, then the data definitions; the module's augments come last
	return []int{3, 1, 2, 0, 4}[cls]
}

func c11tCanon(parent string, kids []*c11tNode) []*c11tNode {
	out := append([]*c11tNode{}, kids...)
	sort.SliceStable(out, func(i, j int) bool { return c11tClass(parent, out[i]) < c11tClass(parent, out[j]) })
	return out
}

var c11tKinds = map[string]string{"leaf": "KnLeaf", "leaf-list": "KnLeaf", "anyxml": "KnLeaf", "container": "KnCont", "list": "KnCont",
	"choice": "KnChoice", "case": "KnCase", "uses": "KnUses", "refine": "KnRefine", "augment": "KnAug", "maugment": "KnMAug",
	"rpc": "KnRpc", "action": "KnRpc", "input": "KnIO", "output": "KnIO", "notification": "KnNotif"}

func (n *c11tNode) term() string {
	kids := c11tCanon(n.kind, n.kids)
	ts := make([]string, len(kids))
	for i, k := range kids {
		ts[i] = k.term()
	}
	return emit.App("Nd", c11tKinds[n.kind], c11TextList(n.ifs), emit.List(ts))
}

// ---- observation -------------------------------------------------------------------------------

type c11tFlag struct {
	what string
	b    bool
	kids []*c11tFlag
}

func (f *c11tFlag) term() string {
	ts := make([]string, len(f.kids))
	for i, k := range f.kids {
		ts[i] = k.term()
	}
	return emit.App("Pt", emit.Bool(f.b), emit.List(ts))
}

func (f *c11tFlag) lines(ind string, out *[]string) {
	v := "absent"
	if f.b {
		v = "present"
	}
	*out = append(*out, fmt.Sprintf("%s%s: %s", ind, f.what, v))
	for _, k := range f.kids {
		k.lines(ind+"  ", out)
	}
}

type c11tObs struct {
	ghosts []string
}

// the object called [name] of kind [kind] listed under [where]; nil (untyped) if it is not there
func c11tLookup(where interface{}, kind, name string) interface{} {
	if where == nil {
		return nil
	}
	switch kind {
	case "case":
		if ch, ok := where.(*meta.Choice); ok {
			if cs := ch.Cases()[name]; cs != nil {
				return cs
			}
		}
		return nil
	case "rpc", "action":
		if h, ok := where.(meta.HasActions); ok {
			if a := h.Actions()[name]; a != nil {
				return a
			}
		}
		return nil
	case "notification":
		if h, ok := where.(meta.HasNotifications); ok {
			if a := h.Notifications()[name]; a != nil {
				return a
			}
		}
		return nil
	case "input":
		if r, ok := where.(*meta.Rpc); ok && r.Input() != nil {
			return r.Input()
		}
		return nil
	case "output":
		if r, ok := where.(*meta.Rpc); ok && r.Output() != nil {
			return r.Output()
		}
		return nil
	}
	if ch, ok := where.(*meta.Choice); ok {
		// shorthand: the node stands in a case of its own name
		cs := ch.Cases()[name]
		if cs == nil {
			return nil
		}
		where = cs
	}
	if h, ok := where.(meta.HasDataDefinitions); ok {
		for _, d := range h.DataDefinitions() {
			if d.Ident() == name {
				return d
			}
		}
	}
	return nil
}

func c11tIsHolder(o interface{}) bool {
	switch o.(type) {
	case *meta.Choice, *meta.ChoiceCase:
		return false
	}
	return true
}

// follows [steps] from [where]; dp: the nearest object on the way that is not a choice or case
func c11tWalk(where interface{}, dp interface{}, steps []c11tStep) (interface{}, interface{}) {
	for _, s := range steps {
		where = c11tLookup(where, s.kind, s.name)
		if where == nil {
			return nil, nil
		}
		if c11tIsHolder(where) {
			dp = where
		}
	}
	return where, dp
}

func (o *c11tObs) observe(parent string, n *c11tNode, where interface{}, dp interface{}) *c11tFlag {
	f := &c11tFlag{what: n.kind + " " + n.name}
	kids := c11tCanon(n.kind, n.kids)
	switch n.kind {
	case "uses":
		for _, k := range kids {
			f.kids = append(f.kids, o.observe("uses", k, where, dp))
		}
		f.b = f.kids[0].b // the unguarded first leaf of the grouping
		return f
	case "refine":
		t, _ := c11tWalk(where, dp, n.steps)
		if d, ok := t.(meta.Describable); ok {
			f.b = d.Description() == "R"
		}
		return f
	case "augment", "maugment":
		t, tdp := c11tWalk(where, dp, n.steps)
		for _, k := range kids {
			f.kids = append(f.kids, o.observe(n.kind, k, t, tdp))
		}
		f.b = f.kids[0].b // its unguarded first leaf
		return f
	}
	obj := c11tLookup(where, n.kind, n.name)
	f.b = obj != nil
	switch n.kind {
	case "leaf", "leaf-list", "anyxml", "container", "list", "choice":
		if obj == nil && dp != nil {
			if mm, ok := dp.(meta.Meta); ok && meta.Find(mm, n.name) != nil {
				o.ghosts = append(o.ghosts, n.name)
			}
		}
	}
	kdp := dp
	if obj == nil {
		if c11tIsHolderKind(n.kind) {
			kdp = nil
		}
	} else if c11tIsHolder(obj) {
		kdp = obj
	}
	for _, k := range kids {
		f.kids = append(f.kids, o.observe(n.kind, k, obj, kdp))
	}
	return f
}

func c11tIsHolderKind(kind string) bool { return kind != "choice" && kind != "case" }

func (m *c11tModule) featureSet() meta.FeatureSet {
	switch m.cfgKind {
	case "all-on":
		return meta.AllFeaturesOn()
	case "allow-list":
		return meta.FeaturesOn(append([]string{}, m.cfgList...))
	}
	return meta.FeaturesOff(append([]string{}, m.cfgList...))
}

// code 0 loaded, 1 error, 2 panic
func (m *c11tModule) observe() (code int, flags []*c11tFlag, ghosts []string, note string) {
	defer func() {
		if r := recover(); r != nil {
			code, flags, ghosts, note = 2, nil, nil, fmt.Sprintf("panic: %v", r)
		}
	}()
	mod, err := parser.LoadModuleFromStringWithOptions(nil, m.yang(), parser.Options{Features: m.featureSet()})
	if err != nil {
		return 1, nil, nil, err.Error()
	}
	o := &c11tObs{}
	for _, n := range c11tCanon("module", m.top) {
		flags = append(flags, o.observe("module", n, mod, mod))
	}
	return 0, flags, o.ghosts, ""
}

// statements that are off although the statement they are written in is there, by where they stand
func c11tOff(parent string, fs []*c11tFlag, up bool, hist map[string]int) {
	for _, f := range fs {
		kind := strings.SplitN(f.what, " ", 2)[0]
		if up && !f.b {
			hist["tree:off directly in "+parent]++
		}
		c11tOff(kind, f.kids, f.b, hist)
	}
}

func c11tCount(nodes []*c11tNode, under string, hist map[string]int) {
	for _, n := range nodes {
		hist[n.kind]++
		if len(n.ifs) > 0 {
			hist["guarded "+n.kind]++
			if under != "" {
				hist["guarded statement directly in "+under]++
			}
		}
		c11tCount(n.kids, n.kind, hist)
	}
}

func c11GuardTreeCases(ctx *core.Ctx, r *gen.Rng) {
	n := ctx.Scale(150, 3000)
	for i := 0; i < n; i++ {
		m := c11tGenerate(r)
		code, flags, ghosts, note := m.observe()
		cfg := emit.App("AllBut", c11TextList(m.cfgList))
		if m.cfgKind == "allow-list" {
			cfg = emit.App("OnlyOn", c11TextList(m.cfgList))
		}
		top := c11tCanon("module", m.top)
		ts := make([]string, len(top))
		for j, t := range top {
			ts[j] = t.term()
		}
		fs := make([]string, len(flags))
		var lines []string
		for j, f := range flags {
			fs[j] = f.term()
			f.lines("", &lines)
		}
		ctx.Add(emit.App("CGuardTree", cfg, c11TextList(m.declared), emit.List(ts), emit.Z(int64(code)), emit.Bool(len(ghosts) == 0), emit.List(fs)),
			map[string]interface{}{"kind": "guard-tree", "features_config": m.cfgKind, "list": m.cfgList, "yang": m.yang(),
				"observed_code": code, "observed": lines, "absent_but_found_by_name": ghosts, "note": note, "malformed": m.bad,
				"codes": "0 loaded / 1 load error / 2 panic"}, true)
		hist := map[string]int{}
		c11tCount(m.top, "", hist)
		for k, v := range hist {
			if v > 0 {
				ctx.Count("tree:modules with " + k)
			}
		}
		off := map[string]int{}
		c11tOff("module", flags, true, off)
		for k := range off {
			ctx.Count(k)
		}
		ctx.Count("tree:" + m.cfgKind)
		if m.bad != "" {
			ctx.Count("tree:with malformed expression")
		}
		ctx.Count(fmt.Sprintf("tree:code%d", code))
	}
}
