package props

// C14, reference streams (plain CLoad cases, spec oracle: module or error):
//  1. leafref paths with any number of leading ../ steps (fewer, exactly, more than the node has
//     ancestors), stated directly, through a typedef and through a grouping, below containers and
//     lists - the ../ branch of meta.Find is modelled in coq/theories/Load/FindUp.v;
//  2. repeated statements whose first argument is the empty string (default ""; default "b"; and
//     likewise every other statement that a node takes once) - the guard of Builder.Default is
//     modelled in coq/theories/Load/FindUp.v (builder_default);
//  3. module sets: a module with 2-3 submodules where several submodules and the module itself
//     import the same modules under the same or different prefixes and refer to their typedefs,
//     groupings and identities.

import (
	"fmt"
	"strings"

	"yvh/gen"
)

func c14UpText(d, ups, via int, target string, kinds []int, leafList bool) string {
	path := strings.Repeat("../", ups) + target
	lr := "type leafref { path \"" + path + "\"; }"
	kw := "leaf"
	if leafList {
		kw = "leaf-list"
	}
	var sb strings.Builder
	sb.WriteString("module m { namespace \"n\"; prefix p; leaf a0 { type string; } ")
	if via == 2 {
		sb.WriteString("grouping g { " + kw + " r { " + lr + " } } ")
	}
	for i := 1; i <= d; i++ {
		if kinds[i-1] == 1 {
			fmt.Fprintf(&sb, "list c%d { key a%d; leaf a%d { type string; } ", i, i, i)
		} else {
			fmt.Fprintf(&sb, "container c%d { leaf a%d { type string; } ", i, i)
		}
	}
	switch via {
	case 0:
		sb.WriteString(kw + " r { " + lr + " } ")
	case 1:
		sb.WriteString("typedef t { " + lr + " } " + kw + " r { type t; } ")
	case 2:
		sb.WriteString("uses g; ")
	case 3:
		sb.WriteString("grouping h { " + kw + " r { " + lr + " } } container w { uses h; } ")
	}
	sb.WriteString(strings.Repeat("} ", d) + "}")
	return sb.String()
}

var c14ViaNames = []string{"direct", "through a typedef", "through a grouping of the module", "through a local grouping used one container down"}

func c14UpPaths(rn *c14Runner, r *gen.Rng) {
	maxD := rn.ctx.Scale(3, 5)
	for d := 0; d <= maxD; d++ {
		for via := 0; via < 4; via++ {
			for ups := 0; ups <= d+5; ups++ {
				kinds := make([]int, d)
				for i := range kinds {
					kinds[i] = r.Intn(2)
				}
				// the leaf a<k> that exists where the path arrives (when it arrives somewhere)
				anc := d + 1
				if via == 3 {
					anc = d + 2
				}
				lvl := anc - ups
				if lvl < 0 || lvl > d {
					lvl = 0
				}
				target := fmt.Sprintf("a%d", lvl)
				if r.Chance(1, 4) {
					target = fmt.Sprintf("a%d", r.Intn(d+1))
				} else if r.Chance(1, 8) && d > 0 {
					target = fmt.Sprintf("c%d", 1+r.Intn(d))
				}
				text := c14UpText(d, ups, via, target, kinds, r.Chance(1, 5))
				rn.add("up-path", text, nil, true, fmt.Sprintf("leafref %s, %d container/list levels around it, %d leading ../ steps", c14ViaNames[via], d, ups))
				rn.ctx.Count(fmt.Sprintf("up-path:steps-minus-ancestors=%d", ups-anc))
			}
		}
	}
}

type c14Single struct {
	pre, post string
	kw        string
	valid     string
}

var c14Singles = []c14Single{
	{"leaf l { type string; ", "}", "default", "b"},
	{"leaf l { type string; ", "}", "units", "b"},
	{"leaf l { type string; ", "}", "description", "b"},
	{"leaf l { type string; ", "}", "reference", "b"},
	{"leaf l { type string; ", "}", "when", "b"},
	{"leaf l { type string; ", "}", "must", "b"},
	{"leaf l { type string; ", "}", "config", "true"},
	{"leaf l { type string; ", "}", "mandatory", "true"},
	{"leaf l { type string; ", "}", "status", "current"},
	{"feature f; leaf l { type string; ", "}", "if-feature", "f"},
	{"typedef t { type string; ", "} leaf l { type t; }", "default", "b"},
	{"typedef t { type string; ", "} leaf l { type t; }", "units", "b"},
	{"typedef t { type string; ", "} leaf l { type t; }", "description", "b"},
	{"choice c { ", "leaf b { type string; } }", "default", "b"},
	{"choice c { ", "leaf b { type string; } }", "description", "b"},
	{"choice c { ", "leaf b { type string; } }", "mandatory", "true"},
	{"leaf-list l { type string; ", "}", "default", "b"},
	{"leaf-list l { type string; ", "}", "units", "b"},
	{"leaf-list l { type string; ", "}", "min-elements", "1"},
	{"leaf-list l { type string; ", "}", "max-elements", "2"},
	{"leaf-list l { type string; ", "}", "ordered-by", "user"},
	{"container c { ", "}", "presence", "b"},
	{"container c { ", "}", "description", "b"},
	{"container c { ", "}", "config", "false"},
	{"list c { ", "leaf b { type string; } }", "key", "b"},
	{"list c { key b; ", "leaf b { type string; } }", "unique", "b"},
	{"list c { key b; ", "leaf b { type string; } }", "max-elements", "3"},
	{"", "", "namespace", "x"},
	{"", "", "prefix", "p"},
	{"", "", "contact", "b"},
	{"", "", "organization", "b"},
	{"", "", "description", "b"},
	{"", "", "reference", "b"},
	{"", "", "yang-version", "1.1"},
	{"", "", "revision", "2020-01-01"},
	{"revision 2020-01-01 { ", "}", "description", "b"},
	{"leaf l { type string { ", "} }", "pattern", "b"},
	{"leaf l { type string { ", "} }", "length", "1"},
	{"leaf l { type int32 { ", "} }", "range", "1"},
	{"leaf l { type decimal64 { ", "} }", "fraction-digits", "2"},
	{"leaf x { type string; } leaf l { type leafref { ", "} }", "path", "../x"},
	{"identity i; leaf l { type identityref { ", "} }", "base", "i"},
	{"leaf l { type enumeration { enum b { ", "} } }", "value", "1"},
	{"leaf l { type enumeration { enum b { ", "} } }", "description", "b"},
	{"leaf l { type enumeration { ", "} }", "enum", "b"},
	{"leaf l { type bits { bit b { ", "} } }", "position", "1"},
	{"leaf l { type string; must \"a\" { ", "} }", "error-message", "b"},
	{"leaf l { type string; must \"a\" { ", "} }", "error-app-tag", "b"},
	{"extension e { ", "}", "argument", "b"},
	{"extension e { ", "}", "description", "b"},
	{"anyxml a { ", "}", "description", "b"},
	{"anyxml a { ", "}", "mandatory", "true"},
	{"feature f { ", "}", "description", "b"},
	{"identity i; identity j { ", "}", "base", "i"},
	{"container c { } augment /c { ", "}", "description", "b"},
	{"container c { } augment /c { ", "}", "when", "b"},
	{"rpc r { ", "}", "description", "b"},
	{"notification n { ", "}", "description", "b"},
	{"grouping g { ", "leaf x { type string; } } uses g;", "description", "b"},
}

// c14Singletons: statement, statement again - with an empty first argument (double or single
// quotes), an empty second argument, and non-empty ones
func c14Singletons(rn *c14Runner, r *gen.Rng) {
	firsts := []string{"\"\"", "''", "\"a\"", ""}
	for _, s := range c14Singles {
		for _, f := range firsts {
			first := f
			if first == "" {
				first = s.valid // a valid first argument
			}
			var second string
			switch r.Intn(3) {
			case 0:
				second = "\"\""
			case 1:
				second = "\"b\""
			default:
				second = s.valid
			}
			stmts := fmt.Sprintf("%s %s; %s %s; ", s.kw, first, s.kw, second)
			if r.Chance(1, 6) {
				stmts += fmt.Sprintf("%s %s; ", s.kw, s.valid)
			}
			hdr := c14Hdr
			if s.pre == "" && (s.kw == "namespace" || s.kw == "prefix") {
				// the doubled header statement replaces the one of the usual header
				if s.kw == "namespace" {
					hdr = "module m { prefix p; "
				} else {
					hdr = "module m { namespace \"n\"; "
				}
			}
			text := hdr + s.pre + stmts + s.post + " }"
			rn.add("repeated-statement", text, nil, true, fmt.Sprintf("%s stated twice, first argument %s, second %s", s.kw, first, second))
			// the first argument alone (a single empty argument is legal or an error, never a crash)
			if f != "" && r.Chance(1, 3) {
				rn.add("repeated-statement", hdr+s.pre+fmt.Sprintf("%s %s; ", s.kw, first)+s.post+" }", nil, true, fmt.Sprintf("%s stated once with argument %s", s.kw, first))
			}
		}
	}
}

// c14SubImports: module m, submodules s0..s<n-1>, libraries l0, l1
func c14SubImports(rn *c14Runner, r *gen.Rng) {
	lib := func(k int) string {
		return fmt.Sprintf("module l%d { namespace \"urn:l%d\"; prefix l%d; typedef t { type string; } typedef u { type t { length \"1..9\"; } } "+
			"grouping g { leaf x { type t; } container y { leaf z { type u; } } } identity i; identity j { base i; } }", k, k, k)
	}
	prefixes := []string{"l", "q", "l0", "l1", "m"}
	n := rn.ctx.Scale(60, 400)
	for it := 0; it < n; it++ {
		nsub := 2 + r.Intn(2)
		files := map[string]c14File{"l0": {Kind: "text", Text: lib(0)}, "l1": {Kind: "text", Text: lib(1)}}
		samePrefix := r.Chance(1, 2)
		nlibs := 1 + r.Intn(2)
		broken := ""
		// body of one text (main module: who = -1)
		body := func(who int) string {
			var sb strings.Builder
			tag := "m"
			if who >= 0 {
				tag = fmt.Sprintf("s%d", who)
			}
			var used []string
			for l := 0; l < nlibs; l++ {
				if who >= 0 && it > 3 && r.Chance(1, 5) {
					continue // this text does not import that library
				}
				if who < 0 && r.Chance(1, 2) {
					continue
				}
				p := fmt.Sprintf("l%d", l)
				if !samePrefix {
					p = gen.Pick(r, prefixes) + fmt.Sprintf("x%d", l)
					if r.Chance(1, 3) {
						p = fmt.Sprintf("%s%d", tag, l)
					}
				}
				fmt.Fprintf(&sb, "import l%d { prefix %s; } ", l, p)
				used = append(used, p)
			}
			if who < 0 {
				for s := 0; s < nsub; s++ {
					fmt.Fprintf(&sb, "include s%d; ", s)
				}
			}
			for j, p := range used {
				kinds := r.Intn(7) + 1
				if it < 3 {
					kinds = 1 << uint(it)
				}
				if kinds&1 != 0 {
					fmt.Fprintf(&sb, "leaf %sa%d { type %s:t; } leaf %sb%d { type %s:u; } ", tag, j, p, tag, j, p)
				}
				if kinds&2 != 0 {
					fmt.Fprintf(&sb, "container %sk%d { uses %s:g; } ", tag, j, p)
				}
				if kinds&4 != 0 {
					fmt.Fprintf(&sb, "leaf %si%d { type identityref { base %s:i; } } ", tag, j, p)
				}
			}
			return sb.String()
		}
		main := "module m { namespace \"urn:m\"; prefix m; " + body(-1) + "}"
		for s := 0; s < nsub; s++ {
			b := body(s)
			if it > 5 && broken == "" && r.Chance(1, 12) {
				b += "leaf zz { type nope:t; } "
				broken = fmt.Sprintf("s%d refers to an undeclared prefix", s)
			}
			files[fmt.Sprintf("s%d", s)] = c14File{Kind: "text", Text: fmt.Sprintf("submodule s%d { belongs-to m { prefix m; } %s}", s, b)}
		}
		if it > 5 && broken == "" && r.Chance(1, 12) {
			delete(files, "l0")
			broken = "l0 is missing"
		}
		note := fmt.Sprintf("module with %d submodules, %d libraries, same prefix everywhere: %v", nsub, nlibs, samePrefix)
		if broken != "" {
			note += "; " + broken
		}
		rn.add("submodule-imports", main, files, false, note)
	}
}
