package props

import (
	"fmt"

	"github.com/freeconf/yang/meta"
	"github.com/freeconf/yang/node"
	"github.com/freeconf/yang/nodeutil"
	"github.com/freeconf/yang/val"

	"yvh/core"
	"yvh/emit"
	"yvh/gen"
	"yvh/tree"
)

func init() { Registry["C18"] = C18 }

// goMap converts reference-store content into the generic Go maps/slices the reflection nodes edit
func goMap(s *tree.SNode, c *tree.Cont) map[string]interface{} {
	m := map[string]interface{}{}
	for _, kid := range s.Kids {
		switch kid.Kind {
		case tree.KLeaf:
			if v, ok := c.Leaves[kid.Name]; ok {
				m[kid.Name] = v.Value()
			}
		case tree.KCont:
			if sub, ok := c.Conts[kid.Name]; ok {
				m[kid.Name] = goMap(kid, sub)
			}
		case tree.KList:
			if l, ok := c.Lists[kid.Name]; ok {
				rows := make([]map[string]interface{}, len(l.Rows))
				for i, r := range l.Rows {
					rows[i] = goMap(kid, r)
				}
				m[kid.Name] = rows
			}
		}
	}
	return m
}

var c18Kinds = []string{"reference store", "nodeutil.Reflect over maps/slices", "nodeutil.Reflect over Go structs (slices of struct values and pointers)", "nodeutil.Node over Go structs"}

type c18Target struct {
	kind    int
	m       *meta.Module
	root    *tree.SNode
	b       *node.Browser
	struct_ bool // struct-backed: zero-valued leaves stand for unset
}

func newC18Target(kind int, m *meta.Module, root *tree.SNode, init *tree.Cont) *c18Target {
	t := &c18Target{kind: kind, m: m, root: root}
	switch kind {
	case 0:
		t.b = node.NewBrowser(m, init.Clone().Node(root, nil, ""))
	case 1:
		t.b = node.NewBrowser(m, nodeutil.ReflectChild(goMap(root, init)))
	default:
		t.b = node.NewBrowser(m, &nodeutil.Node{Object: goMap(root, init)})
	}
	return t
}

// export reads the whole target through the library into a fresh reference store
func (t *c18Target) export() (c *tree.Cont, err error) {
	defer func() {
		if r := recover(); r != nil {
			c, err = nil, fmt.Errorf("panic during export: %v", r)
		}
	}()
	c = tree.NewCont()
	err = t.b.Root().UpsertInto(c.Node(t.root, nil, ""))
	// struct-backed targets are exported RAW (zero-valued fields read back as leaves); the
	// comparison with the model is made modulo zero-valued NON-KEY leaves inside Coq (Tree/DeleteDup.v znorm)
	return
}

func keyTermOf(s *tree.SNode, row *tree.Cont) string {
	items := make([]string, len(s.Keys))
	for i, k := range s.Keys {
		v := row.Leaves[s.Kids[k].Name]
		if v == nil {
			items[i] = "None"
		} else {
			items[i] = emit.Some(emit.App("DLeaf", tree.ValTerm(v)))
		}
	}
	return emit.List(items)
}

func guard(f func() error) (err error, panicked string) {
	defer func() {
		if r := recover(); r != nil {
			panicked = fmt.Sprintf("%v", r)
		}
	}()
	return f(), ""
}

// C18: histories of upsert / delete / replace / insert addressed through list keys, on three
// target implementations.
func C18(ctx *core.Ctx) error {
	ctx.Imports = "Val.Model Tree.Schema Tree.Editor Tree.Delete Check.C18Check"
	ctx.Rule = "history = choice-free schema (leaf types int32/string/boolean, keys string/int32, single key) x initial tree x 1..8 operations (UpsertFrom at root; Delete of a present container, whole list or list entry by key; ReplaceFrom of a container or of a list entry; InsertFrom of rows at a list, sometimes with an existing key) on each of 2 target implementations (reference store; nodeutil.Reflect over Go maps and slices, whose lists created at run time are Go maps: rows compared as multisets); after every operation the store is exported through a capturing node and Find is issued for the removed key and for every remaining entry; one case per step; non-trivial = the step's target held data"
	r := gen.New(ctx.Seed)
	opts := tree.GenOpts{MaxDepth: 2, MaxKids: 4, Lists: true, Defaults: true, SingleKey: true, KeyTypes: []string{"string", "int32"},
		Types: []string{"int32", "string", "boolean"}}
	nh := ctx.Scale(16, 400)
	for n := 0; n < nh; n++ {
		yang, m, root, err := tree.GenSchema(r.Fork(uint64(n)), opts)
		if err != nil {
			return fmt.Errorf("schema: %v", err)
		}
		dr := r.Fork(uint64(700 + n))
		universe := tree.GenData(dr, root, 85, 3)
		init := tree.Subsample(dr, root, universe, 80, 20)
		c18DropLists(dr, root, init)
		steps := 1 + dr.Intn(8)
		// one stream of operation choices per history, replayed identically on every target kind
		seed := dr.U64()
		for kind := 0; kind < 2; kind++ { // nodeutil.Node over untyped maps is not covered (DESIGN.md C18)
			or := gen.New(seed)
			t := newC18Target(kind, m, root, init)
			for st := 0; st < steps; st++ {
				before, err := t.export()
				if err != nil {
					ctx.Count("export-failed:" + c18Kinds[kind])
					break
				}
				if !c18Step(ctx, or, t, yang, universe, before) {
					break
				}
			}
		}
	}
	return c18StructHistories(ctx, r.Fork(9090), ctx.Scale(14, 300))
}

// c18Step picks and runs one operation; returns false when the history cannot continue
func c18Step(ctx *core.Ctx, r *gen.Rng, t *c18Target, yang string, universe, before *tree.Cont) bool {
	root := t.root
	type cand struct {
		name string
		idx  int
		kid  *tree.SNode
	}
	var conts, lists, rowLists []cand
	for i, kid := range root.Kids {
		switch kid.Kind {
		case tree.KCont:
			if before.Conts[kid.Name] != nil {
				conts = append(conts, cand{kid.Name, i, kid})
			}
		case tree.KList:
			if l := before.Lists[kid.Name]; l != nil {
				lists = append(lists, cand{kid.Name, i, kid})
				if len(l.Rows) > 0 {
					rowLists = append(rowLists, cand{kid.Name, i, kid})
				}
			}
		}
	}
	opName := gen.Pick(r, []string{"upsert", "upsert", "delete-kid", "delete-row", "delete-row", "delete-walk", "delete-walk", "replace-kid", "replace-row", "insert-rows", "insert-rows"})
	fix := func(s *tree.SNode, c *tree.Cont) {
		if t.struct_ {
			c18ZeroBias(r, s, c)
			dedupRows(s, c)
		}
	}
	var opTerm, opDesc string
	var run func() error
	removedPath := ""
	switch {
	case opName == "delete-kid" && len(conts)+len(lists) > 0:
		c := gen.Pick(r, append(append([]cand{}, conts...), lists...))
		opTerm, opDesc = emit.App("OpDeleteKid", emit.Nat(c.idx)), "Find("+c.name+").Delete()"
		removedPath = c.name
		run = func() error {
			sel, err := t.b.Root().Find(c.name)
			if err != nil || sel == nil {
				return fmt.Errorf("harness: cannot find %s: %v", c.name, err)
			}
			return sel.Delete()
		}
	case opName == "delete-walk" && len(rowLists) > 0:
		// walk the list with First()/Next(), collect some entries, then Delete() each of them: every
		// delete goes through the SAME list node (the pattern a caller pruning a list uses)
		c := gen.Pick(r, rowLists)
		rows := before.Lists[c.name].Rows
		pick := map[int]bool{}
		for i := range rows {
			if r.Chance(1, 2) {
				pick[i] = true
			}
		}
		if len(pick) == 0 {
			pick[0] = true
		}
		var keyTerms []string
		var keyDescs []string
		for i, row := range rows {
			if pick[i] {
				keyTerms = append(keyTerms, keyTermOf(c.kid, row))
				keyDescs = append(keyDescs, row.Desc(c.kid))
			}
		}
		opTerm = emit.App("OpDeleteRows", emit.Nat(c.idx), emit.List(keyTerms))
		opDesc = fmt.Sprintf("walk %s with First/Next, then Delete() entries %v", c.name, keyDescs)
		run = func() error {
			sel, err := t.b.Root().Find(c.name)
			if err != nil || sel == nil {
				return fmt.Errorf("harness: cannot find %s: %v", c.name, err)
			}
			var doomed []*node.Selection
			item, err := sel.First()
			for i := 0; err == nil && item.Selection != nil; i++ {
				if pick[i] {
					doomed = append(doomed, item.Selection)
				}
				item, err = item.Next()
			}
			if err != nil {
				return err
			}
			for _, d := range doomed {
				if err := d.Delete(); err != nil {
					return err
				}
			}
			return nil
		}
	case (opName == "delete-row" || opName == "replace-row") && len(rowLists) > 0:
		c := gen.Pick(r, rowLists)
		row := gen.Pick(r, before.Lists[c.name].Rows)
		kp, ok := keyPath(c.kid, row)
		if !ok {
			return true
		}
		path := c.name + "=" + kp
		if opName == "delete-row" {
			opTerm, opDesc = emit.App("OpDeleteRow", emit.Nat(c.idx), keyTermOf(c.kid, row)), "Find("+path+").Delete()"
			removedPath = path
			run = func() error {
				sel, err := t.b.Root().Find(path)
				if err != nil || sel == nil {
					return fmt.Errorf("harness: cannot find %s: %v", path, err)
				}
				return sel.Delete()
			}
		} else {
			nrow := tree.GenData(r, c.kid, 70, 2)
			fix(c.kid, nrow)
			for _, k := range c.kid.Keys {
				nrow.Leaves[c.kid.Kids[k].Name] = row.Leaves[c.kid.Kids[k].Name]
			}
			opTerm = emit.App("OpReplaceRow", emit.Nat(c.idx), keyTermOf(c.kid, row), emit.App("DCont", nrow.ContentTerm(c.kid)))
			opDesc = "Find(" + path + ").ReplaceFrom(" + nrow.Desc(c.kid) + ")"
			run = func() error {
				sel, err := t.b.Root().Find(path)
				if err != nil || sel == nil {
					return fmt.Errorf("harness: cannot find %s: %v", path, err)
				}
				return sel.ReplaceFrom((&tree.List{Rows: []*tree.Cont{nrow}}).Node(c.kid, nil, "/"+c.name))
			}
		}
	case opName == "replace-kid" && len(conts) > 0:
		c := gen.Pick(r, conts)
		src := tree.NewCont()
		src.Conts[c.name] = tree.GenData(r, c.kid, 70, 2)
		fix(c.kid, src.Conts[c.name])
		opTerm, opDesc = emit.App("OpReplaceKid", emit.Nat(c.idx), src.ContentTerm(root)), "Find("+c.name+").ReplaceFrom("+src.Desc(root)+")"
		run = func() error {
			sel, err := t.b.Root().Find(c.name)
			if err != nil || sel == nil {
				return fmt.Errorf("harness: cannot find %s: %v", c.name, err)
			}
			return sel.ReplaceFrom(src.Node(root, nil, ""))
		}
	case opName == "insert-rows" && len(lists) > 0:
		c := gen.Pick(r, lists)
		nl := &tree.List{}
		seen := map[string]bool{}
		repeat := r.Chance(1, 5) // one payload naming the same key twice: must conflict
		for i := 1 + r.Intn(2); i > 0; i-- {
			nrow := tree.GenData(r, c.kid, 70, 2)
			if repeat && len(nl.Rows) > 0 {
				for _, k := range c.kid.Keys {
					nrow.Leaves[c.kid.Kids[k].Name] = nl.Rows[0].Leaves[c.kid.Kids[k].Name]
				}
				if t.struct_ {
					c18ZeroBiasNonKey(r, c.kid, nrow)
				}
				nl.Rows = append(nl.Rows, nrow)
				ctx.Count("insert payload naming one key twice")
				continue
			}
			if ex := before.Lists[c.name].Rows; len(ex) > 0 && r.Chance(1, 4) {
				for _, k := range c.kid.Keys { // an existing key: must conflict
					nrow.Leaves[c.kid.Kids[k].Name] = ex[0].Leaves[c.kid.Kids[k].Name]
				}
			} else {
				for _, k := range c.kid.Keys {
					nrow.Leaves[c.kid.Kids[k].Name] = tree.GenValue(r, c.kid.Kids[k].Leafable())
				}
			}
			if t.struct_ {
				c18ZeroBias(r, c.kid, nrow)
			}
			id := ""
			for _, k := range c.kid.Keys {
				id += nrow.Leaves[c.kid.Kids[k].Name].String() + "\x00"
			}
			if !seen[id] {
				seen[id] = true
				nl.Rows = append(nl.Rows, nrow)
			}
		}
		opTerm, opDesc = emit.App("OpInsertRows", emit.Nat(c.idx), listRowsTerm(c.kid, nl)), "Find("+c.name+").InsertFrom("+listDesc(c.kid, nl)+")"
		run = func() error {
			sel, err := t.b.Root().Find(c.name)
			if err != nil || sel == nil {
				return fmt.Errorf("harness: cannot find %s: %v", c.name, err)
			}
			return sel.InsertFrom(nl.Node(c.kid, nil, "/"+c.name))
		}
	default:
		opName = "upsert"
		src := tree.Subsample(r, root, universe, 50, 40)
		if r.Chance(1, 2) {
			// overlay: existing entries addressed sparsely, new entries, in an order of its own
			src = tree.GenDataAgainst(r, root, 40+r.Intn(40), 2, before)
		}
		fix(root, src)
		if c18InjectDups(r, root, src, t.struct_) {
			ctx.Count("upsert payload naming one key twice")
			for _, kid := range root.Kids {
				if kid.Kind == tree.KList && src.Lists[kid.Name] != nil && before.Lists[kid.Name] == nil && c18HasDupKey(kid, src.Lists[kid.Name]) {
					ctx.Count("upsert payload naming one key twice, target list absent")
				}
			}
		}
		opTerm, opDesc = emit.App("OpUpsert", src.ContentTerm(root)), "root.UpsertFrom("+src.Desc(root)+")"
		run = func() error { return t.b.Root().UpsertFrom(src.Node(root, nil, "")) }
	}
	callErr, panicked := guard(run)
	var obs, obsDesc string
	cont := true
	switch {
	case panicked != "":
		obs, obsDesc, cont = "ObsPanic", "panic: "+panicked, false
	case callErr != nil:
		obs, obsDesc, cont = emit.App("ObsErr", errClass(callErr)), errClass(callErr)+": "+callErr.Error(), false
	default:
		after, err := t.export()
		if err != nil {
			obs, obsDesc, cont = "ObsPanic", err.Error(), false
			break
		}
		still := false
		if removedPath != "" {
			_, p := guard(func() error {
				sel, err := t.b.Root().Find(removedPath)
				still = err == nil && sel != nil
				return nil
			})
			if p != "" {
				still = true
			}
		}
		allFound := true
		for _, kid := range root.Kids {
			if kid.Kind != tree.KList || after.Lists[kid.Name] == nil {
				continue
			}
			for _, row := range after.Lists[kid.Name].Rows {
				kp, ok := keyPath(kid, row)
				if !ok {
					continue
				}
				_, p := guard(func() error {
					sel, err := t.b.Root().Find(kid.Name + "=" + kp)
					if err != nil || sel == nil {
						allFound = false
						return nil
					}
					for i, k := range kid.Keys {
						if i >= len(sel.Key()) || !val.Equal(sel.Key()[i], row.Leaves[kid.Kids[k].Name]) {
							allFound = false
						}
					}
					return nil
				})
				if p != "" {
					allFound = false
				}
			}
		}
		obs = emit.App("ObsOk", after.ContentTerm(root), emit.Bool(still), emit.Bool(allFound))
		obsDesc = fmt.Sprintf("%s removed_still_found=%v every_entry_found=%v", after.Desc(root), still, allFound)
	}
	ctx.Add(emit.App("CStep", emit.Nat(t.kind), root.KidsTerm(), before.ContentTerm(root), opTerm, obs),
		map[string]interface{}{"yang": yang, "target": c18Kinds[t.kind], "before": before.Desc(root), "op": opDesc, "observed": obsDesc}, before.Size() > 0)
	ctx.Count("op:" + opName)
	ctx.Count("target:" + c18Kinds[t.kind])
	return cont
}
