package props

import (
	"errors"
	"fmt"
	"net/url"
	"strings"

	"github.com/freeconf/yang/fc"
	"github.com/freeconf/yang/meta"
	"github.com/freeconf/yang/node"
	"github.com/freeconf/yang/nodeutil"

	"yvh/core"
	"yvh/emit"
	"yvh/gen"
	"yvh/tree"
)

func init() { Registry["C03"] = C03 }

var strategyNames = []string{"Upsert", "Insert", "Update"}

// altSource: when set (C03 only) a third of the XFrom calls read the source through the library's
// JSON reader (nodeutil.ReadJSON of the same content) instead of the reference store
var altSource *gen.Rng

// caseWrap: when set (C09) the CEdit / CEditList terms are wrapped in this constructor of the
// property's own case type (Check/C09Check.v: CHist)
var caseWrap string

func errClass(err error) string {
	switch {
	case errors.Is(err, fc.ConflictError):
		return "EConflict"
	case errors.Is(err, fc.NotFoundError):
		return "ENotFound"
	}
	return "EOther"
}

// applyEdit runs one edit call; from=true: target.XFrom(sourceNode), else source.XInto(targetNode)
func applyEdit(st int, fromDir bool, srcSel, tgtSel *node.Selection, srcNode, tgtNode node.Node) (err error, panicked string) {
	defer func() {
		if r := recover(); r != nil {
			panicked = fmt.Sprintf("%v", r)
		}
	}()
	if fromDir {
		switch st {
		case 0:
			err = tgtSel.UpsertFrom(srcNode)
		case 1:
			err = tgtSel.InsertFrom(srcNode)
		default:
			err = tgtSel.UpdateFrom(srcNode)
		}
	} else {
		switch st {
		case 0:
			err = srcSel.UpsertInto(tgtNode)
		case 1:
			err = srcSel.InsertInto(tgtNode)
		default:
			err = srcSel.UpdateInto(tgtNode)
		}
	}
	return
}

// entry describes where in the tree the edit is applied
type entry struct {
	kind string // root | container | row | list
	path string
	s    *tree.SNode
	src  *tree.Cont // content at the entry (container-like) or holder of the list
	tgt  *tree.Cont
}

func keyPath(s *tree.SNode, row *tree.Cont) (string, bool) {
	parts := make([]string, len(s.Keys))
	for i, k := range s.Keys {
		v, ok := row.Leaves[s.Kids[k].Name]
		if !ok {
			return "", false
		}
		parts[i] = url.PathEscape(v.String())
		if strings.ContainsAny(v.String(), "/,=%+ ?#&") || v.String() == "" {
			return "", false
		}
	}
	return strings.Join(parts, ","), true
}

// pickEntry walks down from the root choosing a random existing position present in both trees
func pickEntry(r *gen.Rng, root *tree.SNode, src, tgt *tree.Cont) entry {
	e := entry{kind: "root", s: root, src: src, tgt: tgt}
	if r.Chance(1, 2) {
		return e
	}
	cur := e
	for depth := 0; depth < 3; depth++ {
		var opts []entry
		for _, kid := range cur.s.Kids {
			if len(kid.Guard) > 1 {
				continue // nodes under a nested choice are not reachable by Find (recorded under C08)
			}
			switch kid.Kind {
			case tree.KCont:
				t, ok := cur.tgt.Conts[kid.Name]
				if !ok {
					continue
				}
				s := cur.src.Conts[kid.Name]
				if s == nil {
					s = tree.NewCont()
				}
				opts = append(opts, entry{kind: "container", path: join(cur.path, kid.Name), s: kid, src: s, tgt: t})
			case tree.KList:
				tl, ok := cur.tgt.Lists[kid.Name]
				if !ok {
					continue
				}
				if _, ok := cur.src.Lists[kid.Name]; ok {
					opts = append(opts, entry{kind: "list", path: join(cur.path, kid.Name), s: kid, src: cur.src, tgt: cur.tgt})
				}
				for _, trow := range tl.Rows {
					kp, ok := keyPath(kid, trow)
					if !ok {
						continue
					}
					// the source content for a row entry: the source row with the same key if any, else a fresh one
					srow := tree.NewCont()
					if sl, ok := cur.src.Lists[kid.Name]; ok {
						for _, cand := range sl.Rows {
							if ckp, ok := keyPath(kid, cand); ok && ckp == kp {
								srow = cand
							}
						}
					}
					opts = append(opts, entry{kind: "row", path: join(cur.path, kid.Name+"="+kp), s: kid, src: srow, tgt: trow})
				}
			}
		}
		if len(opts) == 0 {
			break
		}
		cur = gen.Pick(r, opts)
		if cur.kind == "list" || r.Chance(1, 2) {
			break
		}
	}
	return cur
}

func join(a, b string) string {
	if a == "" {
		return b
	}
	return a + "/" + b
}

// editScenarios is shared by C03 (choice-free schemas) and C09 (schemas with choices)
func editScenarios(ctx *core.Ctx, r *gen.Rng, count int, opts tree.GenOpts, strategies []int) error {
	for n := 0; n < count; n++ {
		yang, m, root, err := tree.GenSchema(r.Fork(uint64(n)), opts)
		if err != nil {
			return fmt.Errorf("generated schema does not load: %v\n%s", err, yang)
		}
		dr := r.Fork(uint64(1000 + n))
		universe := tree.GenData(dr, root, 75, 3)
		for k := 0; k < 3; k++ {
			src := tree.Subsample(dr, root, universe, 30+dr.Intn(70), 30)
			tgt := tree.Subsample(dr, root, universe, dr.Intn(100), 30)
			if k > 0 {
				// overlay: the source addresses existing entries (sparsely) and new ones, in its own order
				tgt = tree.Subsample(dr, root, universe, 60+dr.Intn(40), 20)
				src = tree.GenDataAgainst(dr, root, 35+dr.Intn(40), 2, tgt)
			}
			if dr.Chance(1, 8) {
				tgt = tree.NewCont()
			}
			if dr.Chance(1, 10) {
				src = tree.NewCont()
			}
			st := gen.Pick(dr, strategies)
			fromDir := dr.Bool()
			e := pickEntry(dr, root, src, tgt)
			if err := runEdit(ctx, m, root, yang, src, tgt, e, st, fromDir); err != nil {
				return err
			}
		}
	}
	return nil
}

func runEdit(ctx *core.Ctx, m *meta.Module, root *tree.SNode, yang string, src, tgt *tree.Cont, e entry, st int, fromDir bool) error {
	srcB := node.NewBrowser(m, src.Node(root, nil, ""))
	tgtB := node.NewBrowser(m, tgt.Node(root, nil, ""))
	srcSel, tgtSel := srcB.Root(), tgtB.Root()
	var err error
	if e.kind != "root" {
		if tgtSel, err = tgtB.Root().Find(e.path); err != nil || tgtSel == nil {
			return fmt.Errorf("c03: cannot find target entry %q: %v", e.path, err)
		}
		if !fromDir {
			if srcSel, err = srcB.Root().Find(e.path); err != nil {
				return fmt.Errorf("c03: cannot find source entry %q: %v", e.path, err)
			}
			if srcSel == nil {
				fromDir = true // the source has nothing there: only the From direction is possible
			}
		}
	}
	var srcTerm, tgtTerm, srcDesc, tgtDesc string
	var srcNode, tgtNode node.Node
	srcKind := "reference store"
	switch e.kind {
	case "list":
		srcTerm = emit.App("DList", listRowsTerm(e.s, e.src.Lists[e.s.Name]))
		tgtTerm = emit.App("DList", listRowsTerm(e.s, e.tgt.Lists[e.s.Name]))
		srcNode = e.src.Lists[e.s.Name].Node(e.s, nil, e.path)
		tgtNode = e.tgt.Lists[e.s.Name].Node(e.s, nil, e.path)
		srcDesc, tgtDesc = listDesc(e.s, e.src.Lists[e.s.Name]), listDesc(e.s, e.tgt.Lists[e.s.Name])
	default:
		srcTerm, tgtTerm = e.src.ContentTerm(e.s), e.tgt.ContentTerm(e.s)
		srcNode, tgtNode = e.src.Node(e.s, nil, e.path), e.tgt.Node(e.s, nil, e.path)
		srcDesc, tgtDesc = e.src.Desc(e.s), e.tgt.Desc(e.s)
		if altSource != nil && fromDir && altSource.Chance(1, 3) {
			js := e.src.JSON(e.s)
			if n, jerr := nodeutil.ReadJSON(js); jerr == nil {
				srcNode = n
				srcKind = "nodeutil.ReadJSON"
			}
		}
	}
	callErr, panicked := applyEdit(st, fromDir, srcSel, tgtSel, srcNode, tgtNode)
	obs := ""
	obsDesc := ""
	switch {
	case panicked != "":
		obs, obsDesc = "ObsPanic", "panic: "+panicked
	case callErr != nil:
		obs, obsDesc = emit.App("ObsErr", errClass(callErr)), errClass(callErr)+": "+callErr.Error()
	case e.kind == "list":
		rows := e.tgt.Lists[e.s.Name]
		items := make([]string, len(rows.Rows))
		for i, row := range rows.Rows {
			items[i] = emit.Some(emit.App("DCont", row.ContentTerm(e.s)))
		}
		obs, obsDesc = emit.App("ObsOk", emit.List(items)), listDesc(e.s, rows)
	default:
		obs, obsDesc = emit.App("ObsOk", e.tgt.ContentTerm(e.s)), e.tgt.Desc(e.s)
	}
	dir := "Into"
	if fromDir {
		dir = "From"
	}
	desc := map[string]interface{}{"yang": yang, "entry": e.kind, "path": e.path, "call": strategyNames[st] + dir,
		"source": srcDesc, "source_node": srcKind, "target_before": tgtDesc, "observed": obsDesc}
	var term string
	if e.kind == "list" {
		term = emit.App("CEditList", e.s.Term(), strategyNames[st], srcTerm, tgtTerm, obs)
	} else {
		term = emit.App("CEdit", e.s.KidsTerm(), strategyNames[st], srcTerm, tgtTerm, obs)
	}
	if caseWrap != "" {
		term = emit.App(caseWrap, term)
	}
	ctx.Add(term, desc, e.src.Size() > 0)
	ctx.Count("entry:" + e.kind)
	ctx.Count("source:" + srcKind)
	ctx.Count("call:" + strategyNames[st] + dir)
	if callErr != nil {
		ctx.Count("result:" + errClass(callErr))
	} else if panicked != "" {
		ctx.Count("result:panic")
	} else {
		ctx.Count("result:ok")
	}
	return nil
}

func listRowsTerm(s *tree.SNode, l *tree.List) string {
	items := make([]string, len(l.Rows))
	for i, row := range l.Rows {
		items[i] = emit.App("DCont", row.ContentTerm(s))
	}
	return emit.List(items)
}

func listDesc(s *tree.SNode, l *tree.List) string {
	parts := make([]string, len(l.Rows))
	for i, row := range l.Rows {
		parts[i] = row.Desc(s)
	}
	return "[" + strings.Join(parts, ",") + "]"
}

// C03: upsert / insert / update as keyed deep merges, on choice-free schemas.
func C03(ctx *core.Ctx) error {
	ctx.Imports = "Val.Model Tree.Schema Tree.Editor Check.C03Check"
	ctx.Rule = "scenario = generated choice-free schema (containers, lists with 1-2 keys of 6 key types, leaves of 12 types, leaf-lists, defaults) x source/target sub-sampled from one universe tree (overlapping keys, empty trees) x strategy x From/Into x entry point (root, container, list, list entry); distinct by SHA-256 of the case term; non-trivial = the source holds data"
	r := gen.New(ctx.Seed)
	opts := tree.GenOpts{MaxDepth: 3, MaxKids: 4, Lists: true, Defaults: true, LeafLists: true}
	altSource = r.Fork(77)
	defer func() { altSource = nil }()
	if err := editScenarios(ctx, r, ctx.Scale(45, 1200), opts, []int{0, 0, 1, 2}); err != nil {
		return err
	}
	// list-centred stream: small schemas, many rows, sources that address existing entries sparsely
	// and new entries in an order of their own
	lopts := tree.GenOpts{MaxDepth: 2, MaxKids: 3, Lists: true, Defaults: true, ListHeavy: true, Types: []string{"int32", "string", "boolean", "uint8"}}
	lr := r.Fork(4242)
	for n := 0; n < ctx.Scale(40, 800); n++ {
		yang, m, root, err := tree.GenSchema(lr.Fork(uint64(n)), lopts)
		if err != nil {
			return fmt.Errorf("generated schema does not load: %v\n%s", err, yang)
		}
		dr := lr.Fork(uint64(3000 + n))
		for k := 0; k < 2; k++ {
			tgt := tree.GenData(dr, root, 85, 4)
			src := tree.GenDataAgainst(dr, root, 30+dr.Intn(50), 3, tgt)
			st := gen.Pick(dr, []int{0, 0, 0, 2})
			e := pickEntry(dr, root, src, tgt)
			if err := runEdit(ctx, m, root, yang, src, tgt, e, st, dr.Bool()); err != nil {
				return err
			}
			ctx.Count("stream:list-overlay")
		}
	}
	return nil
}

func init() { Registry["C09"] = C09 }

// C09: at most one case of a choice holds data - schemas with choices (several per container,
// nested in cases, inside lists), histories of upserts alternating between cases.
func C09(ctx *core.Ctx) error {
	ctx.Imports = "Val.Model Tree.Schema Tree.Editor Tree.ReflectChoose Check.C03Check Check.C09Check"
	caseWrap = "CHist"
	defer func() { caseWrap = "" }()
	ctx.Rule = "history = generated schema with choices (several per container, nested in cases, inside lists, cases holding leaves, containers and lists) x 1..6 successive upserts (From/Into, root/container/list-entry entry points) of independently generated conforming sources into one target; each step is one case (target before, source, observed target after); PLUS stream list-switch: schemas in which a list holds a choice in its entries, targets with 2..4 entries, ONE upsert whose source addresses most entries by key and moves them to the same other case; PLUS stream node-target: upsert histories (2..5 steps, From/Into at the root) on nodeutil.Node over Go maps (string-keyed lists, leaf types int32/int64/uint8/string/boolean/decimal64, leaf-lists, defaults), values biased to the zero value of their type (false, 0, \"\"), observed twice per step: what the maps hold (no library call) and what a read through the target's own Choose reports; PLUS stream reflect-target: upsert histories (3..5 steps, From/Into at the root) on the Reflect map node (nodeutil.ReflectChild over Go maps) on schemas built around choices nested in cases (a case = data definitions and nested choices in any order, up to three levels, explicit and shorthand cases, case names not in declaration order, the same inside containers and list entries), each step either staying on the selected cases (filling them further, switching nested cases) or moving to other cases, observed three times per step: what the maps hold, what a read reports, what Choose answers for every choice of the root container; distinct by SHA-256; non-trivial = source holds data"
	r := gen.New(ctx.Seed)
	opts := tree.GenOpts{MaxDepth: 2, MaxKids: 3, Lists: true, Defaults: true, LeafLists: true, Choices: true, ChoiceHeavy: true}
	count := ctx.Scale(50, 1200)
	for n := 0; n < count; n++ {
		yang, m, root, err := tree.GenSchema(r.Fork(uint64(n)), opts)
		if err != nil {
			return fmt.Errorf("generated schema does not load: %v\n%s", err, yang)
		}
		dr := r.Fork(uint64(5000 + n))
		tgt := tree.GenData(dr, root, 60, 2)
		steps := 1 + dr.Intn(6)
		for k := 0; k < steps; k++ {
			src := tree.GenDataAgainst(dr, root, 40+dr.Intn(55), 2, tgt)
			e := pickEntry(dr, root, src, tgt)
			if e.kind == "list" {
				e = entry{kind: "root", s: root, src: src, tgt: tgt}
			}
			before := map[string]int{}
			tgt.ChosenCases(root, "", before)
			if err := runEdit(ctx, m, root, yang, src, tgt, e, 0, dr.Bool()); err != nil {
				return err
			}
			after := map[string]int{}
			tgt.ChosenCases(root, "", after)
			switched := false
			for k, v := range before {
				if w, ok := after[k]; ok && w != v {
					switched = true
				}
			}
			if switched {
				ctx.Count("step:switches-a-case")
			} else {
				ctx.Count("step:no-switch")
			}
		}
	}
	if err := c09ListSwitch(ctx, r.Fork(909), ctx.Scale(14, 400)); err != nil {
		return err
	}
	if err := c09NodeTargets(ctx, r.Fork(910), ctx.Scale(16, 400)); err != nil {
		return err
	}
	return c09ReflectTargets(ctx, r.Fork(911), ctx.Scale(14, 400))
}
