package props

import (
	"fmt"
	"io"
	"strings"

	"github.com/freeconf/yang/parser"

	"yvh/core"
	"yvh/emit"
	"yvh/gen"
)

func init() { Registry["C01"] = C01 }

// ---------- generator ----------

type c01Region struct{ used map[*c01Stmt]bool } // groupings expanded into one flattened sibling scope

func newC01Region() *c01Region { return &c01Region{used: map[*c01Stmt]bool{}} }

type c01Gen struct {
	r       *gen.Rng
	ms      *c01Modset
	nn, gn  int
	closure map[*c01Stmt]map[*c01Stmt]bool
	rich    bool
	// groupings whose expansion puts an rpc/action or a notification into the using parent (own
	// top-level operations or a top-level uses of such a grouping): only used where the parent
	// may hold operations (module, container, list, another grouping's top level)
	bears map[*c01Stmt]bool
	// > 0 while the members of an input/output/notification are generated: no operation and no
	// operation-bearing uses in there (RFC 7950 7.15, 7.16)
	inOp int
	// names of the scoped groupings whose scope generation is currently inside: a scoped grouping
	// never takes the name of a grouping of an enclosing scope (RFC 7950 5.5: no shadowing), but
	// groupings in DISJOINT scopes of one module freely share names
	encl []string
}

func (g *c01Gen) node() string  { g.nn++; return fmt.Sprintf("n%d", g.nn) }
func (g *c01Gen) group() string { g.gn++; return fmt.Sprintf("g%d", g.gn) }

// name of a scoped (nested or sibling-scoped) grouping: from a pool of three per module set, so
// that disjoint scopes regularly define different groupings under one name. Module-level
// groupings are g<n>, extracted/renamed ones gx<n>: no scoped name shadows one of them.
func (g *c01Gen) scopedName() string {
	var free []string
	for _, n := range []string{"s1", "s2", "s3"} {
		taken := false
		for _, e := range g.encl {
			if e == n {
				taken = true
			}
		}
		if !taken {
			free = append(free, n)
		}
	}
	if len(free) == 0 {
		return g.group()
	}
	return gen.Pick(g.r, free)
}

func (g *c01Gen) push(n string) { g.encl = append(g.encl, n) }
func (g *c01Gen) pop()          { g.encl = g.encl[:len(g.encl)-1] }

var c01Exprs = []string{"a > 1", "b = 'x'", "../c != 0", "count(d) < 3", "e", "not(f)"}

func (g *c01Gen) expr() *string { s := gen.Pick(g.r, c01Exprs); return &s }

func c01B(b bool) *bool { return &b }
func c01I(i int) *int   { return &i }

func (g *c01Gen) props(k int) c01Props {
	r := g.r
	var p c01Props
	if r.Chance(12, 100) {
		p.Config = c01B(false)
	} else if r.Chance(3, 100) {
		p.Config = c01B(true)
	}
	if k == kCase {
		p.Config = nil
	}
	if r.Chance(30, 100) {
		p.Desc = "d" + g.node()
	}
	if r.Chance(10, 100) {
		p.When = g.expr()
	}
	if k != kChoice && k != kCase && r.Chance(10, 100) {
		p.Musts = append(p.Musts, *g.expr())
		if r.Chance(30, 100) {
			p.Musts = append(p.Musts, *g.expr()+" or 1")
		}
	}
	switch k {
	case kLeaf:
		if r.Chance(15, 100) {
			p.Dflt = []string{"v" + fmt.Sprint(r.Intn(9))}
		} else if r.Chance(12, 100) {
			p.Mand = c01B(r.Chance(80, 100))
		}
	case kLeafList, kList:
		if k == kLeafList && r.Chance(10, 100) {
			p.Dflt = []string{"v1"}
			if r.Bool() {
				p.Dflt = append(p.Dflt, "v2")
			}
		}
		if r.Chance(15, 100) {
			p.Min = c01I(r.Intn(3))
		}
		if r.Chance(15, 100) {
			p.Max = c01I(3 + r.Intn(5))
		}
	case kCont:
		if r.Chance(15, 100) {
			p.Presence = "p" + fmt.Sprint(r.Intn(9))
		}
	case kChoice:
		if r.Chance(10, 100) {
			p.Mand = c01B(true)
		}
	}
	return p
}

func (g *c01Gen) usable(vis []*c01Stmt, reg *c01Region, ops bool) []*c01Stmt {
	var out []*c01Stmt
	for _, c := range vis {
		ok := ops || !g.bears[c]
		for x := range g.closure[c] {
			if reg.used[x] {
				ok = false
			}
		}
		if ok {
			out = append(out, c)
		}
	}
	return out
}

func (g *c01Gen) refineFor(pi c01PathInfo) *c01Refine {
	r := g.r
	rf := &c01Refine{Path: pi.Path}
	if r.Chance(50, 100) {
		rf.Desc = "r" + g.node()
	}
	if r.Chance(25, 100) {
		rf.Config = c01B(r.Chance(15, 100))
	}
	switch pi.K {
	case kLeaf:
		if r.Chance(35, 100) {
			rf.Dflt = []string{"rv" + fmt.Sprint(r.Intn(9))}
		} else if r.Chance(30, 100) {
			rf.Mand = c01B(r.Bool())
		}
	case kLeafList, kList:
		if pi.K == kLeafList && r.Chance(25, 100) {
			rf.Dflt = []string{"rv1", "rv2"}
		}
		if r.Chance(35, 100) {
			rf.Min = c01I(1 + r.Intn(2))
		}
		if r.Chance(35, 100) {
			rf.Max = c01I(4 + r.Intn(5))
		}
	case kChoice:
		if r.Chance(30, 100) {
			rf.Mand = c01B(r.Bool())
		}
	case kCont:
		if r.Chance(20, 100) {
			rf.Mand = c01B(r.Bool())
		}
	}
	if pi.K != kChoice && pi.K != kCase && r.Chance(25, 100) {
		rf.Musts = []string{*g.expr()}
	}
	return rf
}

// plain members for an augment body / small bodies (no uses)
func (g *c01Gen) plainKids(n int, forChoice bool, depth int) []*c01Stmt {
	var out []*c01Stmt
	for i := 0; i < n; i++ {
		if forChoice && g.r.Bool() {
			cs := &c01Stmt{T: tNode, K: kCase, Name: g.node(), P: g.props(kCase)}
			cs.Kids = g.plainKids(1+g.r.Intn(2), false, depth+1)
			out = append(out, cs)
			continue
		}
		switch {
		case depth < 2 && g.r.Chance(25, 100):
			c := &c01Stmt{T: tNode, K: kCont, Name: g.node(), P: g.props(kCont)}
			c.Kids = g.plainKids(1+g.r.Intn(2), false, depth+1)
			out = append(out, c)
		case g.r.Chance(15, 100):
			out = append(out, &c01Stmt{T: tNode, K: kLeafList, Name: g.node(), P: g.props(kLeafList)})
		default:
			out = append(out, &c01Stmt{T: tNode, K: kLeaf, Name: g.node(), P: g.props(kLeaf)})
		}
	}
	return out
}

func (g *c01Gen) opProps() c01Props {
	var p c01Props
	if g.r.Chance(30, 100) {
		p.Desc = "d" + g.node()
	}
	return p
}

// opStmt: an rpc/action {input; output} or a notification. body(holder) delivers the members of an
// input/output/notification (holder may receive scoped groupings).
func (g *c01Gen) opStmt(body func(holder *c01Stmt) []*c01Stmt) *c01Stmt {
	r := g.r
	if r.Chance(55, 100) {
		a := &c01Stmt{T: tNode, K: kAction, Name: g.node(), P: g.opProps()}
		both := r.Intn(4) // 0 input only, 1 output only, 2/3 both
		if both != 1 {
			in := &c01Stmt{T: tNode, K: kInput, Name: "input"}
			in.Kids = body(in)
			a.Kids = append(a.Kids, in)
		}
		if both != 0 {
			out := &c01Stmt{T: tNode, K: kOutput, Name: "output"}
			out.Kids = body(out)
			a.Kids = append(a.Kids, out)
		}
		return a
	}
	n := &c01Stmt{T: tNode, K: kNotif, Name: g.node(), P: g.opProps()}
	n.Kids = body(n)
	return n
}

// members of an input/output/notification: a sibling scope of its own, groupings visible by name
// are used in there (with refines/augments like anywhere else), sometimes a grouping private to it
func (g *c01Gen) opBody(depth int, vis []*c01Stmt, must *c01Stmt) func(holder *c01Stmt) []*c01Stmt {
	return func(holder *c01Stmt) []*c01Stmt {
		r := g.r
		g.inOp++
		defer func() { g.inOp-- }()
		reg := newC01Region()
		v2 := vis
		scoped := g.rich && r.Chance(15, 100)
		if scoped {
			sg := &c01Stmt{T: tGrouping, Name: g.scopedName()}
			g.push(sg.Name)
			defer g.pop()
			sg.Kids = g.kidsOfGrouping(sg, depth+1, vis)
			holder.Grps = append(holder.Grps, sg)
			v2 = append(append([]*c01Stmt(nil), vis...), sg)
		}
		var out []*c01Stmt
		if r.Chance(35, 100) {
			out = append(out, &c01Stmt{T: tNode, K: kLeaf, Name: g.node(), P: g.props(kLeaf)})
		}
		us := g.usable(v2, reg, false)
		switch {
		case must != nil && !reg.used[must]:
			out = append(out, g.mkUses(must, reg))
			must = nil
		case len(us) > 0 && r.Chance(50, 100):
			out = append(out, g.mkUses(us[r.Intn(len(us))], reg))
		}
		if len(out) == 0 || r.Chance(60, 100) {
			out = append(out, g.kids(depth+1, reg, v2, 2, false)...)
		}
		return out
	}
}

func (g *c01Gen) plainOpBody(holder *c01Stmt) []*c01Stmt {
	return g.plainKids(1+g.r.Intn(2), false, 2)
}

// setBears: does the expansion of gr add operations to the using parent
func (g *c01Gen) setBears(gr *c01Stmt) {
	for _, s := range gr.Kids {
		if c01IsOp(s) || (s.T == tUses && g.bears[s.Target]) {
			g.bears[gr] = true
		}
	}
}

func (g *c01Gen) mkUses(t *c01Stmt, reg *c01Region) *c01Stmt {
	r := g.r
	u := &c01Stmt{T: tUses, Target: t}
	for x := range g.closure[t] {
		reg.used[x] = true
	}
	if g.ms.ownerOf(t) != nil && r.Chance(20, 100) {
		u.OwnPfx = true
	}
	if r.Chance(15, 100) {
		u.W = g.expr()
	}
	var paths []c01PathInfo
	c01Paths(t.Kids, nil, true, false, 0, &paths)
	if len(paths) > 0 && r.Chance(55, 100) {
		n := 1 + r.Intn(2)
		for i := 0; i < n; i++ {
			pi := paths[r.Intn(len(paths))]
			if pi.Node == nil || pi.K >= kAction {
				continue
			}
			u.Refs = append(u.Refs, g.refineFor(pi))
		}
	}
	if len(paths) > 0 && r.Chance(35, 100) {
		var tg []c01PathInfo
		for _, pi := range paths {
			if pi.K == kCont || pi.K == kList || pi.K == kChoice || pi.K == kCase || pi.K == kNotif {
				tg = append(tg, pi)
			}
		}
		n := 1 + r.Intn(2)
		for i := 0; i < n && len(tg) > 0; i++ {
			pi := tg[r.Intn(len(tg))]
			a := &c01Stmt{T: tAugment, Path: pi.Path, PathPfx: r.Chance(20, 100)}
			a.Kids = g.plainKids(1+r.Intn(2), pi.K == kChoice, 1)
			if (pi.K == kCont || pi.K == kList) && !pi.InOp && g.inOp == 0 && r.Chance(15, 100) {
				// an augment may add an action / a notification to a container or list
				a.Kids = append(a.Kids, g.opStmt(g.plainOpBody))
			}
			if r.Chance(12, 100) {
				a.W = g.expr()
			}
			u.Augs = append(u.Augs, a)
		}
	}
	return u
}

// kids of one parent; vis: groupings visible by name here; file-imports decide whether imported
// groupings may be referenced directly
// ops: may the parent hold rpcs/actions and notifications (module, container, list, top level of a
// grouping that is then operation-bearing)
func (g *c01Gen) kids(depth int, reg *c01Region, vis []*c01Stmt, maxN int, ops bool) []*c01Stmt {
	r := g.r
	n := 1 + r.Intn(maxN)
	ops = ops && g.inOp == 0
	var out []*c01Stmt
	for i := 0; i < n; i++ {
		if ops && r.Chance(8, 100) {
			out = append(out, g.opStmt(g.opBody(depth, vis, nil)))
			continue
		}
		roll := r.Intn(100)
		us := g.usable(vis, reg, ops)
		switch {
		case roll < 28 && len(us) > 0:
			out = append(out, g.mkUses(us[r.Intn(len(us))], reg))
		case roll < 45 && depth < 3:
			c := &c01Stmt{T: tNode, K: kCont, Name: g.node(), P: g.props(kCont)}
			v2 := vis
			scoped := g.rich && r.Chance(20, 100)
			if scoped {
				// sibling-scoped grouping: visible to the container's members only
				sg := &c01Stmt{T: tGrouping, Name: g.scopedName()}
				g.push(sg.Name)
				sg.Kids = g.kidsOfGrouping(sg, depth+1, vis)
				c.Grps = append(c.Grps, sg)
				v2 = append(append([]*c01Stmt(nil), vis...), sg)
			}
			c.Kids = g.kids(depth+1, newC01Region(), v2, 3, true)
			if scoped {
				g.pop()
			}
			out = append(out, c)
		case roll < 55 && depth < 3:
			l := &c01Stmt{T: tNode, K: kList, Name: g.node(), P: g.props(kList)}
			key := &c01Stmt{T: tNode, K: kLeaf, Name: g.node()}
			l.Keys = []string{key.Name}
			l.Kids = append([]*c01Stmt{key}, g.kids(depth+1, newC01Region(), vis, 2, true)...)
			out = append(out, l)
		case roll < 65 && depth < 3:
			ch := &c01Stmt{T: tNode, K: kChoice, Name: g.node(), P: g.props(kChoice)}
			nc := 1 + r.Intn(3)
			for j := 0; j < nc; j++ {
				if r.Bool() {
					cs := &c01Stmt{T: tNode, K: kCase, Name: g.node(), P: g.props(kCase)}
					cs.Kids = g.kids(depth+1, reg, vis, 2, false)
					ch.Kids = append(ch.Kids, cs)
				} else {
					ch.Kids = append(ch.Kids, g.plainKids(1, false, depth+1)...)
				}
			}
			out = append(out, ch)
		case roll < 72:
			out = append(out, &c01Stmt{T: tNode, K: kLeafList, Name: g.node(), P: g.props(kLeafList)})
		default:
			out = append(out, &c01Stmt{T: tNode, K: kLeaf, Name: g.node(), P: g.props(kLeaf)})
		}
	}
	return out
}

func (g *c01Gen) kidsOfGrouping(gr *c01Stmt, depth int, vis []*c01Stmt) []*c01Stmt {
	reg := newC01Region()
	v2 := vis
	nested := g.rich && depth < 2 && g.r.Chance(20, 100)
	if nested {
		// grouping nested in the grouping: visible to its body only
		ng := &c01Stmt{T: tGrouping, Name: g.scopedName()}
		g.push(ng.Name)
		ng.Kids = g.kidsOfGrouping(ng, depth+1, vis)
		gr.Grps = append(gr.Grps, ng)
		v2 = append(append([]*c01Stmt(nil), vis...), ng)
	}
	ks := g.kids(depth, reg, v2, 3, true)
	if nested {
		g.pop()
	}
	cl := map[*c01Stmt]bool{gr: true}
	for x := range reg.used {
		cl[x] = true
	}
	g.closure[gr] = cl
	gr.Kids = ks
	g.setBears(gr)
	return ks
}

func c01GenModset(r *gen.Rng, idx int, rich bool) *c01Modset {
	g := &c01Gen{r: r, closure: map[*c01Stmt]map[*c01Stmt]bool{}, rich: rich, bears: map[*c01Stmt]bool{}}
	name := fmt.Sprintf("m%d", idx)
	ms := &c01Modset{Main: &c01Module{Name: name, Prefix: "mp"}}
	g.ms = ms
	nImp, nSub, nGrp := 0, 0, 1+r.Intn(2)
	if rich {
		nImp, nSub, nGrp = r.Intn(3), r.Intn(3), r.Intn(5)
	}
	var visMain, visLocal []*c01Stmt // visible from the main file / from every local file
	for i := 0; i < nImp; i++ {
		im := &c01Imp{Prefix: fmt.Sprintf("i%d", i), M: &c01Module{Name: fmt.Sprintf("%s-imp%d", name, i), Prefix: fmt.Sprintf("o%d", i)}}
		ms.Imps = append(ms.Imps, im)
		var own []*c01Stmt
		for j := 0; j < 1+r.Intn(2); j++ {
			gr := &c01Stmt{T: tGrouping, Name: g.group()}
			im.M.Grps = append(im.M.Grps, gr)
			gr.Kids = g.kidsOfGrouping(gr, 1, own)
			own = append(own, gr)
		}
		visMain = append(visMain, own...)
	}
	for i := 0; i < nSub; i++ {
		ms.Subs = append(ms.Subs, &c01Module{Name: fmt.Sprintf("%s-sub%d", name, i), Prefix: "mp"})
	}
	locals := append([]*c01Module{ms.Main}, ms.Subs...)
	for i := 0; i < nGrp; i++ {
		gr := &c01Stmt{T: tGrouping, Name: g.group()}
		f := locals[r.Intn(len(locals))]
		f.Grps = append(f.Grps, gr)
		vis := visLocal
		if f == ms.Main {
			vis = append(append([]*c01Stmt(nil), visLocal...), visMain...)
		}
		gr.Kids = g.kidsOfGrouping(gr, 1, vis)
		visLocal = append(visLocal, gr)
	}
	top := newC01Region()
	for _, f := range locals {
		vis := visLocal
		if f == ms.Main {
			vis = append(append([]*c01Stmt(nil), visLocal...), visMain...)
		}
		mx := 3
		if f != ms.Main {
			mx = 2
		}
		f.Body = g.kids(0, top, vis, mx, true)
	}
	if rich && r.Chance(40, 100) {
		// two sibling containers using one grouping with different refines
		all := append(append([]*c01Stmt(nil), visLocal...), visMain...)
		if len(all) > 0 {
			t := all[r.Intn(len(all))]
			for j := 0; j < 2; j++ {
				c := &c01Stmt{T: tNode, K: kCont, Name: g.node()}
				c.Kids = []*c01Stmt{g.mkUses(t, newC01Region())}
				ms.Main.Body = append(ms.Main.Body, c)
			}
		}
	}
	if rich && r.Chance(40, 100) {
		// one NAME, two different scoped groupings in disjoint scopes of one file, each used in
		// its own scope: (0) private to two sibling containers, (1) nested in two module-level
		// groupings, (2) one of each
		f := locals[r.Intn(len(locals))]
		vis := visLocal
		if f == ms.Main {
			vis = append(append([]*c01Stmt(nil), visLocal...), visMain...)
		}
		name := g.scopedName()
		shape := r.Intn(3)
		for j := 0; j < 2; j++ {
			sg := &c01Stmt{T: tGrouping, Name: name}
			g.push(name)
			sg.Kids = g.kidsOfGrouping(sg, 2, vis)
			v2 := append(append([]*c01Stmt(nil), vis...), sg)
			c := &c01Stmt{T: tNode, K: kCont, Name: g.node()}
			if shape == 0 || (shape == 2 && j == 0) {
				c.Grps = []*c01Stmt{sg}
				reg := newC01Region()
				c.Kids = append([]*c01Stmt{g.mkUses(sg, reg)}, g.kids(1, reg, v2, 2, true)...)
			} else {
				gr := &c01Stmt{T: tGrouping, Name: g.group(), Grps: []*c01Stmt{sg}}
				reg := newC01Region()
				gr.Kids = append([]*c01Stmt{g.mkUses(sg, reg)}, g.kids(1, reg, v2, 2, true)...)
				cl := map[*c01Stmt]bool{gr: true}
				for x := range reg.used {
					cl[x] = true
				}
				g.closure[gr] = cl
				g.setBears(gr)
				f.Grps = append(f.Grps, gr)
				c.Kids = []*c01Stmt{g.mkUses(gr, newC01Region())}
			}
			g.pop()
			f.Body = append(f.Body, c)
		}
	}
	if r.Chance(45, 100) {
		// operations that come out of a grouping: grouping G1 { [leaf] rpc/action {input/output}
		// and/or notification, whose members use a grouping G2 (any visible one, else a new one) }
		// with G1 defined in any local file or an imported module, used from a container, a list,
		// the module level, or through one more grouping
		f := locals[r.Intn(len(locals))]
		vis := visLocal
		if f == ms.Main {
			vis = append(append([]*c01Stmt(nil), visLocal...), visMain...)
		}
		def := f
		if len(ms.Imps) > 0 && r.Chance(25, 100) {
			// G1 (and the G2 it uses) live in an imported module; used from the main module
			def, f, vis = ms.Imps[r.Intn(len(ms.Imps))].M, ms.Main, nil
		}
		var inner *c01Stmt
		if us := g.usable(vis, newC01Region(), false); len(us) > 0 && r.Chance(60, 100) {
			inner = us[r.Intn(len(us))]
		} else {
			inner = &c01Stmt{T: tGrouping, Name: g.group()}
			inner.Kids = g.plainKids(1+r.Intn(2), false, 1)
			g.closure[inner] = map[*c01Stmt]bool{inner: true}
			def.Grps = append(def.Grps, inner)
		}
		g1 := &c01Stmt{T: tGrouping, Name: g.group()}
		def.Grps = append(def.Grps, g1)
		v1 := append(append([]*c01Stmt(nil), vis...), inner)
		if r.Chance(40, 100) {
			g1.Kids = append(g1.Kids, &c01Stmt{T: tNode, K: kLeaf, Name: g.node(), P: g.props(kLeaf)})
		}
		nops := 1 + r.Intn(2)
		for j := 0; j < nops; j++ {
			must := inner
			if j > 0 && r.Bool() {
				must = nil
			}
			g1.Kids = append(g1.Kids, g.opStmt(g.opBody(1, v1, must)))
		}
		g.closure[g1] = map[*c01Stmt]bool{g1: true}
		g.bears[g1] = true
		target := g1
		if r.Chance(25, 100) {
			// through one more grouping: grouping G0 { uses G1; }
			g0 := &c01Stmt{T: tGrouping, Name: g.group()}
			g0.Kids = []*c01Stmt{g.mkUses(g1, newC01Region())}
			g.closure[g0] = map[*c01Stmt]bool{g0: true, g1: true}
			g.bears[g0] = true
			def.Grps = append(def.Grps, g0)
			target = g0
		}
		nuse := 1 + r.Intn(2)
		for j := 0; j < nuse; j++ {
			switch r.Intn(3) {
			case 0:
				c := &c01Stmt{T: tNode, K: kCont, Name: g.node(), P: g.props(kCont)}
				c.Kids = []*c01Stmt{g.mkUses(target, newC01Region())}
				f.Body = append(f.Body, c)
			case 1:
				l := &c01Stmt{T: tNode, K: kList, Name: g.node(), P: g.props(kList)}
				key := &c01Stmt{T: tNode, K: kLeaf, Name: g.node()}
				l.Keys = []string{key.Name}
				l.Kids = []*c01Stmt{key, g.mkUses(target, newC01Region())}
				f.Body = append(f.Body, l)
			default:
				if !top.used[target] && !top.used[g1] {
					f.Body = append(f.Body, g.mkUses(target, top))
				}
			}
		}
	}
	// module-level augments
	nAug := 0
	if rich {
		nAug = r.Intn(3)
	} else if r.Chance(30, 100) {
		nAug = 1
	}
	var paths []c01PathInfo
	for _, f := range locals {
		c01Paths(f.Body, nil, true, false, 0, &paths)
	}
	for i := 0; i < nAug; i++ {
		var tg []c01PathInfo
		for _, pi := range paths {
			if pi.K == kCont || pi.K == kList || pi.K == kChoice || pi.K == kCase || pi.K == kNotif {
				tg = append(tg, pi)
			}
		}
		if len(tg) == 0 {
			break
		}
		pi := tg[r.Intn(len(tg))]
		a := &c01Stmt{T: tAugment, Path: pi.Path, PathPfx: r.Bool()}
		a.Kids = g.plainKids(1+r.Intn(2), pi.K == kChoice, 1)
		if (pi.K == kCont || pi.K == kList) && !pi.InOp && r.Chance(15, 100) {
			a.Kids = append(a.Kids, g.opStmt(g.plainOpBody))
		}
		if r.Chance(12, 100) {
			a.W = g.expr()
		}
		f := locals[r.Intn(len(locals))]
		f.Augs = append(f.Augs, a)
		// later augments may target what this one adds
		c01PathsIn(a.Kids, pi.Path, false, pi.K == kChoice, 0, pi.InOp || pi.K == kNotif, &paths)
	}
	return ms
}

// ---------- driving the real library ----------

func c01Load(ms *c01Modset) (obsTerm string, status string) {
	mainText, others := ms.texts()
	opener := func(name string, ext string) (io.Reader, error) {
		if t, ok := others[name]; ok {
			return strings.NewReader(t), nil
		}
		return nil, nil
	}
	defer func() {
		if r := recover(); r != nil {
			obsTerm, status = "ObsPanic", fmt.Sprintf("panic: %v", r)
		}
	}()
	m, err := parser.LoadModuleFromString(opener, mainText)
	if err != nil {
		return "ObsErr", "error: " + err.Error()
	}
	dp := &c01Dump{}
	t := dp.members(m)
	if dp.residue != "" {
		return "ObsResidue", "residue: the compiled tree holds a definition that is no schema node: " + dp.residue
	}
	return emit.App("ObsOk", t), "ok"
}

func (ms *c01Modset) desc() map[string]interface{} {
	mainText, others := ms.texts()
	d := map[string]interface{}{"main": mainText}
	for _, k := range c01SortedKeys(others) {
		d[k] = others[k]
	}
	return d
}

func (ms *c01Modset) countFeatures(ctx *core.Ctx) (nUses, nRef, nAug int) {
	for _, m := range ms.files() {
		m.walk(func(s *c01Stmt) {
			if s.T == tUses {
				nUses++
				nRef += len(s.Refs)
				nAug += len(s.Augs)
				if s.W != nil {
					ctx.Count("uses-with-when")
				}
				if ms.ownerOf(s.Target) == nil {
					ctx.Count("uses-of-scoped-grouping")
				} else if !ms.isLocal(ms.ownerOf(s.Target)) {
					ctx.Count("uses-of-imported-grouping")
				}
			}
			if s.T == tAugment && s.W != nil {
				ctx.Count("augment-with-when")
			}
			if s.T == tAugment {
				for _, k := range s.Kids {
					if c01IsOp(k) {
						ctx.Count("operation-added-by-augment")
					}
				}
			}
			if s.T == tGrouping {
				for _, k := range s.Kids {
					if !c01IsOp(k) {
						continue
					}
					ctx.Count("operation-in-grouping:" + c01KindName[k.K])
					nested := false
					c01WalkList(k.Kids, func(x *c01Stmt) {
						if x.T == tUses {
							nested = true
						}
					})
					if nested {
						ctx.Count("operation-in-grouping-with-nested-uses")
					}
				}
			}
			if c01IsOp(s) {
				ctx.Count("operation:" + c01KindName[s.K])
			}
		})
	}
	return
}

// C01: module sets and their refactorings, loaded by the real parser+resolver+compiler.
func C01(ctx *core.Ctx) error {
	ctx.Imports = "Schemac.Ast Schemac.Expand Check.C01Check"
	ctx.Rule = "case = (module set a, module set b = T a for one meaning-preserving refactoring T, or b = a; accessor dump of both as loaded by parser.LoadModuleFromString with an in-memory source.Opener for submodules and imports). Module sets: main module, 0-2 submodules, 0-2 imported modules, 0-4 module-level groupings (in any file; nested and sibling-scoped groupings, named from a pool of three so that disjoint scopes of one file define DIFFERENT groupings under ONE name, never shadowing an enclosing scope; groupings using groupings), uses with when/refine/augment, module-level augments (also into grouping-expanded content, choices, implied cases, notifications, earlier augments), config stated at random; rpcs/actions {input; output} and notifications written in modules, containers, lists, at the top level of groupings of every scope (imported and submodule groupings too) and in augment bodies for containers/lists, their input/output/notification members using the visible groupings (with when/refine/augment) and sometimes holding a private grouping; about half of the module sets hold a grouping G1 with 1-2 operations whose members use a grouping G2, G1 used from a container, a list, the module level or through one more grouping. The dump walks DataDefinitions(), Actions(), Notifications(), Input(), Output(); a definition that is no schema node (an unexpanded uses) anywhere in it is reported as ObsResidue. T: inline a uses; extract siblings into a grouping; move an augment body into its target; move a definition to a submodule; move a grouping to an imported module; rename every local grouping definition to a fresh name of its own (always applied when one name is bound by two definitions); independent copies (drop the refines/augments of the first of two uses, compare under the second). non-trivial = the module set contains at least one uses or augment"
	r := gen.New(ctx.Seed)
	nsets := ctx.Scale(90, 1500)
	if ctx.Tier == "search" {
		nsets = 400
	}
	for n := 0; n < nsets; n++ {
		gr := r.Fork(uint64(n))
		rich := n%4 != 0
		ms := c01GenModset(gr, n, rich)
		gx := 0
		fresh := func() string { gx++; return fmt.Sprintf("gx%d", gx) }
		nUses, nRef, nAug := ms.countFeatures(ctx)
		nontrivial := nUses+len(ms.allAugs()) > 0
		ctx.Count(fmt.Sprintf("uses=%d", c01Min(nUses, 6)))
		ctx.Count(fmt.Sprintf("refines=%d", c01Min(nRef, 4)))
		ctx.Count(fmt.Sprintf("uses-augments=%d", c01Min(nAug, 3)))
		ctx.Count(fmt.Sprintf("module-augments=%d", len(ms.allAugs())))
		ctx.Count(fmt.Sprintf("files=%d", len(ms.files())))
		if dup, both := ms.sameNameGroupings(); both {
			ctx.Count("same-name-groupings-in-two-scopes:both-used")
		} else if dup {
			ctx.Count("same-name-groupings-in-two-scopes:not-both-used")
		}

		oa, sa := c01Load(ms)
		ctx.Count("load:" + strings.SplitN(sa, ":", 2)[0])
		type step struct {
			tk     int
			ms     *c01Modset
			obs    string
			status string
			what   string
		}
		chain := []step{{0, ms, oa, sa, ""}}

		// chain of refactorings
		cur := ms
		order := []int{1, 2, 3, 4, 5, 7}
		for i := range order {
			j := i + gr.Intn(len(order)-i)
			order[i], order[j] = order[j], order[i]
		}
		for _, tk := range append(order, 1, 3, 1) {
			if len(chain) > 3 {
				break
			}
			next, _ := cur.clone()
			what, ok := next.applyRefactoring(tk, gr, fresh)
			if !ok {
				ctx.Count("T-not-applicable:" + c01TNames[tk])
				continue
			}
			ob, sb := c01Load(next)
			ctx.Count("T:" + c01TNames[tk])
			ctx.Count("load:" + strings.SplitN(sb, ":", 2)[0])
			chain = append(chain, step{tk, next, ob, sb, what})
			cur = next
		}
		// a name bound by two different grouping definitions: the renaming law is always checked
		renamed := false
		for _, st := range chain {
			renamed = renamed || st.tk == 7
		}
		if dup, _ := cur.sameNameGroupings(); dup && !renamed {
			next, _ := cur.clone()
			if what, ok := next.applyRefactoring(7, gr, fresh); ok {
				ob, sb := c01Load(next)
				ctx.Count("T:" + c01TNames[7])
				ctx.Count("load:" + strings.SplitN(sb, ":", 2)[0])
				chain = append(chain, step{7, next, ob, sb, what})
			}
		}
		if ctx.Explode == ctx.N() {
			for i := 1; i < len(chain); i++ {
				a, b := chain[i-1], chain[i]
				ctx.Add(emit.App("CPair", emit.Nat(b.tk), a.ms.term(), b.ms.term(), a.obs, b.obs),
					map[string]interface{}{"T": c01TNames[b.tk], "what": b.what, "a": a.ms.desc(), "b": b.ms.desc(), "status_a": a.status, "status_b": b.status}, true)
			}
			if len(chain) == 1 {
				ctx.Add(emit.App("CPair", emit.Nat(0), ms.term(), ms.term(), oa, oa), map[string]interface{}{"T": "load", "a": ms.desc(), "status": sa}, nontrivial)
			}
		} else {
			items := make([]string, len(chain))
			var ds []interface{}
			for i, st := range chain {
				items[i] = emit.Pair(emit.Pair(emit.Nat(st.tk), st.ms.term()), st.obs)
				ds = append(ds, map[string]interface{}{"T": c01TNames[st.tk], "what": st.what, "files": st.ms.desc(), "status": st.status})
			}
			ctx.Add(emit.App("CChain", emit.List(items)), map[string]interface{}{"kind": "table", "chain": ds}, nontrivial)
		}

		// independent copies: two top-level containers of the main module using one grouping
		{
			var first, second *c01Stmt
			for _, c := range ms.Main.Body {
				if c.T != tNode || c.K != kCont || len(c.Kids) == 0 || c.Kids[0].T != tUses {
					continue
				}
				if first == nil {
					if len(c.Kids[0].Refs)+len(c.Kids[0].Augs) > 0 {
						first = c
					}
				} else if c.Kids[0].Target == first.Kids[0].Target {
					second = c
				}
			}
			if first != nil && second != nil && oa != "ObsErr" && oa != "ObsPanic" {
				v, cl := ms.clone()
				u := cl.m[first.Kids[0]]
				u.Refs, u.Augs, u.W = nil, nil, nil
				ob, sb := c01Load(v)
				if sb != "ok" {
					ctx.Count("independent-copies:variant-does-not-load")
					continue
				}
				ctx.Count("T:" + c01TNames[6])
				ctx.Add(emit.App("CIndep", ms.term(), v.term(), c01StrList([]string{second.Name}), oa, ob),
					map[string]interface{}{"T": c01TNames[6], "under": second.Name, "a": ms.desc(), "b": v.desc(), "status_b": sb}, true)
			}
		}
	}
	return nil
}

func c01Min(a, b int) int {
	if a < b {
		return a
	}
	return b
}
