package props

import (
	"errors"
	"fmt"
	"strings"

	"github.com/freeconf/yang/fc"
	"github.com/freeconf/yang/meta"
	"github.com/freeconf/yang/node"
	"github.com/freeconf/yang/parser"
	"github.com/freeconf/yang/val"

	"yvh/core"
	"yvh/emit"
	"yvh/gen"
	"yvh/tree"
)

func init() { Registry["C08"] = C08 }

// ---- locations ---------------------------------------------------------------------------------

// c8step is one path segment: flat kid idx of the holder, with the key of a list entry (key != nil)
type c8step struct {
	idx int
	kid *tree.SNode
	key []val.Value
	row int // row index in the reference store (spec side), when key != nil
}

// c8node is one addressable node of a generated data tree
type c8node struct {
	steps []c8step
	kind  string      // root | cont | list | row | leaf
	s     *tree.SNode // schema node of the node itself (root: the module view)
	cont  *tree.Cont  // content (root, cont, row)
}

func (n *c8node) containerLike() bool { return n.kind == "root" || n.kind == "cont" || n.kind == "row" }

func c8enum(s *tree.SNode, c *tree.Cont, prefix []c8step, out *[]*c8node) {
	ext := func(st c8step) []c8step { return append(append([]c8step{}, prefix...), st) }
	for i, kid := range s.Kids {
		switch kid.Kind {
		case tree.KLeaf:
			*out = append(*out, &c8node{steps: ext(c8step{idx: i, kid: kid}), kind: "leaf", s: kid})
		case tree.KCont:
			if sub, ok := c.Conts[kid.Name]; ok {
				st := ext(c8step{idx: i, kid: kid})
				*out = append(*out, &c8node{steps: st, kind: "cont", s: kid, cont: sub})
				c8enum(kid, sub, st, out)
			}
		case tree.KList:
			if l, ok := c.Lists[kid.Name]; ok {
				*out = append(*out, &c8node{steps: ext(c8step{idx: i, kid: kid}), kind: "list", s: kid})
				for j, row := range l.Rows {
					key := make([]val.Value, len(kid.Keys))
					for k, kp := range kid.Keys {
						key[k] = row.Leaves[kid.Kids[kp].Name]
					}
					st := ext(c8step{idx: i, kid: kid, key: key, row: j})
					*out = append(*out, &c8node{steps: st, kind: "row", s: kid, cont: row})
					c8enum(kid, row, st, out)
				}
			}
		}
	}
}

func c8locTerm(steps []c8step) string {
	items := make([]string, len(steps))
	for i, st := range steps {
		if st.key == nil {
			items[i] = emit.App("SName", emit.Nat(st.idx))
			continue
		}
		ks := make([]string, len(st.key))
		for k, v := range st.key {
			if v == nil {
				return "[SName 99999%nat]" // a nil key value cannot be a location of the model
			}
			ks[k] = tree.ValTerm(v)
		}
		items[i] = emit.App("SKey", emit.Nat(st.idx), emit.List(ks))
	}
	return emit.List(items)
}

func c8posTerm(steps []c8step) string {
	items := make([]string, len(steps))
	for i, st := range steps {
		if st.key == nil {
			items[i] = emit.App("PName", emit.Nat(st.idx))
		} else {
			items[i] = emit.App("PRow", emit.Nat(st.idx), emit.Nat(st.row))
		}
	}
	return emit.List(items)
}

func c8chainLen(steps []c8step) int {
	n := 0
	for _, st := range steps {
		n++
		if st.key != nil {
			n++
		}
	}
	return n
}

// ---- rendering (the harness's own, independent of node.Path) -----------------------------------

const (
	escCanon   = iota // every byte outside unreserved as %XX, upper case
	escLower          // ... lower case hex
	escAll            // every byte as %XX
	escMinimal        // only % / , + ? and control bytes; everything else raw (also '=', '#', space, non-ASCII)
	escPlus           // canonical, but a space as '+'
)

func c8unreserved(c byte) bool {
	return 'a' <= c && c <= 'z' || 'A' <= c && c <= 'Z' || '0' <= c && c <= '9' || c == '-' || c == '_' || c == '.' || c == '~'
}

func c8escape(s string, mode int) string {
	var b strings.Builder
	for i := 0; i < len(s); i++ {
		c := s[i]
		raw := c8unreserved(c)
		switch mode {
		case escAll:
			raw = false
		case escMinimal:
			raw = !(c == '%' || c == '/' || c == ',' || c == '+' || c == '?' || c < 0x20)
		case escPlus:
			if c == ' ' {
				b.WriteByte('+')
				continue
			}
		}
		if raw {
			b.WriteByte(c)
		} else if mode == escLower {
			fmt.Fprintf(&b, "%%%02x", c)
		} else {
			fmt.Fprintf(&b, "%%%02X", c)
		}
	}
	return b.String()
}

type c8spell struct {
	esc      int
	qual     func(depth int, kid *tree.SNode) string // "" or the qualifier to write before ':'
	trailing bool
	keyText  func(v val.Value) string // nil: v.String()
}

func c8render(steps []c8step, sp c8spell) string {
	segs := make([]string, len(steps))
	for i, st := range steps {
		name := st.kid.Name
		if sp.qual != nil {
			if q := sp.qual(i, st.kid); q != "" {
				name = q + ":" + name
			}
		}
		if st.key != nil {
			ks := make([]string, len(st.key))
			for k, v := range st.key {
				txt := v.String()
				if sp.keyText != nil {
					txt = sp.keyText(v)
				}
				ks[k] = c8escape(txt, sp.esc)
			}
			name += "=" + strings.Join(ks, ",")
		}
		segs[i] = name
	}
	p := strings.Join(segs, "/")
	if sp.trailing {
		p += "/"
	}
	return p
}

// ---- hostile key values ------------------------------------------------------------------------

var c8fragments = []string{"a/b", "x,y", "k=v", "100%", "a+b", "sp ace", "a b", " x", "y ", "1 2", "q?x", "h#1", "ü", "日本", "%2F", "../", "..", "a:b",
	"+", "%", "/", ",", "=", "?", "#", " ", "~t", "-_.", "Zz9", "\x01", "\xff\xfe", "&amp;", "'q'", "\"", "\\"}

func c8hostile(r *gen.Rng) string {
	n := 1 + r.Intn(3)
	var b strings.Builder
	for i := 0; i < n; i++ {
		b.WriteString(gen.Pick(r, c8fragments))
	}
	return b.String()
}

// c8hostileKeys replaces string key values below c by hostile ones (unique per list)
func c8hostileKeys(r *gen.Rng, s *tree.SNode, c *tree.Cont) {
	for _, kid := range s.Kids {
		switch kid.Kind {
		case tree.KCont:
			if sub, ok := c.Conts[kid.Name]; ok {
				c8hostileKeys(r, kid, sub)
			}
		case tree.KList:
			l, ok := c.Lists[kid.Name]
			if !ok {
				continue
			}
			seen := map[string]bool{}
			for _, row := range l.Rows {
				for try := 0; ; try++ {
					var id []string
					for _, kp := range kid.Keys {
						kl := kid.Kids[kp]
						if kl.Leafable().Type().Format() == val.FmtString && (try > 0 || r.Chance(3, 4)) {
							txt := c8hostile(r)
							if try > 3 {
								txt += fmt.Sprint(try)
							}
							v, err := node.NewValue(kl.Leafable().Type(), txt)
							if err == nil && v != nil {
								row.Leaves[kl.Name] = v
							}
						}
						id = append(id, row.Leaves[kl.Name].String())
					}
					k := strings.Join(id, "\x00")
					if !seen[k] || try > 8 {
						seen[k] = true
						break
					}
				}
				c8hostileKeys(r, kid, row)
			}
		}
	}
}

// ---- observation -------------------------------------------------------------------------------

type c8obs struct {
	term string
	desc string
}

// c8locOf maps sel.Path to schema positions by identity of the meta objects
func c8locOf(root *tree.SNode, p *node.Path) ([]c8step, *tree.SNode, bool) {
	segs := p.Segments()
	if len(segs) == 0 || segs[0].Meta != root.Def {
		return nil, nil, false
	}
	cur := root
	var steps []c8step
	for _, sg := range segs[1:] {
		found := -1
		for i, kid := range cur.Kids {
			if kid.Def == sg.Meta {
				found = i
			}
		}
		if found < 0 {
			return nil, nil, false
		}
		st := c8step{idx: found, kid: cur.Kids[found]}
		if sg.Key != nil {
			st.key = sg.Key
		}
		steps = append(steps, st)
		cur = cur.Kids[found]
	}
	return steps, cur, true
}

func c8find(sel *node.Selection, path string) (found *node.Selection, err error, panicked string) {
	defer func() {
		if r := recover(); r != nil {
			panicked = fmt.Sprintf("%v", r)
		}
	}()
	found, err = sel.Find(path)
	return
}

func c8ferr(err error) string {
	if errors.Is(err, fc.NotFoundError) {
		return "FNotFound"
	}
	return "FOther"
}

// c8content exports the found selection through a capturing reference-store node
func c8content(sel *node.Selection, steps []c8step, at *tree.SNode) (term, desc string) {
	defer func() {
		if r := recover(); r != nil {
			term, desc = "(OCont (Err EOther))", fmt.Sprintf("export panicked: %v", r)
		}
	}()
	last := "cont"
	if n := len(steps); n > 0 {
		st := steps[n-1]
		switch {
		case st.kid.Kind == tree.KLeaf:
			last = "leaf"
		case st.kid.Kind == tree.KList && st.key == nil:
			last = "list"
		}
	}
	switch last {
	case "leaf":
		v, err := sel.Get()
		if err != nil {
			return "(OCont (Err EOther))", "Get: " + err.Error()
		}
		if v == nil {
			return "(OLeaf None)", "leaf unset"
		}
		return emit.App("OLeaf", emit.Some(tree.ValTerm(v))), "leaf " + tree.ValDesc(v)
	case "list":
		capture := &tree.List{}
		if err := sel.UpsertInto(capture.Node(at, nil, "")); err != nil {
			return "(ORows (Err EOther))", "export: " + err.Error()
		}
		items := make([]string, len(capture.Rows))
		ds := make([]string, len(capture.Rows))
		for i, row := range capture.Rows {
			items[i] = emit.App("DCont", row.ContentTerm(at))
			ds[i] = row.Desc(at)
		}
		return emit.App("ORows", emit.App("Ok", emit.List(items))), "[" + strings.Join(ds, ",") + "]"
	}
	capture := tree.NewCont()
	if err := sel.UpsertInto(capture.Node(at, nil, "")); err != nil {
		return "(OCont (Err EOther))", "export: " + err.Error()
	}
	return emit.App("OCont", emit.App("Ok", capture.ContentTerm(at))), capture.Desc(at)
}

func c8optLoc(steps []c8step, ok bool) string {
	if !ok {
		return "None"
	}
	return emit.Some(c8locTerm(steps))
}

// ---- one tree ----------------------------------------------------------------------------------

type c8call struct {
	start  *c8node
	path   string
	intent string // Gallina term
	idesc  string
	skip   bool // do not observe the content (query variants)
	stream string
	iter   bool // the start selection (a list entry) is reached by First()/Next() instead of Find
}

type c8result struct {
	term string
	desc map[string]interface{}
}

type c8tree struct {
	yang            string
	m               *meta.Module
	root            *tree.SNode
	data            *tree.Cont
	nodes           []*c8node
	rootNode        *c8node
	pfx             string
	browser         *node.Browser
	armed           bool
	pol             c8policy
	writes          []string
	startSelections map[*c8node]*node.Selection
}

func (t *c8tree) run(c c8call) (c8result, error) {
	before := t.data.Desc(t.root)
	var startSel *node.Selection
	if c.start.kind == "root" {
		startSel = t.browser.Root()
	} else if c.iter && c.start.kind == "row" {
		s, err := t.iterate(c.start)
		if err != nil {
			return c8result{}, err
		}
		startSel = s
	} else {
		s, err, p := c8find(t.browser.Root(), c8render(c.start.steps, c8spell{}))
		if err != nil || p != "" || s == nil {
			return c8result{}, fmt.Errorf("cannot obtain start selection")
		}
		startSel = s
	}
	t.writes = nil
	t.armed = true
	found, err, panicked := c8find(startSel, c.path)
	t.armed = false
	writes := append([]string{}, t.writes...)
	var obsTerm, obsDesc string
	switch {
	case panicked != "":
		obsTerm, obsDesc = "OPanic", "panic: "+panicked
	case err != nil:
		obsTerm, obsDesc = emit.App("OErr", c8ferr(err)), c8ferr(err)+": "+err.Error()
	case found == nil:
		obsTerm, obsDesc = "ONone", "nil selection"
	default:
		steps, at, ok := c8locOf(t.root, found.Path)
		locTerm := "[SName 99999%nat]"
		if ok {
			locTerm = c8locTerm(steps)
		}
		pstr, pnm := found.Path.String(), found.Path.StringNoModule()
		cTerm, cDesc := "OSkip", "(not observed)"
		if !c.skip {
			if ok {
				cTerm, cDesc = c8content(found, steps, at)
			} else {
				cTerm, cDesc = "(OCont (Err EOther))", "selection's path is not a schema path"
			}
		}
		// the rendered path must lead the real Find back to the same location
		re, rerr, rp := c8find(t.browser.Root(), pnm)
		reTerm, reDesc := "None", "nothing"
		if rerr == nil && rp == "" && re != nil {
			rs, _, rok := c8locOf(t.root, re.Path)
			reTerm = c8optLoc(rs, rok)
			reDesc = re.Path.String()
		} else if rerr != nil {
			reDesc = rerr.Error()
		} else if rp != "" {
			reDesc = "panic: " + rp
		}
		obsTerm = emit.App("OFound", locTerm, emit.Str(pstr), emit.Str(pnm), cTerm, reTerm)
		obsDesc = fmt.Sprintf("found path=%q content=%s refind=%s", pstr, cDesc, reDesc)
	}
	pure := len(writes) == 0 && t.data.Desc(t.root) == before
	term := emit.App("mkF", c8locTerm(c.start.steps), emit.Str(c.path), c.intent, obsTerm, emit.Bool(pure))
	desc := map[string]interface{}{"start": c8render(c.start.steps, c8spell{}), "path": c.path, "meaning": c.idesc,
		"observed": obsDesc, "stream": c.stream, "node-key-answer": t.pol.String()}
	if !pure {
		desc["writes"] = writes
	}
	return c8result{term: term, desc: desc}, nil
}

// iterate reaches the list entry n the way a reader does: Find the list, First(), Next() ...
func (t *c8tree) iterate(n *c8node) (sel *node.Selection, err error) {
	defer func() {
		if r := recover(); r != nil {
			sel, err = nil, fmt.Errorf("iteration panicked: %v", r)
		}
	}()
	last := n.steps[len(n.steps)-1]
	lst := append(append([]c8step{}, n.steps[:len(n.steps)-1]...), c8step{idx: last.idx, kid: last.kid})
	ls, ferr, p := c8find(t.browser.Root(), c8render(lst, c8spell{}))
	if ferr != nil || p != "" || ls == nil {
		return nil, fmt.Errorf("cannot obtain the list selection")
	}
	item, ierr := ls.First()
	for i := 0; i < last.row && ierr == nil && item.Selection != nil; i++ {
		item, ierr = item.Next()
	}
	if ierr != nil || item.Selection == nil {
		return nil, fmt.Errorf("cannot iterate to the start entry")
	}
	return item.Selection, nil
}

var c8keyTypes = []string{"string", "string", "string", "int32", "uint8", "int64", "uint32", "boolean", "enumeration { enum a; enum b; enum c; }"}

// c8listYang writes a list-heavy schema: lists within lists, compound keys, choices (also nested)
// whose cases hold lists and containers
func c8listYang(r *gen.Rng) string {
	next := 0
	id := func(p string) string { next++; return fmt.Sprintf("%s%d", p, next) }
	var b strings.Builder
	leafTypes := []string{"string", "int32", "boolean", "uint16", "int64"}
	var kids func(ind string, depth int, inCase bool)
	leaf := func(ind string) {
		t := gen.Pick(r, leafTypes)
		fmt.Fprintf(&b, "%sleaf %s { type %s; }\n", ind, id("l"), t)
	}
	kids = func(ind string, depth int, inCase bool) {
		n := 2 + r.Intn(3)
		if inCase {
			n = 1 + r.Intn(2)
		}
		for i := 0; i < n; i++ {
			roll := r.Intn(10)
			switch {
			case roll < 3 || depth >= 3:
				leaf(ind)
			case roll < 5:
				fmt.Fprintf(&b, "%scontainer %s {\n", ind, id("c"))
				kids(ind+"  ", depth+1, false)
				fmt.Fprintf(&b, "%s}\n", ind)
			case roll < 9:
				name := id("q")
				nk := 1
				if r.Chance(2, 5) {
					nk = 2
				}
				var keys []string
				var decl strings.Builder
				for k := 0; k < nk; k++ {
					kn := id("k")
					keys = append(keys, kn)
					t := gen.Pick(r, c8keyTypes)
					semi := ";"
					if strings.HasSuffix(t, "}") {
						semi = ""
					}
					fmt.Fprintf(&decl, "%s  leaf %s { type %s%s }\n", ind, kn, t, semi)
				}
				fmt.Fprintf(&b, "%slist %s {\n%s  key \"%s\";\n%s", ind, name, ind, strings.Join(keys, " "), decl.String())
				kids(ind+"  ", depth+1, false)
				fmt.Fprintf(&b, "%s}\n", ind)
			default:
				fmt.Fprintf(&b, "%schoice %s {\n", ind, id("h"))
				for c := 0; c < 2; c++ {
					fmt.Fprintf(&b, "%s  case %s {\n", ind, id("s"))
					if r.Chance(1, 3) && depth < 2 {
						fmt.Fprintf(&b, "%s    choice %s {\n%s      case %s {\n", ind, id("h"), ind, id("s"))
						kids(ind+"        ", depth+1, true)
						fmt.Fprintf(&b, "%s      }\n%s    }\n", ind, ind)
					} else {
						kids(ind+"    ", depth+1, true)
					}
					fmt.Fprintf(&b, "%s  }\n", ind)
				}
				fmt.Fprintf(&b, "%s}\n", ind)
			}
		}
	}
	b.WriteString("module m {\n  namespace \"urn:m\";\n  prefix m;\n  revision 2020-01-01;\n")
	kids("  ", 0, false)
	b.WriteString("}\n")
	return b.String()
}

func c8newTree(r *gen.Rng, n int) (*c8tree, error) {
	opts := tree.GenOpts{MaxDepth: 3, MaxKids: 4, Lists: true, Choices: r.Chance(1, 2), Defaults: true, LeafLists: true,
		ConfigMix: r.Chance(1, 2), KeyTypes: c8keyTypes}
	if r.Chance(1, 3) {
		opts.MaxDepth = 4
	}
	var yang string
	var m *meta.Module
	var root *tree.SNode
	var err error
	if n%3 != 2 {
		yang = c8listYang(r.Fork(1))
		if m, err = parser.LoadModuleFromString(nil, yang); err == nil {
			root = tree.Root(m)
		}
	} else {
		yang, m, root, err = tree.GenSchema(r.Fork(1), opts)
	}
	if err != nil {
		return nil, fmt.Errorf("generated schema does not load: %v\n%s", err, yang)
	}
	pfx := "m"
	if r.Chance(1, 2) {
		// a prefix that differs from the module name
		pfx = "pf"
		yang = strings.Replace(yang, "prefix m;", "prefix pf;", 1)
		if m, err = parser.LoadModuleFromString(nil, yang); err != nil {
			return nil, fmt.Errorf("generated schema does not load: %v\n%s", err, yang)
		}
		root = tree.Root(m)
	}
	dr := r.Fork(2)
	data := tree.GenData(dr, root, 85, 3)
	c8hostileKeys(dr, root, data)
	t := &c8tree{yang: yang, m: m, root: root, data: data, pfx: pfx}
	t.rootNode = &c8node{kind: "root", s: root, cont: data}
	c8enum(root, data, nil, &t.nodes)
	hooks := &tree.Hooks{Event: func(kind, path, detail string) error {
		if !t.armed {
			return nil
		}
		switch {
		case kind == "field-write", kind == "begin", kind == "end",
			strings.Contains(detail, "new=true"), strings.Contains(detail, "delete=true"):
			t.writes = append(t.writes, kind+" "+path+" "+detail)
		}
		return nil
	}}
	t.pol = c8policies[0]
	t.browser = node.NewBrowser(m, c8serve(data.Node(root, hooks, ""), root, &t.pol))
	return t, nil
}

func c8common(a, b []c8step) int {
	n := 0
	for n < len(a) && n < len(b) {
		x, y := a[n], b[n]
		if x.idx != y.idx || (x.key == nil) != (y.key == nil) || (x.key != nil && x.row != y.row) {
			break
		}
		n++
	}
	return n
}

// altKeyText spells a key value differently but so that it converts to the same value
func c8altKeyText(r *gen.Rng) func(v val.Value) string {
	return func(v val.Value) string {
		switch x := v.(type) {
		case val.Int32, val.Int64, val.UInt8, val.UInt32:
			s := v.String()
			if strings.HasPrefix(s, "-") {
				return "-00" + s[1:]
			}
			if _, unsigned := v.(val.UInt8); unsigned || r.Bool() {
				return "0" + s
			}
			if _, unsigned := v.(val.UInt32); unsigned {
				return "000" + s
			}
			return "+" + s
		case val.Bool:
			if bool(x) {
				return gen.Pick(r, []string{"1", "yes"})
			}
			return gen.Pick(r, []string{"0", "no"})
		case val.Enum:
			return fmt.Sprint(x.Id)
		}
		return v.String()
	}
}

func c8iterTag(it bool) string {
	if it {
		return "-iterated-start"
	}
	return ""
}

func c8iterNote(it bool) string {
	if it {
		return " (start entry reached by First/Next)"
	}
	return ""
}

func (t *c8tree) calls(r *gen.Rng, budget int) []c8call {
	var out []c8call
	present := func(n *c8node) string { return emit.App("IPresent", c8posTerm(n.steps)) }
	var starts []*c8node
	for _, n := range t.nodes {
		if n.containerLike() {
			starts = append(starts, n)
		}
	}
	// selections of terminal nodes (leaf, leaf-list, list without key) are start selections too
	var terminals []*c8node
	for _, n := range t.nodes {
		if n.kind == "leaf" || n.kind == "list" {
			terminals = append(terminals, n)
		}
	}
	modName := t.m.Ident()
	quals := []func(int, *tree.SNode) string{
		func(int, *tree.SNode) string { return modName },
		func(d int, k *tree.SNode) string {
			if (d+len(k.Name))%2 == 0 {
				return modName
			}
			return ""
		},
		func(d int, k *tree.SNode) string {
			if d == 0 {
				return modName
			}
			return ""
		},
	}
	// relative(start, target): "../" steps up to the deepest common container-like ancestor, then down
	relative := func(s, n *c8node, sp c8spell) string {
		p := c8common(s.steps, n.steps)
		if !s.containerLike() && p == len(s.steps) {
			// nothing is below a leaf or a list selection: climb to its holder (also to address
			// the start itself, or the entries of a start list)
			p--
		}
		ups := c8chainLen(s.steps) - c8chainLen(s.steps[:p])
		return strings.Repeat("../", ups) + c8render(n.steps[p:], sp)
	}
	all := append([]*c8node{t.rootNode}, t.nodes...)
	// sample when the tree is large; list entries are twice as likely to be kept
	per := 100
	if len(all) > budget {
		per = 100 * budget / len(all)
	}
	for _, n := range all {
		keep := per
		if n.kind == "row" {
			keep = 2 * per
		}
		if !r.Chance(keep, 100) && len(out) > 0 {
			continue
		}
		// 1. from the root, canonical spelling
		out = append(out, c8call{start: t.rootNode, path: c8render(n.steps, c8spell{}), intent: present(n), idesc: "present node, canonical path", stream: "root-canonical"})
		if len(n.steps) == 0 {
			out = append(out, c8call{start: t.rootNode, path: "/", intent: present(n), idesc: "root, trailing slash", stream: "root-variant"})
			continue
		}
		// 2. from the root, another valid spelling
		sp := c8spell{esc: r.Intn(5), trailing: r.Chance(1, 3)}
		if r.Chance(1, 2) {
			sp.qual = gen.Pick(r, quals)
		}
		out = append(out, c8call{start: t.rootNode, path: c8render(n.steps, sp), intent: present(n),
			idesc: fmt.Sprintf("present node, spelling esc=%d trailing=%v qualified=%v", sp.esc, sp.trailing, sp.qual != nil), stream: "root-variant"})
		// 2b. a list entry: every way of escaping its keys
		if n.kind == "row" {
			last := n.steps[len(n.steps)-1]
			hasSpace, isStr := false, false
			for _, v := range last.key {
				if v.Format() == val.FmtString {
					isStr = true
					hasSpace = hasSpace || strings.Contains(v.String(), " ")
				}
			}
			if isStr {
				// ... and read constraints in the query behind an escaped key: the path part must be
				// taken as written (decoded once)
				qs := []string{"?depth=1", "?fields=zz", "?content=config", "?with-defaults=trim"}
				q := qs[len(out)%len(qs)]
				out = append(out, c8call{start: t.rootNode, path: c8render(n.steps, c8spell{}) + q, intent: present(n),
					idesc: "list entry, escaped keys followed by the query " + q, skip: true, stream: "query"})
			}
			for mode := escLower; isStr && mode <= escPlus; mode++ {
				if mode == escPlus && !hasSpace {
					continue
				}
				sp := c8spell{esc: mode, trailing: r.Chance(1, 4)}
				out = append(out, c8call{start: t.rootNode, path: c8render(n.steps, sp), intent: present(n),
					idesc: fmt.Sprintf("list entry, keys escaped in mode %d", mode), stream: "root-escapes"})
			}
		}
		// 3. from an ancestor
		if len(n.steps) > 1 && r.Chance(2, 3) {
			cut := 1 + r.Intn(len(n.steps)-1)
			var anc *c8node
			for _, s := range starts {
				if len(s.steps) == cut && c8common(s.steps, n.steps) == cut {
					anc = s
				}
			}
			if anc != nil {
				sp := c8spell{esc: gen.Pick(r, []int{escCanon, escCanon, escLower, escMinimal}), trailing: r.Chance(1, 4)}
				it := anc.kind == "row" && len(out)%2 == 0
				out = append(out, c8call{start: anc, path: c8render(n.steps[cut:], sp), intent: present(n), idesc: "present node, path relative to an ancestor" + c8iterNote(it), stream: "ancestor" + c8iterTag(it), iter: it})
			}
		}
		// 4. from another container-like node through ../
		if len(starts) > 0 && r.Chance(2, 3) {
			s := gen.Pick(r, starts)
			sp := c8spell{esc: gen.Pick(r, []int{escCanon, escCanon, escAll, escPlus}), trailing: r.Chance(1, 4)}
			if p := relative(s, n, sp); strings.HasPrefix(p, "../") {
				it := s.kind == "row" && len(out)%2 == 0
				out = append(out, c8call{start: s, path: p, intent: present(n), idesc: "present node, ../ steps from another node" + c8iterNote(it), stream: "dotdot" + c8iterTag(it), iter: it})
			}
		}
		// 4b. one ../ from a list entry leads to the list selection
		if n.kind == "row" && r.Chance(1, 3) {
			lst := &c8node{steps: append(append([]c8step{}, n.steps[:len(n.steps)-1]...), c8step{idx: n.steps[len(n.steps)-1].idx, kid: n.s}), kind: "list", s: n.s}
			it := len(out)%2 == 0
			out = append(out, c8call{start: n, path: "../", intent: present(lst), idesc: "../ from a list entry: the list" + c8iterNote(it), stream: "dotdot" + c8iterTag(it), iter: it})
		}
		// 4c. the start selection is itself one that Find returned for a terminal node - a leaf,
		// a leaf-list, or a list addressed without a key: its parent is the selection of the node
		// that holds it, so every ../ climbs from there (its siblings are "../name")
		if len(terminals) > 0 && r.Chance(2, 3) {
			s := gen.Pick(r, terminals)
			if r.Chance(1, 2) {
				// prefer a start close to the target: a leaf or list held by an ancestor-or-self
				var near []*c8node
				for _, c := range terminals {
					if k := len(c.steps) - 1; k <= len(n.steps) && c8common(c.steps[:k], n.steps) == k {
						near = append(near, c)
					}
				}
				if len(near) > 0 {
					s = gen.Pick(r, near)
				}
			}
			sp := c8spell{esc: gen.Pick(r, []int{escCanon, escCanon, escLower, escPlus}), trailing: r.Chance(1, 4)}
			out = append(out, c8call{start: s, path: relative(s, n, sp), intent: present(n),
				idesc: "present node, ../ steps from the selection of a " + s.kind, stream: "dotdot-from-" + s.kind})
		}
		// 5. query parameters: navigation ignores read filters, the same node is found
		if r.Chance(1, 4) {
			q := gen.Pick(r, []string{"?depth=1", "?fields=zz", "?content=config", "?fc.max-node-count=1", "?with-defaults=trim", "?depth=1&fields=zz"})
			out = append(out, c8call{start: t.rootNode, path: c8render(n.steps, c8spell{}) + q, intent: present(n), idesc: "present node, read constraints in the query " + q, skip: true, stream: "query"})
		}
		// 6. other key spellings that convert to the same key (no claim by the property; model must agree)
		hasAlt := false
		for _, st := range n.steps {
			for _, v := range st.key {
				if v.Format() != val.FmtString {
					hasAlt = true
				}
			}
		}
		if hasAlt && r.Chance(1, 2) {
			sp := c8spell{esc: escCanon, keyText: c8altKeyText(r)}
			out = append(out, c8call{start: t.rootNode, path: c8render(n.steps, sp), intent: "INoClaim", idesc: "alternative key text (leading zeros, sign, 1/yes, enum id)", stream: "alt-key"})
		}
	}
	// 4d. "../" alone from a terminal selection is the selection that holds it, and as many ../
	// as the chain is long lead to the root
	for i := 0; i < 3 && len(terminals) > 0; i++ {
		s := gen.Pick(r, terminals)
		holder := &c8node{steps: s.steps[:len(s.steps)-1]}
		out = append(out, c8call{start: s, path: "../", intent: present(holder), idesc: "../ from the selection of a " + s.kind + ": its holder", stream: "dotdot-from-" + s.kind})
		if i == 0 {
			out = append(out, c8call{start: s, path: strings.Repeat("../", c8chainLen(s.steps)), intent: emit.App("IPresent", "[]"), idesc: "../ from the selection of a " + s.kind + " up to the root", stream: "dotdot-from-" + s.kind})
			out = append(out, c8call{start: s, path: strings.Repeat("../", c8chainLen(s.steps)+1) + "x", intent: "INoClaim", idesc: "../ beyond the root from the selection of a " + s.kind, stream: "malformed"})
		}
	}
	out = append(out, t.negativeCalls(r, starts)...)
	return out
}

// negativeCalls: absent targets, unknown names, malformed input
func (t *c8tree) negativeCalls(r *gen.Rng, starts []*c8node) []c8call {
	var out []c8call
	holders := append([]*c8node{t.rootNode}, starts...)
	unknown := func() string {
		return gen.Pick(r, []string{"zz9", "nope", "x", "l0", "c-1", "Q", "ü", "a%20b", "k%3D"})
	}
	join := func(a, b string) string {
		if a == "" {
			return b
		}
		return a + "/" + b
	}
	freshKey := func(lst *tree.SNode, l *tree.List) ([]val.Value, bool) {
		for try := 0; try < 10; try++ {
			key := make([]val.Value, len(lst.Keys))
			for k, kp := range lst.Keys {
				kl := lst.Kids[kp]
				if kl.Leafable().Type().Format() == val.FmtString {
					v, _ := node.NewValue(kl.Leafable().Type(), c8hostile(r)+"!")
					key[k] = v
				} else {
					key[k] = tree.GenValue(r, kl.Leafable())
				}
			}
			clash := false
			if l != nil {
				for _, row := range l.Rows {
					same := true
					for k, kp := range lst.Keys {
						if !val.Equal(row.Leaves[lst.Kids[kp].Name], key[k]) {
							same = false
						}
					}
					if same {
						clash = true
					}
				}
			}
			if !clash {
				return key, true
			}
		}
		return nil, false
	}
	// below: a schema-valid continuation under a node that is not there
	var below func(s *tree.SNode, depth int) string
	below = func(s *tree.SNode, depth int) string {
		if depth > 1 || len(s.Kids) == 0 || r.Chance(1, 2) {
			return ""
		}
		kid := gen.Pick(r, s.Kids)
		switch kid.Kind {
		case tree.KCont:
			return "/" + kid.Name + below(kid, depth+1)
		case tree.KLeaf:
			return "/" + kid.Name
		}
		return ""
	}
	for _, h := range holders {
		base := c8render(h.steps, c8spell{})
		// unknown name in this holder
		if r.Chance(1, 2) {
			u := unknown()
			tail := gen.Pick(r, []string{"", "/", "/more", "=1", "=a,b/x"})
			out = append(out, c8call{start: t.rootNode, path: join(base, u+tail), intent: "IUnknown", idesc: "name not in the schema: " + u, stream: "unknown"})
			if h.kind != "root" && r.Chance(1, 2) {
				out = append(out, c8call{start: h, path: u + tail, intent: "IUnknown", idesc: "name not in the schema (relative): " + u, stream: "unknown"})
			}
		}
		for _, kid := range h.s.Kids {
			switch kid.Kind {
			case tree.KCont:
				if _, ok := h.cont.Conts[kid.Name]; !ok && r.Chance(2, 3) {
					out = append(out, c8call{start: t.rootNode, path: join(base, kid.Name+below(kid, 0)), intent: "IAbsent", idesc: "container not in the data: " + kid.Name, stream: "absent"})
				}
			case tree.KList:
				l := h.cont.Lists[kid.Name]
				if key, ok := freshKey(kid, l); ok && r.Chance(2, 3) {
					st := c8step{kid: kid, key: key}
					sp := c8spell{esc: gen.Pick(r, []int{escCanon, escLower, escAll})}
					what := "key not in the list: "
					if l == nil {
						what = "list not in the data: "
					}
					out = append(out, c8call{start: t.rootNode, path: join(base, c8render([]c8step{st}, sp)+below(kid, 0)), intent: "IAbsent", idesc: what + kid.Name, stream: "absent"})
				}
				if l == nil && r.Chance(1, 2) {
					out = append(out, c8call{start: t.rootNode, path: join(base, kid.Name), intent: "IAbsent", idesc: "list not in the data: " + kid.Name, stream: "absent"})
				}
				if l != nil && len(l.Rows) > 0 && r.Chance(1, 2) {
					// malformed keys on an existing list (no claim; the model must agree)
					row := l.Rows[0]
					var ks []string
					for _, kp := range kid.Keys {
						ks = append(ks, c8escape(row.Leaves[kid.Kids[kp].Name].String(), escCanon))
					}
					bad := gen.Pick(r, []string{
						kid.Name + "=" + strings.Join(ks, ",") + ",extra",
						kid.Name + "=" + strings.Join(ks[:len(ks)-1], ","),
						kid.Name + "=%zz",
						kid.Name + "=%4",
						kid.Name + "=" + strings.Join(ks, ",") + "%",
						kid.Name + "/" + kid.Kids[kid.Keys[0]].Name,
						kid.Name + "=" + strings.Join(ks, ",") + "//" + kid.Kids[kid.Keys[0]].Name,
						"%" + kid.Name,
						"zz:" + kid.Name + "=" + strings.Join(ks, ","),
					})
					out = append(out, c8call{start: t.rootNode, path: join(base, bad), intent: "INoClaim", idesc: "malformed or unusual path", stream: "malformed"})
				}
			}
		}
	}
	// beyond the root, and a non-numeric key for a numeric key leaf
	if len(starts) > 0 {
		s := gen.Pick(r, starts)
		out = append(out, c8call{start: s, path: strings.Repeat("../", c8chainLen(s.steps)+1) + "x", intent: "INoClaim", idesc: "../ beyond the root", stream: "malformed"})
		out = append(out, c8call{start: s, path: strings.Repeat("../", c8chainLen(s.steps)), intent: emit.App("IPresent", "[]"), idesc: "../ up to the root", stream: "dotdot"})
	}
	out = append(out, c8call{start: t.rootNode, path: "wrongmod:" + t.root.Kids[0].Name, intent: "INoClaim", idesc: "qualified with an unknown module", stream: "malformed"})
	return out
}

// C08: Find reaches exactly the addressed node, and paths render back to it.
func C08(ctx *core.Ctx) error {
	ctx.Imports = "Val.Model Tree.Schema Tree.Editor Tree.Find Tree.FindNode Check.C08Check"
	ctx.Rule = "table = one generated schema (containers, lists in lists, 1-2 keys of string/int/bool/enum types, choices incl. nested, config false sub-trees, prefix equal to or different from the module name) and data tree whose string keys are built from fragments containing / , = % + space ? # : .. non-ASCII and invalid UTF-8, served by nodes that answer a lookup by key with the request's key / no key / the entry's own key values (all lists alike or by position: every answer Node.Next's contract allows); finds = every node of the tree (sampled when large; list entries always) x start selection (root, an ancestor, another container or list entry via ../ - list entries reached by Find or by First()/Next() iteration -, and a selection that Find itself returned for a leaf, leaf-list or key-less list via ../ to its siblings, its holder, other nodes and the root) x spelling (canonical, lower-case/over/minimal escaping, + for space, module-qualified segments, trailing slash, query parameters) plus absent containers/lists/keys, unknown names and malformed paths; observed: nil/NotFound/other error/panic, sel.Path as schema positions, Key(), Path.String(), content exported through a capturing reference store, re-find of the rendered path, write callbacks; non-trivial = tables with at least one list entry"
	ctx.ShardMax = 110000 // several shards classify in parallel
	r := gen.New(ctx.Seed)
	trees := ctx.Scale(6, 150)
	budget := ctx.Scale(24, 80)
	for n := 0; n < trees; n++ {
		tr := r.Fork(uint64(n))
		t, err := c8newTree(tr, n)
		if err != nil {
			return err
		}
		calls := t.calls(tr.Fork(3), budget)
		hasRow := false
		for _, nd := range t.nodes {
			if nd.kind == "row" {
				hasRow = true
			}
		}
		// every call is served under one of the key-answer behaviours in turn; the calls of one
		// behaviour form one case (table)
		np := len(c8policies)
		terms := make([][]string, np)
		descs := make([][]map[string]interface{}, np)
		for j, c := range calls {
			g := (j + n) % np
			t.pol = c8policies[g]
			res, err := t.run(c)
			if err != nil {
				ctx.Count("skipped:start-not-found")
				continue
			}
			terms[g] = append(terms[g], res.term)
			descs[g] = append(descs[g], res.desc)
			ctx.Count("stream:" + c.stream)
			ctx.Count("node-key-answer:" + t.pol.String())
		}
		total := 0
		for g := 0; g < np; g++ {
			if len(terms[g]) == 0 {
				continue
			}
			pol := c8policies[g]
			idx := ctx.N()
			head := func(fs string) string {
				return emit.App("CFindsN", pol.term(), emit.Str(t.pfx), emit.Str(t.m.Ident()), t.root.KidsTerm(), t.data.ContentTerm(t.root), fs)
			}
			if ctx.Explode == idx {
				for i := range terms[g] {
					d := descs[g][i]
					d["kind"] = "find"
					d["yang"] = t.yang
					d["data"] = t.data.Desc(t.root)
					ctx.Add(head(emit.List([]string{terms[g][i]})), d, hasRow)
				}
				return nil
			}
			ctx.Add(head(emit.List(terms[g])), map[string]interface{}{"kind": "table", "yang": t.yang, "data": t.data.Desc(t.root), "node-key-answer": pol.String(),
				"finds": len(terms[g]), "nodes": len(t.nodes), "first": descs[g][0]}, hasRow)
			total += len(terms[g])
		}
		ctx.Hist["finds"] += total
		ctx.Hist["nodes"] += len(t.nodes)
	}
	return nil
}
